"""EFFECT domain (DESIGN 2.4): world-passing EUF for code whose operands are arbitrary user objects.

Every operation on an opaque object (sort Obj) is an uninterpreted primitive that takes and returns the world:
    p.ok(args, w) : Bool     p.val(args, w) : Obj (result, or the exception when not ok)     p.world(args, w) : World
Two fragments have the same observable behaviour iff their final (outcome, world) terms are equal in the free
theory: any difference in order, multiplicity or operand of a primitive is a disequality with a model.
"""
from __future__ import annotations

import ast
import itertools

import z3

from .core import OutOfReach
from .interp import Raised, ExcVal, EXC, TYPES, exc, SymPySet, Coro, FuncVal, BoundMethod
from .stmts import Interpreter, SymKey, DEFAULT_BUILTINS
from .values import SV, USort, Rec, ClassRec, PyTypeTok

ObjS = USort("Obj")
WorldS = USort("World")
B = z3.BoolSort()

OPAQUE_EXC = PyTypeTok("OpaqueUserException", [EXC["Exception"]])


class Opaque(ast.expr):
    """An opaque child node of a template: evaluating it is the induction hypothesis Ev(k, w)."""
    _fields = ("k",)

    def __init__(self, k, lineno=1, col_offset=0):
        self.k = k
        self.lineno = lineno
        self.col_offset = col_offset
        self.end_lineno = lineno
        self.end_col_offset = col_offset

    def __repr__(self):
        return f"<child {self.k}>"


class OpaqueStmt(ast.stmt):
    """An opaque child statement: executing it yields a completion (normal / break / continue / return v / raise)."""
    _fields = ("k",)

    def __init__(self, k, lineno=1, col_offset=0):
        self.k = k
        self.lineno = lineno
        self.col_offset = col_offset
        self.end_lineno = lineno
        self.end_col_offset = col_offset


class EStr:
    """A str value built from pieces (constants and str-typed opaque terms); concatenation is associative."""

    def __init__(self, pieces):
        flat = []
        for p in pieces:
            if isinstance(p, EStr):
                flat.extend(p.pieces)
            elif isinstance(p, str):
                if p != "":
                    if flat and isinstance(flat[-1], str):
                        flat[-1] += p
                    else:
                        flat.append(p)
            else:
                flat.append(p)
        self.pieces = flat

    def __repr__(self):
        return f"EStr({self.pieces})"


class Splice:
    """All elements of an unpacked iterable (`*x`) inside a handler-built list."""

    def __init__(self, t):
        self.t = t


class SpliceKw:
    def __init__(self, t):
        self.t = t


class EKey:
    """Key object for an opaque key stored in a handler-built dict (insertion order is kept by the dict)."""
    _n = [0]

    def __init__(self, t):
        self.t = t
        EKey._n[0] += 1
        self.n = EKey._n[0]

    def __hash__(self):
        return hash(("EKey", self.n))

    def __eq__(self, other):
        return self is other


class OpaqueExc(ExcVal):
    def __init__(self, term):
        super().__init__(OPAQUE_EXC, ())
        self.term = term

    def __repr__(self):
        return f"<opaque exc {self.term}>"


class EffectInterp(Interpreter):
    ITER_BOUND = 2

    def __init__(self, eng, builtins=None):
        super().__init__(eng, builtins)
        self.w0 = z3.Const("w0", WorldS)
        self.world = self.w0
        self.nprims = 0
        self.internal_classes = set()  # names of interpreter-internal classes: opaque values are never instances
        self.builtins.update({"setattr": lambda i, o, n, v: i.setattr_(o, n, v), "iter": lambda i, x: i.prim_iter(x),
                              "slice": lambda i, *a: ("slice",) + tuple(a), "repr": _b_repr_eff, "ascii": _b_ascii_eff,
                              "callable": _b_callable_eff, "format": _b_format_eff, "len": _b_len_eff, "type": _b_type_eff})
        self.type_ctors = {"str": _b_str_eff, "tuple": _b_tuple_eff, "set": _b_set_eff}

    # ------------------------------------------------------------------------------------------------
    def is_opaque(self, v):
        return isinstance(v, SV) and v.t.sort() == ObjS

    def obj(self, v):
        """Canonical Obj term of a Python-level value."""
        if isinstance(v, SV):
            if v.t.sort() == ObjS:
                return v.t
            if v.t.sort() == B:
                return z3.If(v.t, z3.Const("const:bool:True", ObjS), z3.Const("const:bool:False", ObjS))
            raise OutOfReach(f"obj() of sort {v.t.sort()}")
        if isinstance(v, bool) or v is None or isinstance(v, (int, float, str, bytes, complex)) or v is Ellipsis:
            return z3.Const(f"const:{type(v).__name__}:{v!r}", ObjS)
        if isinstance(v, EStr):
            terms = [self.obj(p) if isinstance(p, str) else p for p in v.pieces]
            if len(terms) == 1 and not isinstance(v.pieces[0], str):
                return terms[0]
            return z3.Function(f"strcat{len(terms)}", *([ObjS] * len(terms)), ObjS)(*terms) if terms else self.obj("")
        if isinstance(v, SymPySet):
            return self._seq_term("set", list(v))
        if isinstance(v, list):
            return self._seq_term("list", v)
        if isinstance(v, tuple):
            if v and v[0] == "slice" and len(v) == 4:
                return z3.Function("slice3", ObjS, ObjS, ObjS, ObjS)(*[self.obj(x) for x in v[1:]])
            return self._seq_term("tuple", list(v))
        if isinstance(v, dict):
            parts, shape = [], []
            for k, x in v.items():
                if isinstance(k, SpliceKw):
                    shape.append("**")
                    parts.append(k.t)
                elif isinstance(k, EKey):
                    shape.append("kv")
                    parts.extend([k.t, self.obj(x)])
                else:
                    shape.append("kv")
                    parts.extend([self.obj(k), self.obj(x)])
            name = "dict[" + ",".join(shape) + "]"
            return z3.Function(name, *([ObjS] * len(parts)), ObjS)(*parts) if parts else z3.Const("const:emptydict", ObjS)
        if isinstance(v, Splice):
            return z3.Function("splice", ObjS, ObjS)(v.t)
        if isinstance(v, (PyTypeTok, ClassRec)):
            return z3.Const(f"const:type:{v.name}", ObjS)
        if isinstance(v, ExcVal):
            return self.exc_term(v)
        if isinstance(v, Rec) and v._cls is not None and v._cls.name in getattr(self, "new_function_classes", ()):
            return z3.Const("const:the-function-being-defined", ObjS)
        if isinstance(v, (FuncVal, BoundMethod, Rec)) or callable(v):
            from .values import obj_of
            return obj_of(v)
        raise OutOfReach(f"obj() of {type(v).__name__}")

    def _seq_term(self, kind, items):
        shape = "".join("*" if isinstance(x, Splice) else "." for x in items)
        terms = [x.t if isinstance(x, Splice) else self.obj(x) for x in items]
        if not terms:
            return z3.Const(f"const:empty{kind}", ObjS)
        return z3.Function(f"{kind}[{shape}]", *([ObjS] * len(terms)), ObjS)(*terms)

    def exc_term(self, e):
        if isinstance(e, OpaqueExc):
            return e.term
        return z3.Const(f"const:exc:{e.cls.name}", ObjS)

    def exc_type_term(self, e):
        """Term standing for type(e) (the property compares exception types)."""
        if isinstance(e, OpaqueExc):
            return z3.Function("type_of_exception", ObjS, ObjS)(e.term)
        return z3.Const(f"const:type:{e.cls.name}", ObjS)

    # ------------------------------------------------------------------------------------------------
    def prim(self, name, args, ret="obj", can_raise=True):
        """Apply an uninterpreted world-passing primitive."""
        ts = [a if isinstance(a, z3.ExprRef) else self.obj(a) for a in args]
        sorts = [t.sort() for t in ts]
        w = self.world
        self.nprims += 1
        fw = z3.Function(f"{name}.world", *sorts, WorldS, WorldS)
        self.world = fw(*ts, w)
        rs = {"obj": ObjS, "bool": B, "none": ObjS}[ret]
        fv = z3.Function(f"{name}.val", *sorts, WorldS, rs if ret == "bool" else ObjS)
        if can_raise:
            fok = z3.Function(f"{name}.ok", *sorts, WorldS, B)
            if not self.eng.branch(fok(*ts, w), f"{name}#{self.nprims}.ok"):
                fe = z3.Function(f"{name}.exc", *sorts, WorldS, ObjS)
                raise Raised(OpaqueExc(fe(*ts, w)))
        if ret == "none":
            return None
        return SV(fv(*ts, w))

    def Ev(self, node):
        """Induction hypothesis: evaluating an opaque child."""
        return self.prim(f"Ev[{node.k}]", [], "obj")

    def ExS(self, node):
        """Induction hypothesis for a child statement: returns ('normal'|'break'|'continue'|'return', value)."""
        w = self.world
        v = self.prim(f"Ex[{node.k}]", [], "obj")  # raises if the statement raises
        kind = z3.Function(f"Ex[{node.k}].completion", WorldS, z3.IntSort())(w)
        allowed = getattr(self, "allowed_completions", ("normal", "break", "continue", "return"))
        names = ["normal", "break", "continue", "return"]
        self.eng.assume(z3.And(kind >= 0, kind <= 3))
        for i, n in enumerate(names):
            if n not in allowed:
                self.eng.assume(kind != i)
        for i, n in enumerate(names):
            if n in allowed and self.eng.branch(kind == i, f"Ex[{node.k}]#{self.nprims}={n}"):
                return n, (v if n == "return" else None)
        from .core import PathInfeasible
        raise PathInfeasible()

    LOOP_BOUND = 2

    def ex_While(self, node, env):
        """while loops whose test is an opaque truth value are explored for at most LOOP_BOUND iterations (shape
        bound: afterwards the test is assumed false)."""
        from .interp import _Break, _Continue
        n = 0
        while True:
            t = self.truth(self.ev(node.test, env))
            if isinstance(t, bool):
                cont = t
                if cont and n >= self.LOOP_BOUND and not isinstance(node.test, ast.Constant):
                    # the test was decided by branching inside the call (e.g. aeval_test): same shape bound as for an opaque
                    # truth value - paths with more iterations are not explored
                    self.eng.assume(z3.BoolVal(False))
                    from .interp import PathEnd
                    raise PathEnd()
                if cont and n > 64:
                    raise OutOfReach("concrete while loop does not terminate")
            elif n >= self.LOOP_BOUND:
                self.eng.assume(z3.Not(t))
                cont = False
            else:
                cont = self.eng.branch(t, f"L{node.lineno}while{n}")
            if not cont:
                self.exec_block(node.orelse, env)
                return
            n += 1
            try:
                self.exec_block(node.body, env)
            except _Break:
                return
            except _Continue:
                continue

    def exc_matches(self, e, spec):
        if isinstance(spec, tuple):
            return any(self.exc_matches(e, s_) for s_ in spec)
        if isinstance(e, OpaqueExc):
            name = getattr(spec, "name", None)
            if name in ("BaseException",):
                return True
            if name == "Exception":
                if getattr(self, "user_exceptions_derive_from_Exception", True):
                    return True
                return self.eng.branch(z3.Function("derives_from_Exception", ObjS, B)(e.term), "exc.isException")
            if name is not None:
                return self.eng.branch(z3.Function(f"exc_isinstance.{name}", ObjS, B)(e.term), f"exc.is{name}")
            if self.is_opaque(spec):
                return self.eng.branch(z3.Function("isinstance_of", ObjS, ObjS, B)(e.term, spec.t), "exc.isinstance")
        return super().exc_matches(e, spec)

    def ex_Raise(self, node, env):
        if node.exc is None:
            return super().ex_Raise(node, env)
        e = self.ev(node.exc, env)  # evaluated exactly once
        if self.is_opaque(e) or isinstance(e, OpaqueExc):
            t = e.t if self.is_opaque(e) else e.term
            if node.cause is not None:
                c = self.ev(node.cause, env)
                t = z3.Function("with_cause", ObjS, ObjS, ObjS)(t, self.obj(c))
            raise Raised(OpaqueExc(t))
        if isinstance(e, (PyTypeTok, ClassRec)):
            e = self.call(e, [], {})
        if not isinstance(e, ExcVal):
            raise OutOfReach(f"raise of {e!r}")
        if node.cause is not None:
            e.cause = self.ev(node.cause, env)
        raise Raised(e)

    # ------------------------------------------------------------------------------------------------
    # operations on opaque values
    # ------------------------------------------------------------------------------------------------
    def truth(self, v):
        if self.is_opaque(v):
            return self.prim("truth", [v], "bool").t
        if isinstance(v, EStr):
            if any(isinstance(p, str) and p for p in v.pieces):
                return True
            return self.prim("truth", [v], "bool").t
        return super().truth(v)

    def binop(self, op, a, b):
        if isinstance(op, ast.Add) and self._strish(a) and self._strish(b) and (isinstance(a, EStr) or isinstance(b, EStr)):
            return EStr([a, b])
        if self.is_opaque(a) or self.is_opaque(b) or isinstance(a, EStr) or isinstance(b, EStr):
            return self.prim(f"binop.{type(op).__name__}", [a, b])
        return super().binop(op, a, b)

    def _strish(self, v):
        return isinstance(v, (str, EStr))

    def aug(self, op, cur, val):
        if isinstance(cur, list) and isinstance(op, ast.Add) and self.is_opaque(val):
            # list += iterable : extends with every element of the iteration (effect: the iteration)
            t = self.prim("unpack_iterable", [val])
            cur.append(Splice(t.t))
            return cur
        if self.is_opaque(cur) or self.is_opaque(val):
            return self.prim(f"inplace.{type(op).__name__}", [cur, val])
        return super().aug(op, cur, val)

    def cmp(self, op, a, b):
        opq = self.is_opaque(a) or self.is_opaque(b) or isinstance(a, EStr) or isinstance(b, EStr)
        if not opq:
            return super().cmp(op, a, b)
        if isinstance(op, (ast.Is, ast.IsNot)):
            if (a is None or b is None) and not (a is None and b is None):
                r = z3.Function("is_none", ObjS, B)(self.obj(b if a is None else a))
            else:
                r = self.obj(a) == self.obj(b)
            return r if isinstance(op, ast.Is) else z3.Not(r)
        if isinstance(op, (ast.In, ast.NotIn)):
            r = self.prim("contains", [b, a], "bool").t
            return r if isinstance(op, ast.In) else z3.Not(r)
        return self.prim(f"cmp.{type(op).__name__}", [a, b])

    def ev_Compare(self, node, env):
        # rich comparisons on opaque values return opaque values (not booleans)
        left = self.ev(node.left, env)
        for i, (op, rnode) in enumerate(zip(node.ops, node.comparators)):
            right = self.ev(rnode, env)
            r = self.cmp(op, left, right)
            last = i == len(node.ops) - 1
            val = r if isinstance(r, SV) else self.wrapb(r)
            if last:
                return val
            if not self.branch_truth(val, f"L{node.lineno}cmp{i}"):
                return val
            left = right
        return True

    def eq(self, a, b):
        if self.is_opaque(a) or self.is_opaque(b):
            raise OutOfReach("== on opaque values outside a Compare node")
        return super().eq(a, b)

    def ev_UnaryOp(self, node, env):
        v = self.ev(node.operand, env)
        if self.is_opaque(v) or isinstance(v, EStr):
            if isinstance(node.op, ast.Not):
                return self.wrapb(z3.Not(self.truth(v)))
            return self.prim(f"unary.{type(node.op).__name__}", [v])
        if isinstance(node.op, ast.Not):
            return self.wrapb(self.bnot(self.truth(v)))
        v = self.split_none(v)
        if isinstance(node.op, ast.USub):
            return SV(-v.t) if isinstance(v, SV) else -v
        if isinstance(node.op, ast.UAdd):
            return v if isinstance(v, SV) else +v
        if isinstance(node.op, ast.Invert):
            return ~v
        raise OutOfReach("unary op")

    def getattr_(self, obj, attr):
        if self.is_opaque(obj) and attr == "__name__" and isinstance(obj, SV) and z3.is_app(obj.t) and obj.t.decl().name() == "type_of":
            # the name of a type object (type(x).__name__): a pure read, no user code runs (A-TYPE-NAME)
            return "<type name>"   # a plain str: formatting it runs no user code
        if self.is_opaque(obj):
            return self.prim(f"getattr.{attr}", [obj])
        if isinstance(obj, dict) and attr == "update":
            def update(interp, other=None, **kw):
                if interp.is_opaque(other):
                    obj[SpliceKw(interp.prim("unpack_mapping", [other]).t)] = None
                    return None
                return super(EffectInterp, interp).getattr_(obj, "update")(interp, other, **kw)
            return update
        return super().getattr_(obj, attr)

    def concat_str(self, pieces):
        if any(isinstance(p, EStr) or self.is_opaque(p) for p in pieces):
            return EStr([p if isinstance(p, (str, EStr)) else p.t for p in pieces])
        return super().concat_str(pieces)

    def str_of(self, p):
        if isinstance(p, EStr):
            raise OutOfReach("str_of EStr")
        return super().str_of(p)

    def setattr_(self, obj, attr, value):
        if self.is_opaque(obj):
            self.prim(f"setattr.{attr}", [obj, value], "none")
            return
        if isinstance(obj, ast.AST):
            setattr(obj, attr, value)
            return
        return super().setattr_(obj, attr, value)

    def getitem(self, obj, idx):
        if self.is_opaque(obj):
            return self.prim("getitem", [obj, idx])
        return super().getitem(obj, idx)

    def setitem(self, obj, idx, value):
        if self.is_opaque(obj):
            self.prim("setitem", [obj, idx, value], "none")
            return
        if isinstance(obj, dict) and self.is_opaque(idx):
            self.prim("hash", [idx], "none")  # insertion hashes the key (may raise TypeError: unhashable)
            obj[EKey(idx.t)] = value
            return
        return super().setitem(obj, idx, value)

    def delitem(self, obj, idx):
        if self.is_opaque(obj):
            self.prim("delitem", [obj, idx], "none")
            return
        return super().delitem(obj, idx)

    def pyset_add(self, s, x):
        if self.is_opaque(x) or isinstance(x, (Splice, EStr)):
            if not isinstance(x, Splice):
                self.prim("hash", [x], "none")
            s.append(x)
            return
        return super().pyset_add(s, x)

    def call(self, fn, args, kwargs, node=None):
        if self.is_opaque(fn):
            shape = "".join("*" if isinstance(a, Splice) else "." for a in args)
            kws = []
            ts = [fn.t] + [a.t if isinstance(a, Splice) else self.obj(a) for a in args]
            for k, v in kwargs.items():
                if isinstance(k, SpliceKw):
                    kws.append("**")
                    ts.append(k.t)
                else:
                    kws.append(str(k))
                    ts.append(self.obj(v))
            return self.prim(f"call[{shape}|{','.join(kws)}]", ts)
        if isinstance(fn, type) and issubclass(fn, ast.AST):
            return fn(*args, **kwargs)
        if isinstance(fn, PyTypeTok) and fn.name in self.type_ctors:
            return self.type_ctors[fn.name](self, *args, **kwargs)
        return super().call(fn, args, kwargs, node=node)

    def ev_Call(self, node, env):
        # like the base class, but `*x` / `**x` of opaque values become splice markers
        fn = self.ev(node.func, env)
        args = []
        for a in node.args:
            if isinstance(a, ast.Starred):
                v = self.ev(a.value, env)
                if self.is_opaque(v):
                    args.append(Splice(self.prim("unpack_iterable", [v]).t))
                else:
                    args.extend(self.iterate(v))
            else:
                args.append(self.ev(a, env))
        kwargs = {}
        for kw in node.keywords:
            v = self.ev(kw.value, env)
            if kw.arg is None:
                if self.is_opaque(v):
                    kwargs[SpliceKw(self.prim("unpack_mapping", [v]).t)] = None
                elif isinstance(v, dict):
                    for k, x in v.items():
                        if not isinstance(k, SpliceKw) and k in kwargs:
                            raise exc("TypeError", f"multiple values for keyword argument '{k}'")
                        kwargs[k] = x
                else:
                    raise OutOfReach("** of a non-dict")
            else:
                kwargs[kw.arg] = v
        return self.call(fn, args, kwargs, node=node)

    def bind_args(self, fv, frame, args, kwargs):
        # a SpliceKw reaching an interpreted (non-opaque) callee stays in **kwargs
        return super().bind_args(fv, frame, args, kwargs)

    def iterate(self, v):
        if self.is_opaque(v):
            return self._iter_opaque(self.prim("iter", [v]))
        if isinstance(v, _Iterator):
            return self._iter_opaque(v.sv)
        if isinstance(v, list) and not isinstance(v, SymPySet) and any(isinstance(x, Splice) for x in v):
            return list(v)  # the elements of an unpacked iterable travel as one block
        return super().iterate(v)

    def prim_iter(self, x):
        if self.is_opaque(x):
            return _Iterator(self.prim("iter", [x]))
        return _ConcreteIter(list(self.iterate(x)))

    def _iter_opaque(self, it_sv):
        """Generator: next() until StopIteration; at most ITER_BOUND elements (shape bound)."""
        n = 0
        while True:
            w = self.world
            self.nprims += 1
            has = z3.Function("next.has", ObjS, WorldS, B)(it_sv.t, w)
            ok = z3.Function("next.ok", ObjS, WorldS, B)(it_sv.t, w)
            self.world = z3.Function("next.world", ObjS, WorldS, WorldS)(it_sv.t, w)
            if not self.eng.branch(ok, f"next#{self.nprims}.ok"):
                raise Raised(OpaqueExc(z3.Function("next.exc", ObjS, WorldS, ObjS)(it_sv.t, w)))
            if n >= self.ITER_BOUND:
                self.eng.assume(z3.Not(has))  # shape bound on the number of iterations
                return
            if not self.eng.branch(has, f"next#{self.nprims}.has"):
                return
            n += 1
            yield SV(z3.Function("next.val", ObjS, WorldS, ObjS)(it_sv.t, w))

    def ev_elts(self, elts, env):
        out = []
        for e in elts:
            if isinstance(e, ast.Starred):
                v = self.ev(e.value, env)
                if self.is_opaque(v) or isinstance(v, _Iterator):
                    out.extend(list(self.iterate(v)))
                else:
                    out.extend(self.iterate(v))
            else:
                out.append(self.ev(e, env))
        return out

    def ev_JoinedStr(self, node, env):
        pieces = []
        for v in node.values:
            if isinstance(v, ast.Constant):
                pieces.append(v.value)
            else:
                pieces.append(self.ev_FormattedValue(v, env))
        if all(isinstance(p, str) for p in pieces):
            return "".join(pieces)
        return EStr(pieces)

    def ev_FormattedValue(self, node, env):
        val = self.ev(node.value, env)
        if isinstance(val, (ast.AST, Rec, ClassRec, FuncVal)) or (isinstance(val, (list, tuple, dict)) and not isinstance(val, SymPySet)):
            return "<text>"  # message text about interpreter-internal objects (never compared)
        if node.conversion not in (-1, None):
            val = EStr([self.prim({115: "str", 114: "repr", 97: "ascii"}[node.conversion], [val]).t])  # a str
        spec = self.ev(node.format_spec, env) if node.format_spec is not None else ""
        if isinstance(val, (str, int, float, bool, type(None))) and isinstance(spec, str):
            return format(val, spec)  # formatting a literal constant is pure
        if isinstance(val, EStr) and spec == "":
            return val  # format(s, "") of a str is s itself, without observable effect
        r = self.prim("format", [val, spec])
        return EStr([r.t])

    def isinstance_(self, v, cls):
        if self.is_opaque(v) and getattr(cls, "name", None) == "tuple" and getattr(self, "opaque_values_are_not_tuples", False):
            return False
        if isinstance(v, ExcVal) and self.is_opaque(cls):
            t = v.term if isinstance(v, OpaqueExc) else self.exc_term(v)
            return self.eng.branch(z3.Function("isinstance_of", ObjS, ObjS, B)(t, cls.t), "exc.isinstance")
        if self.is_opaque(v):
            if isinstance(cls, tuple):
                rs = [self.isinstance_(v, c) for c in cls]
                return any(rs)
            name = getattr(cls, "name", getattr(cls, "__name__", None))
            if name in self.internal_classes:
                return False
            # an arbitrary user value: membership in a builtin/user class is an unknown, effect-free predicate
            p = z3.Function(f"isinstance.{name}", ObjS, B)(v.t)
            return self.eng.branch(p, f"isinstance.{name}")
        if isinstance(v, EStr):
            name = getattr(cls, "name", None)
            return name in ("str", "object") if not isinstance(cls, tuple) else any(self.isinstance_(v, c) for c in cls)
        if isinstance(cls, type):
            return isinstance(v, cls)
        if isinstance(cls, tuple) and any(isinstance(c, type) for c in cls):
            return any(self.isinstance_(v, c) for c in cls)
        if isinstance(v, ast.AST):
            return False
        return super().isinstance_(v, cls)

    def contains(self, container, x):
        if self.is_opaque(container):
            return self.prim("contains", [container, x], "bool").t
        return super().contains(container, x)

    def is_(self, a, b):
        if self.is_opaque(a) or self.is_opaque(b):
            if a is None or b is None:
                return z3.Function("is_none", ObjS, B)(self.obj(b if a is None else a))
            return self.obj(a) == self.obj(b)
        return super().is_(a, b)

    def await_(self, v):
        if self.is_opaque(v):
            return self.prim("await", [v])
        return super().await_(v)

    def type_of(self, v):
        if isinstance(v, EStr):
            return TYPES["str"]
        return super().type_of(v)

    # ------------------------------------------------------------------------------------------------
    def outcome(self, thunk):
        """Run thunk from the initial world; returns (kind, value-term, type-term, world-term)."""
        self.world = self.w0
        try:
            v = thunk()
            return ("ok", self.obj(v), None, self.world)
        except Raised as r:
            return ("exc", self.exc_term(r.exc), self.exc_type_term(r.exc), self.world)


class _Iterator:
    def __init__(self, sv):
        self.sv = sv


class _ConcreteIter(list):
    pass


def _b_str_eff(interp, v=""):
    if isinstance(v, (str, EStr)):
        return v
    if interp.is_opaque(v):
        return EStr([interp.prim("str", [v]).t])
    if isinstance(v, Splice):
        return EStr([interp.prim("str.each-element", [v.t]).t])
    if isinstance(v, (int, float, bool, type(None))):
        return str(v)
    from .stmts import _b_str
    return _b_str(interp, v)


def _b_repr_eff(interp, v):
    if interp.is_opaque(v) or isinstance(v, EStr):
        return EStr([interp.prim("repr", [v]).t])
    return repr(v)


def _b_type_eff(interp, v):
    if interp.is_opaque(v):
        return SV(z3.Function("type_of", ObjS, ObjS)(v.t))  # pure
    return interp.type_of(v)


def _b_len_eff(interp, v):
    if interp.is_opaque(v):
        return interp.prim("len", [v])
    from .stmts import _b_len
    return _b_len(interp, v)


def _b_ascii_eff(interp, v):
    if interp.is_opaque(v) or isinstance(v, EStr):
        return EStr([interp.prim("ascii", [v]).t])
    return ascii(v)


def _b_format_eff(interp, v, spec=""):
    if interp.is_opaque(v) or isinstance(v, EStr) or isinstance(spec, EStr):
        return EStr([interp.prim("format", [v, spec]).t])
    return format(v, spec)


def _b_callable_eff(interp, v):
    if interp.is_opaque(v):
        if getattr(interp, "assume_callees_callable", False):
            return True
        return interp.eng.branch(z3.Function("is_callable", ObjS, B)(v.t), "callable")
    return DEFAULT_BUILTINS["callable"](interp, v)


def _b_tuple_eff(interp, it=()):
    items = list(interp.iterate(it)) if not isinstance(it, list) else list(it)
    return tuple(items)


def _b_set_eff(interp, it=None):
    s = SymPySet()
    if it is not None:
        for x in interp.iterate(it):
            interp.pyset_add(s, x)
    return s

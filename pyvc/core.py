r"""pyvc core: path exploration, obligations, solver discharge.

The engine explores the paths of a *harness* (a Python callable that sets up symbolic state, runs the
symbolic interpreter on a REAL function AST taken from /repo, and states obligations) by re-execution with
a decision prefix.  Every branch on a symbolic condition consults the prefix; beyond the prefix both sides
are checked for feasibility with z3 and the untaken side is queued.

Verdict policy (DESIGN 3.1): an obligation is
  discharged : pc /\ hyps /\ not goal  is unsat
  refuted    : sat, with a model
  undecided  : unknown / resource limit
Nothing else is ever mapped to "refuted".
"""
from __future__ import annotations

import hashlib
import os
import time
import z3

RLIMIT = 15_000_000  # z3 resource limit per query (deterministic, load independent)


# constants that denote distinct literal values (e.g. the Part constants of distinct strings): the engine asserts
# pairwise distinctness on every path as soon as they exist
DISTINCT_CONSTS = {}


def register_distinct(group, key, const):
    DISTINCT_CONSTS.setdefault(group, {})[key] = const


class EngineAbort(BaseException):
    """Base of engine-level control exceptions (never caught by interpreted try blocks)."""


class PathInfeasible(EngineAbort):
    pass


class OutOfReach(EngineAbort):
    """The unit uses a construct outside the supported subset."""


class Undecided(EngineAbort):
    pass


class Obligation:
    __slots__ = ("name", "status", "model", "path", "backend", "time", "detail", "size", "kind", "_z3model", "witness", "vacuous")

    def __init__(self, name, status, model=None, path=None, backend="z3", time=0.0, detail=None, size=0,
                 kind="post"):
        self.name = name
        self.status = status  # discharged | refuted | undecided
        self.model = model
        self.path = path
        self.backend = backend
        self.time = time
        self.detail = detail
        self.size = size
        self.kind = kind
        self.vacuous = False

    def to_json(self):
        return {"name": self.name, "status": self.status, "path": self.path, "backend": self.backend,
                "time_s": round(self.time, 4), "detail": self.detail, "model": self.model, "size": self.size,
                "kind": self.kind, "vacuous": self.vacuous}


class Forall:
    """A universally quantified hypothesis/goal  forall x1:S1..xn:Sn. body(x1..xn).

    As a hypothesis it is instantiated on all ground terms of the right sorts that occur in the query
    (two rounds); as a goal it is skolemised.  Keeps queries quantifier free.
    """

    _ctr = [0]

    def __init__(self, sorts, body, name=""):
        self.sorts = list(sorts)
        self.name = name
        # The body is evaluated NOW on placeholder constants: closures that read mutable store state must see
        # the state at the time the formula is stated, not at the time it is instantiated.
        Forall._ctr[0] += 1
        self.bound = [z3.Const(f"?{name or 'x'}{Forall._ctr[0]}_{i}", s) for i, s in enumerate(self.sorts)]
        f = body(*self.bound)
        if isinstance(f, bool):
            f = z3.BoolVal(f)
        self.formula = f

    def body(self, *terms):
        return z3.substitute(self.formula, *zip(self.bound, terms))


def _collect_terms(exprs, sorts):
    """All ground subterms of the given sorts occurring in exprs."""
    want = {s.name(): s for s in sorts}
    found = {n: {} for n in want}
    seen = set()
    stack = list(exprs)
    while stack:
        e = stack.pop()
        i = e.get_id()
        if i in seen:
            continue
        seen.add(i)
        if z3.is_app(e):
            sn = e.sort().name()
            if sn in found and not z3.is_var(e):
                found[sn][i] = e
            stack.extend(e.children())
        elif z3.is_quantifier(e):
            pass
    return {n: list(d.values()) for n, d in found.items()}


def _has_var(e):
    seen = set()
    stack = [e]
    while stack:
        x = stack.pop()
        if x.get_id() in seen:
            continue
        seen.add(x.get_id())
        if z3.is_var(x):
            return True
        stack.extend(x.children())
    return False


class Engine:
    """One engine per harness run (all paths)."""

    def __init__(self, name, max_paths=4000, rlimit=RLIMIT):
        self.name = name
        self.max_paths = max_paths
        self.rlimit = rlimit
        self.obligations = []  # list[Obligation]
        self.paths = 0
        self.covers = {}  # cover name -> reached with satisfiable pc
        self.solver_time = 0.0
        self.queries = 0
        self.fresh_ctr = 0
        self.notes = []
        # per-path
        self.prefix = []
        self.decisions = []
        self.pc = []
        self.hyps = []  # Forall hypotheses
        self.solver = None
        self.worklist = []
        self.path_log = []
        self.forced_template = {}
        self.forced_choices = {}
        self.steps = 0
        self.max_steps = int(os.environ.get("PYVC_MAX_STEPS", "400000"))
        # budget in CPU seconds of this harness process (not wall clock: verdicts must not flip when all cores are busy);
        # exceeding it is 'undecided', never a violation
        self.t_start = time.process_time()
        self.wall_budget = 450.0

    # ---- fresh symbols (deterministic names per path position) -------------------------------------
    def fresh(self, base, sort):
        self.fresh_ctr += 1
        return z3.Const(f"{base}!{self.fresh_ctr}", sort)

    # ---- path exploration ---------------------------------------------------------------------------
    def explore(self, harness):
        self.worklist = [[]]
        while self.worklist:
            if self.paths >= self.max_paths:
                raise OutOfReach(f"{self.name}: more than {self.max_paths} paths")
            self.prefix = self.worklist.pop()
            self.decisions = []
            self.pc = []
            self.hyps = []
            self.fresh_ctr = 0
            self.path_log = []
            self.forced_choices = {k: list(v) for k, v in self.forced_template.items()}
            self.solver = z3.Solver()
            self._distinct_done = {}
            self.solver.set("rlimit", self.rlimit)
            self.paths += 1
            try:
                harness(self)
            except PathInfeasible:
                self.paths -= 1
        return self

    def _sync_distinct(self):
        """Assert distinctness of registered literal constants at the solver's base level (never inside push)."""
        for group, d in DISTINCT_CONSTS.items():
            n = len(d)
            if n > 1 and self._distinct_done.get(group, 0) != n:
                f = z3.Distinct(*d.values())
                self.solver.add(f)
                self.pc.append(f)
                self._distinct_done[group] = n

    def _check(self, *assumptions):
        t0 = time.time()
        r = self.solver.check(*assumptions)
        self.solver_time += time.time() - t0
        self.queries += 1
        return r

    def assume(self, f):
        if isinstance(f, Forall):
            self.hyps.append(f)
            return
        if isinstance(f, bool):
            if not f:
                raise PathInfeasible()
            return
        f = z3.simplify(f)
        if z3.is_true(f):
            return
        if z3.is_false(f):
            raise PathInfeasible()
        self.pc.append(f)
        self.solver.add(f)

    def branch(self, cond, tag=""):
        """Decide a symbolic condition; returns the Python bool taken on this path."""
        if isinstance(cond, bool):
            return cond
        cond = z3.simplify(cond)
        if z3.is_true(cond):
            return True
        if z3.is_false(cond):
            return False
        k = len(self.decisions)
        self._sync_distinct()
        if time.process_time() - self.t_start > self.wall_budget:
            raise OutOfReach(f"{self.name}: CPU-time budget of {self.wall_budget:.0f}s exhausted")
        if k < len(self.prefix):
            d = self.prefix[k]
        else:
            rt = self._check(cond)
            rf = self._check(z3.Not(cond))
            can_t = rt != z3.unsat
            can_f = rf != z3.unsat
            if can_t and can_f:
                self.worklist.append(self.decisions + [False])
                d = True
            elif can_t:
                d = True
            elif can_f:
                d = False
            else:
                raise PathInfeasible()
        self.decisions.append(d)
        c = cond if d else z3.Not(cond)
        self.pc.append(c)
        self.solver.add(c)
        if tag:
            self.path_log.append(f"{tag}={'T' if d else 'F'}")
        return d

    def choose(self, n, tag=""):
        """Nondeterministic choice among n alternatives (concrete fork, e.g. iteration orders)."""
        if n <= 1:
            return 0
        forced = self.forced_choices.get(tag)
        if forced:
            i = forced.pop(0)
            if tag:
                self.path_log.append(f"{tag}={i}")
            return i
        # encode as ceil(log2 n) free boolean decisions; simpler: sequential yes/no
        for i in range(n - 1):
            k = len(self.decisions)
            if k < len(self.prefix):
                d = self.prefix[k]
            else:
                self.worklist.append(self.decisions + [False])
                d = True
            self.decisions.append(d)
            if d:
                if tag:
                    self.path_log.append(f"{tag}={i}")
                return i
        if tag:
            self.path_log.append(f"{tag}={n - 1}")
        return n - 1

    # ---- obligations ---------------------------------------------------------------------------------
    def _instantiate(self, extra):
        """Instantiate Forall hypotheses on ground terms of pc + extra (two rounds)."""
        if not self.hyps:
            return []
        insts = []
        seen = set()
        base = list(self.pc) + list(extra)
        for _ in range(2):
            sorts = []
            for h in self.hyps:
                sorts.extend(h.sorts)
            terms = _collect_terms(base + insts, sorts)
            added = False
            for h in self.hyps:
                pools = [terms.get(s.name(), []) for s in h.sorts]
                if any(len(p) == 0 for p in pools):
                    continue
                import itertools
                for combo in itertools.product(*pools):
                    key = (id(h), tuple(c.get_id() for c in combo))
                    if key in seen:
                        continue
                    seen.add(key)
                    f = h.body(*combo)
                    if isinstance(f, bool):
                        if not f:
                            insts.append(z3.BoolVal(False))
                        continue
                    insts.append(f)
                    added = True
            if not added:
                break
        return insts

    def oblige(self, name, goal, kind="post", detail=None):
        """State an obligation under the current path condition."""
        t0 = time.time()
        path = "/".join(self.path_log) or "-"
        if isinstance(goal, Forall):
            sk = [self.fresh("sk_" + (goal.name or "k"), s) for s in goal.sorts]
            goal = goal.body(*sk)
        if isinstance(goal, bool) and not self.pc and not self.hyps:
            # concrete obligation on a path without symbolic condition: no solver needed
            ob = Obligation(name, "discharged" if goal else "refuted", path=path, time=time.time() - t0, detail=detail,
                            kind=kind, backend="concrete")
            ob._z3model = None
            if not goal:
                ob.model = {}
            self.obligations.append(ob)
            return ob
        if isinstance(goal, bool):
            goal = z3.BoolVal(goal)
        neg = z3.Not(goal)
        insts = self._instantiate([neg])
        s = self.solver
        self._sync_distinct()
        s.push()
        try:
            for f in insts:
                s.add(f)
            s.add(neg)
            r = self._check()
            size = sum(len(a.sexpr()) for a in s.assertions()) if False else len(s.assertions())
            if r == z3.unsat:
                ob = Obligation(name, "discharged", path=path, time=time.time() - t0, detail=detail, size=size,
                                kind=kind)
                # vacuity guard: is the path itself (pc + instantiated hypotheses) satisfiable?
                s.pop()
                s.push()
                for f in insts:
                    s.add(f)
                ob.vacuous = self._check() == z3.unsat
            elif r == z3.sat:
                m = s.model()
                ob = Obligation(name, "refuted", model=model_to_json(m), path=path, time=time.time() - t0,
                                detail=detail, size=size, kind=kind)
                ob._z3model = m
            else:
                # second opinion: cvc5 on the SMT-LIB text
                from . import solvers
                r2, why = solvers.cvc5_check(s.to_smt2())
                if r2 == "unsat":
                    ob = Obligation(name, "discharged", path=path, backend="cvc5", time=time.time() - t0,
                                    detail=detail, size=size, kind=kind)
                elif r2 == "sat":
                    ob = Obligation(name, "refuted", model={"cvc5": why}, path=path, backend="cvc5",
                                    time=time.time() - t0, detail=detail, size=size, kind=kind)
                    ob._z3model = None
                else:
                    ob = Obligation(name, "undecided", path=path, time=time.time() - t0,
                                    detail=f"z3:{s.reason_unknown()} cvc5:{why}", size=size, kind=kind)
        finally:
            s.pop()
        self.obligations.append(ob)
        return ob

    def cover(self, name):
        """Record that this program point is reached on a satisfiable path (vacuity guard)."""
        if self.covers.get(name):
            return
        insts = self._instantiate([])
        s = self.solver
        self._sync_distinct()
        s.push()
        for f in insts:
            s.add(f)
        r = self._check()
        s.pop()
        if r == z3.sat:
            self.covers[name] = True
        else:
            self.covers.setdefault(name, False)

    def feasible(self):
        insts = self._instantiate([])
        s = self.solver
        s.push()
        for f in insts:
            s.add(f)
        r = self._check()
        s.pop()
        return r != z3.unsat

    def model_eval(self, ob, term):
        m = getattr(ob, "_z3model", None)
        if m is None:
            return None
        return m.eval(term, model_completion=True)


def model_to_json(m, limit=60):
    out = {}
    for d in m.decls()[:limit]:
        try:
            v = m[d]
            s = str(v)
            if len(s) > 300:
                s = s[:300] + "..."
            out[d.name()] = s
        except Exception:  # noqa
            pass
    return out


def sha_ast(node):
    import ast
    return hashlib.sha256(ast.dump(node, include_attributes=False).encode()).hexdigest()

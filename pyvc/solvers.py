"""Second back end: cvc5 on SMT-LIB text (sequences/strings and z3 'unknown's)."""
import os
import subprocess
import tempfile

CVC5 = "/usr/bin/cvc5"


def cvc5_check(smt2_text, timeout_s=60, strings=True, produce_model=False):
    """Returns (verdict, info) with verdict in {'sat','unsat','unknown'}."""
    if not os.path.exists(CVC5):
        return "unknown", "cvc5 binary missing"
    text = smt2_text
    if "(check-sat)" not in text:
        text += "\n(check-sat)\n"
    if produce_model:
        text = "(set-option :produce-models true)\n" + text + "\n(get-model)\n"
    if "(set-logic" not in text:
        text = "(set-logic ALL)\n" + text
    with tempfile.NamedTemporaryFile("w", suffix=".smt2", delete=False, dir=os.environ.get("PYVC_TMP")) as f:
        f.write(text)
        path = f.name
    try:
        args = [CVC5, "--lang=smt2", f"--tlimit={int(timeout_s * 1000)}"]
        if strings:
            args.append("--strings-exp")
        try:
            p = subprocess.run(args + [path], capture_output=True, text=True, timeout=timeout_s + 5)
        except subprocess.TimeoutExpired:
            return "unknown", "cvc5 timeout"
        out = p.stdout.strip().splitlines()
        if out and out[0] in ("sat", "unsat"):
            return out[0], "\n".join(out[1:])[:4000]
        return "unknown", (p.stdout + p.stderr)[:500]
    finally:
        try:
            os.unlink(path)
        except OSError:
            pass

"""Symbolic interpreter for the Python subset used by the units under contract (DESIGN 2.3).

It interprets the REAL ast of a function taken from /repo.  Values are concrete Python values, SV scalars,
dotted names, store views, Rec/ClassRec records, FuncVal closures or host callables (assumed contracts).
"""
from __future__ import annotations

import ast
import itertools

import z3

from .core import EngineAbort, OutOfReach, PathInfeasible
from .values import (SV, DName, PartV, PyTypeTok, Rec, ClassRec, View, MapView, SetView, StructView, Opaque,
                     NameS, PartS, nparts, part, join_fn, name_axioms_for, part_const, coerce_scalar)


# ---- control-flow signals (host exceptions) ---------------------------------------------------------------
class _Return(BaseException):
    def __init__(self, value):
        self.value = value


class _Break(BaseException):
    pass


class _Continue(BaseException):
    pass


class PathEnd(EngineAbort):
    """This path ends here by construction (e.g. after the 'preserved' obligation of a loop invariant)."""


class Raised(BaseException):
    """An exception of the interpreted program."""

    def __init__(self, exc):
        self.exc = exc


class ExcVal:
    def __init__(self, cls, args=(), cause=None):
        self.cls = cls  # PyTypeTok
        self.args = tuple(args)
        self.cause = cause
        self.context = None

    def __repr__(self):
        return f"<exc {self.cls.name}{self.args!r}>"


def _mk_exc_types():
    T = {}

    def mk(name, *bases):
        T[name] = PyTypeTok(name, [T[b] for b in bases])

    mk("BaseException")
    mk("Exception", "BaseException")
    mk("CancelledError", "BaseException")
    mk("KeyboardInterrupt", "BaseException")
    mk("GeneratorExit", "BaseException")
    mk("SystemExit", "BaseException")
    for n in ("TypeError", "ValueError", "NameError", "AttributeError", "LookupError", "ArithmeticError",
              "RuntimeError", "AssertionError", "ImportError", "StopIteration", "StopAsyncIteration",
              "OSError", "SyntaxError", "NotImplementedError_", "UserException"):
        mk(n, "Exception")
    mk("KeyError", "LookupError")
    mk("IndexError", "LookupError")
    mk("UnboundLocalError", "NameError")
    mk("ZeroDivisionError", "ArithmeticError")
    mk("OverflowError", "ArithmeticError")
    mk("ModuleNotFoundError", "ImportError")
    mk("TimeoutError", "OSError")
    mk("FileNotFoundError", "OSError")
    mk("ConnectionResetError", "OSError")
    mk("EOFError", "Exception")
    mk("NotImplementedError", "RuntimeError")
    mk("RecursionError", "RuntimeError")
    return T


EXC = _mk_exc_types()
TYPES = {
    "set": PyTypeTok("set"), "dict": PyTypeTok("dict"), "list": PyTypeTok("list"), "tuple": PyTypeTok("tuple"),
    "str": PyTypeTok("str"), "int": PyTypeTok("int"), "float": PyTypeTok("float"), "bool": PyTypeTok("bool"),
    "bytes": PyTypeTok("bytes"), "object": PyTypeTok("object"), "NoneType": PyTypeTok("NoneType"),
    "type": PyTypeTok("type"), "frozenset": PyTypeTok("frozenset"),
}
TYPES["bool"].bases = (TYPES["int"],)


class FuncVal:
    def __init__(self, node, env, qualname, module=None, is_async=False, kind="function", owner=None):
        self.node = node
        self.env = env
        self.qualname = qualname
        self.module = module
        self.is_async = is_async
        self.kind = kind  # function | classmethod | staticmethod
        self.owner = owner

    def __repr__(self):
        return f"<func {self.qualname}>"


class BoundMethod:
    def __init__(self, func, self_obj):
        self.func = func
        self.self_obj = self_obj

    def __repr__(self):
        return f"<bound {self.func!r} of {self.self_obj!r}>"


class Coro:
    """Result of calling an async function: runs when awaited."""

    def __init__(self, thunk, label=""):
        self.thunk = thunk
        self.label = label
        self.started = False

    def __repr__(self):
        return f"<coro {self.label}>"


class Env:
    def __init__(self, parent=None, vars=None):
        self.parent = parent
        self.vars = dict(vars or {})

    def lookup(self, name):
        e = self
        while e is not None:
            if name in e.vars:
                return e.vars[name]
            e = e.parent
        raise KeyError(name)

    def has(self, name):
        e = self
        while e is not None:
            if name in e.vars:
                return True
            e = e.parent
        return False


class Missing:
    """Placeholder for an imported name that no stub covers; any use is out of reach."""

    def __init__(self, name):
        self.name = name


def exc(name, *args):
    return Raised(ExcVal(EXC[name], args))


class Interp:
    def __init__(self, eng, builtins=None):
        self.eng = eng
        self.builtins = dict(DEFAULT_BUILTINS)
        if builtins:
            self.builtins.update(builtins)
        self.cur_exc = []  # stack of exceptions being handled (for bare raise)
        self.call_hooks = {}  # qualname -> host callable(interp, fv, args, kwargs) replacing the body (contracts)
        self.method_tables = {}  # (sortname, attr) -> host callable(interp, selfvalue, *args, **kw)
        self.loop_specs = {}  # (qualname, ordinal) -> LoopSpec
        self.func_stack = []
        self.on_await = None  # hook(interp, value) called before awaiting
        self.depth = 0

    # ------------------------------------------------------------------------------------------------
    # helpers on values
    # ------------------------------------------------------------------------------------------------
    def split_none(self, v):
        """Fork on the Optional flag of an SV; returns None or a plain SV."""
        if isinstance(v, SV) and v.none is not None:
            if self.eng.branch(v.none, "isnone"):
                return None
            return SV(v.t, pytype=v.pytype)
        return v

    def truth(self, v):
        """Truthiness as Python bool or z3 Bool."""
        if isinstance(v, SV):
            if v.none is not None:
                v = self.split_none(v)
                if v is None:
                    return False
            s = v.t.sort()
            if s == z3.BoolSort():
                return v.t
            if s == z3.IntSort() or s == z3.RealSort():
                return v.t != 0
            if s == z3.StringSort():
                return z3.Length(v.t) > 0
            if s.kind() == z3.Z3_UNINTERPRETED_SORT:
                hook = self.method_tables.get((s.name(), "__bool__"))
                if hook:
                    return self.truth(hook(self, v))
                return True
            raise OutOfReach(f"truth of sort {s}")
        if isinstance(v, (MapView, SetView)):
            return z3.Not(v.is_empty())
        if isinstance(v, StructView):
            raise OutOfReach("truth of struct view")
        if isinstance(v, DName):
            return True  # a dotted name has >= 1 part; the empty string is the 1-part name with empty part
        if isinstance(v, (Rec, ClassRec, FuncVal, BoundMethod, PyTypeTok, Coro, Opaque)):
            if isinstance(v, Rec):
                hook = v._fields.get("__bool__")
                if hook is not None:
                    return self.truth(self.call(hook, [], {}))
            return True
        if isinstance(v, Missing):
            raise OutOfReach(f"use of unmodelled name {v.name}")
        if isinstance(v, dict) and "__pyvc_symbolic_part__" in v:
            if len(v) > 1:
                return True
            return z3.Not(v["__pyvc_symbolic_part__"].is_empty())
        if callable(v) and not isinstance(v, type):
            return True
        return bool(v)

    def branch_truth(self, v, tag=""):
        t = self.truth(v)
        if isinstance(t, bool):
            return t
        return self.eng.branch(t, tag)

    def eq(self, a, b):
        """a == b as Python bool or z3 Bool."""
        if isinstance(a, SV) and a.none is not None:
            a = self.split_none(a)
        if isinstance(b, SV) and b.none is not None:
            b = self.split_none(b)
        if a is None or b is None:
            other = b if a is None else a
            if other is not None and getattr(self, "obj_may_be_none", False) and isinstance(other, SV) and \
                    other.t.sort().name() == "Obj":
                return other.t == z3.Const("const:None", other.t.sort())
            return a is None and b is None
        if isinstance(a, DName) and isinstance(b, DName):
            return a.t == b.t
        if isinstance(a, (DName, PartV)) and isinstance(b, str):
            return self.eq(a, self.to_sym_str(b, a))
        if isinstance(b, (DName, PartV)) and isinstance(a, str):
            return self.eq(self.to_sym_str(a, b), b)
        if isinstance(a, PartV) and isinstance(b, PartV):
            return a.t == b.t
        if isinstance(a, Opaque):
            a = SV(a.t)
        if isinstance(b, Opaque):
            b = SV(b.t)
        if isinstance(a, Rec) and a._ident is not None and isinstance(b, (SV, Rec)):
            a = SV(a._ident)
        if isinstance(b, Rec) and b._ident is not None and isinstance(a, SV):
            b = SV(b._ident)
        if isinstance(a, SV) and isinstance(b, SV):
            if a.t.sort() != b.t.sort():
                if {a.t.sort(), b.t.sort()} == {z3.IntSort(), z3.RealSort()}:
                    return z3.ToReal(a.t) == b.t if a.t.sort() == z3.IntSort() else a.t == z3.ToReal(b.t)
                return False
            return a.t == b.t
        if isinstance(a, SV) or isinstance(b, SV):
            sv, other = (a, b) if isinstance(a, SV) else (b, a)
            try:
                o = coerce_scalar(other, sv.t.sort())
            except OutOfReach:
                return False
            return sv.t == o.t
        if isinstance(a, SymPySet) and isinstance(b, SymPySet):
            try:
                return set(a) == set(b)
            except TypeError:
                raise OutOfReach("== on sets with symbolic elements")
        if isinstance(a, (list, tuple)) and isinstance(b, (list, tuple)) and type(a) is type(b):
            if len(a) != len(b):
                return False
            conj = []
            for x, y in zip(a, b):
                e = self.eq(x, y)
                if e is False:
                    return False
                if e is not True:
                    conj.append(e)
            return z3.And(*conj) if conj else True
        if isinstance(a, (Rec, ClassRec, FuncVal, PyTypeTok)) or isinstance(b, (Rec, ClassRec, FuncVal, PyTypeTok)):
            return a is b
        if isinstance(a, BoundMethod) and isinstance(b, BoundMethod):
            return a.func is b.func and a.self_obj is b.self_obj
        if isinstance(a, View) or isinstance(b, View):
            raise OutOfReach("== on container views")
        return a == b

    def to_sym_str(self, s, like):
        if isinstance(like, PartV):
            if "." in s:
                return None  # never equal
            return PartV(part_const(s))
        parts = s.split(".")
        t = join_fn(len(parts))(*[part_const(p) for p in parts])
        for ax in name_axioms_for(t):
            self.eng.assume(ax)
        return DName(t)

    def wrapb(self, b):
        """z3 Bool / python bool -> value."""
        if isinstance(b, bool):
            return b
        b = z3.simplify(b)
        if z3.is_true(b):
            return True
        if z3.is_false(b):
            return False
        return SV(b)

    def bnot(self, b):
        if isinstance(b, bool):
            return not b
        return z3.Not(b)

    def contains(self, container, x):
        """x in container -> bool/z3 Bool."""
        if isinstance(container, SV) and container.none is not None:
            container = self.split_none(container)
        if isinstance(x, SV) and x.none is not None:
            x = self.split_none(x)
        if isinstance(container, SetView):
            if x is None:
                return False
            return container.contains(x)
        if isinstance(container, (MapView, StructView)):
            if x is None:
                return False
            return container.has(x)
        if isinstance(container, (list, tuple, set, frozenset)):
            disj = []
            for e in container:
                r = self.eq(e, x)
                if r is True:
                    return True
                if r is not False:
                    disj.append(r)
            return z3.Or(*disj) if disj else False
        if isinstance(container, dict):
            return self.contains([k.key if type(k).__name__ == "SymKey" else k for k in container.keys()], x)
        if isinstance(container, Rec) and "__contains__" in container._fields:
            r = self.call(container._fields["__contains__"], [x], {})
            return self.truth(r)
        if isinstance(container, str) and isinstance(x, str):
            return x in container
        raise OutOfReach(f"'in' on {type(container).__name__}")

    def type_of(self, v):
        """Python class token of a value (for isinstance / type())."""
        if v is None:
            return TYPES["NoneType"]
        if isinstance(v, bool):
            return TYPES["bool"]
        if isinstance(v, int):
            return TYPES["int"]
        if isinstance(v, float):
            return TYPES["float"]
        if isinstance(v, (str, DName, PartV)):
            return TYPES["str"]
        if isinstance(v, bytes):
            return TYPES["bytes"]
        if isinstance(v, SymPySet):
            return TYPES["set"]
        if isinstance(v, list):
            return TYPES["list"]
        if isinstance(v, tuple):
            return TYPES["tuple"]
        if isinstance(v, (set, SetView)):
            return TYPES["set"]
        if isinstance(v, (dict, MapView, StructView)):
            return TYPES["dict"]
        if isinstance(v, SV):
            if v.pytype is not None:
                return v.pytype
            s = v.t.sort()
            if s == z3.BoolSort():
                return TYPES["bool"]
            if s == z3.IntSort():
                return TYPES["int"]
            if s == z3.RealSort():
                return TYPES["float"]
            if s == z3.StringSort():
                return TYPES["str"]
            return PyTypeTok(s.name())
        if isinstance(v, Rec):
            return v._cls if v._cls is not None else TYPES["object"]
        if isinstance(v, ExcVal):
            return v.cls
        if isinstance(v, (ClassRec, PyTypeTok)):
            return TYPES["type"]
        if isinstance(v, ast.AST):
            return type(v)
        return TYPES["object"]

    def isinstance_(self, v, cls):
        if isinstance(v, SV) and v.none is not None:
            v = self.split_none(v)
        if isinstance(cls, tuple):
            return any(self.isinstance_(v, c) for c in cls)
        if isinstance(cls, type):
            return isinstance(v, cls)  # host classes (ast node classes)
        if isinstance(v, SV) and isinstance(v.pytype, dict):
            # symbolic dynamic type: pytype = {"tok": z3 term, "universe": {...}}
            raise OutOfReach("symbolic dynamic type")
        t = self.type_of(v)
        cname = cls.name if isinstance(cls, (PyTypeTok, ClassRec)) else None
        if cname is None:
            raise OutOfReach(f"isinstance against {cls!r}")
        if cname == "object":
            return True
        return cname in t.mro_names()

    # ------------------------------------------------------------------------------------------------
    # expressions
    # ------------------------------------------------------------------------------------------------
    def ev(self, node, env):
        m = getattr(self, "ev_" + node.__class__.__name__, None)
        if m is None:
            raise OutOfReach(f"expression {node.__class__.__name__} at line {getattr(node, 'lineno', '?')}")
        return m(node, env)

    def ev_Constant(self, node, env):
        return node.value

    def ev_Name(self, node, env):
        try:
            v = env.lookup(node.id)
        except KeyError:
            if node.id in self.builtins:
                return self.builtins[node.id]
            import builtins as _b
            if hasattr(_b, node.id):
                raise OutOfReach(f"builtin {node.id} is not modelled")
            raise exc("NameError", f"name '{node.id}' is not defined")
        if isinstance(v, Unbound):
            raise exc("UnboundLocalError", node.id)
        return v

    def ev_Tuple(self, node, env):
        return tuple(self.ev_elts(node.elts, env))

    def ev_List(self, node, env):
        return list(self.ev_elts(node.elts, env))

    def ev_Set(self, node, env):
        vals = self.ev_elts(node.elts, env)
        return SymPySet(vals)

    def ev_elts(self, elts, env):
        out = []
        for e in elts:
            if isinstance(e, ast.Starred):
                out.extend(self.iterate(self.ev(e.value, env)))
            else:
                out.append(self.ev(e, env))
        return out

    def ev_Dict(self, node, env):
        d = {}
        for k, v in zip(node.keys, node.values):
            if k is None:
                src = self.ev(v, env)
                if isinstance(src, dict):
                    d.update(src)
                else:
                    raise OutOfReach("** of symbolic map in dict display")
            else:
                kk = self.ev(k, env)
                vv = self.ev(v, env)
                d[self.hashable(kk)] = vv
        return d

    def hashable(self, k):
        if isinstance(k, (SV, DName, PartV)):
            from .stmts import SymKey
            return SymKey(k)
        return k

    def ev_JoinedStr(self, node, env):
        pieces = []
        for v in node.values:
            if isinstance(v, ast.Constant):
                pieces.append(v.value)
            else:
                if v.format_spec is not None:
                    raise OutOfReach("format spec")
                pieces.append(self.ev(v.value, env))
        return self.concat_str(pieces)

    def concat_str(self, pieces):
        """Concatenate str pieces (concrete strs, PartV, DName, z3 strings)."""
        if all(isinstance(p, str) for p in pieces):
            return "".join(pieces)
        import re as _re
        if any(isinstance(p, (PartV, DName)) for p in pieces) and \
                (not all(isinstance(p, (str, PartV, DName)) for p in pieces) or
                 any(isinstance(p, str) and not _re.fullmatch(r"[\w.]*", p) for p in pieces)):
            if all(isinstance(p, (str, PartV)) for p in pieces):
                # text built from name parts and literals other than dots (e.g. a relative path "<kind>/<name>/__init__.py"):
                # a deterministic string, the parts rendered by an uninterpreted text-of-part function
                text_of = z3.Function("text_of_part", PartS, z3.StringSort())
                return SV(z3.Concat(*[z3.StringVal(p) if isinstance(p, str) else text_of(p.t) for p in pieces])) if len(pieces) > 1 else SV(text_of(pieces[0].t))
            # a message that mixes names with other values (only ever used as text): opaque string
            return SV(self.eng.fresh("msg", z3.StringSort()))
        if any(isinstance(p, (PartV, DName)) for p in pieces):
            # dotted-name construction: pieces are parts / names / literal text made of dots and parts
            parts = []
            pending = ""  # literal text carried to attach
            seq = []  # list of ('part', term) | ('dot',)
            for p in pieces:
                if isinstance(p, str):
                    segs = p.split(".")
                    for i, s in enumerate(segs):
                        if i > 0:
                            seq.append(("dot",))
                        if s != "":
                            seq.append(("part", part_const(s)))
                elif isinstance(p, PartV):
                    seq.append(("part", p.t))
                elif isinstance(p, DName):
                    seq.append(("name", p.t))
                else:
                    raise OutOfReach(f"f-string piece {p!r} in dotted name")
            # valid shape: item (dot item)*  where item is part or name
            items = []
            expect_item = True
            for s in seq:
                if expect_item:
                    if s[0] == "dot":
                        raise OutOfReach("empty part in dotted-name literal")
                    items.append(s)
                    expect_item = False
                else:
                    if s[0] != "dot":
                        raise OutOfReach("adjacent parts without dot")
                    expect_item = True
            if expect_item:
                if len(items) == 1 and items[0][0] == "name":
                    return NamePrefix(items[0][1])  # f"{name}." : only meaningful as a startswith() argument
                raise OutOfReach("dotted-name literal ends with a dot")
            if any(s[0] == "name" for s in items):
                if len(items) == 1:
                    return DName(items[0][1])
                # name.part...  -> generic concat function
                t = items[0][1] if items[0][0] == "name" else join_fn(1)(items[0][1])
                for s in items[1:]:
                    if s[0] != "part":
                        raise OutOfReach("name joined with name")
                    t = name_append(t, s[1])
                    for ax in name_append_axioms(t):
                        self.eng.assume(ax)
                return DName(t)
            t = join_fn(len(items))(*[s[1] for s in items])
            for ax in name_axioms_for(t):
                self.eng.assume(ax)
            return DName(t)
        # z3 strings
        terms = []
        for p in pieces:
            if isinstance(p, str):
                terms.append(z3.StringVal(p))
            elif isinstance(p, SV) and p.t.sort() == z3.StringSort():
                terms.append(p.t)
            elif isinstance(p, SV) and p.t.sort() == z3.IntSort():
                terms.append(z3.IntToStr(p.t))
            else:
                terms.append(self.str_of(p))
        return SV(z3.Concat(*terms) if len(terms) > 1 else terms[0])

    def str_of(self, p):
        """str(p) as z3 String term: opaque objects get an uninterpreted rendering."""
        if isinstance(p, SV) and p.t.sort().kind() == z3.Z3_UNINTERPRETED_SORT:
            f = z3.Function(f"str_{p.t.sort().name()}", p.t.sort(), z3.StringSort())
            return f(p.t)
        if isinstance(p, Rec) and p._ident is not None:
            f = z3.Function(f"str_{p._ident.sort().name()}", p._ident.sort(), z3.StringSort())
            return f(p._ident)
        if isinstance(p, (type(None), bool, int, float)):
            return z3.StringVal(str(p))
        if isinstance(p, (Rec, ClassRec, ExcVal, FuncVal, list, dict, tuple)):
            return z3.StringVal(f"<{type(p).__name__}>")
        raise OutOfReach(f"str() of {type(p).__name__}")

    def ev_FormattedValue(self, node, env):
        return self.ev(node.value, env)

    def ev_BoolOp(self, node, env):
        is_and = isinstance(node.op, ast.And)
        val = None
        for i, e in enumerate(node.values):
            val = self.ev(e, env)
            if i == len(node.values) - 1:
                return val
            t = self.branch_truth(val, f"L{node.lineno}{'and' if is_and else 'or'}{i}")
            if is_and and not t:
                return val
            if not is_and and t:
                return val
        return val

    def ev_UnaryOp(self, node, env):
        v = self.ev(node.operand, env)
        if isinstance(node.op, ast.Not):
            return self.wrapb(self.bnot(self.truth(v)))
        v = self.split_none(v)
        if isinstance(node.op, ast.USub):
            if isinstance(v, SV):
                return SV(-v.t)
            return -v
        if isinstance(node.op, ast.UAdd):
            if isinstance(v, SV):
                return v
            return +v
        raise OutOfReach("unary op")

    def ev_IfExp(self, node, env):
        if self.branch_truth(self.ev(node.test, env), f"L{node.lineno}ifexp"):
            return self.ev(node.body, env)
        return self.ev(node.orelse, env)

    def ev_Compare(self, node, env):
        left = self.ev(node.left, env)
        result = True
        for i, (op, rnode) in enumerate(zip(node.ops, node.comparators)):
            right = self.ev(rnode, env)
            r = self.cmp(op, left, right)
            if i == len(node.ops) - 1:
                return self.wrapb(r) if result is True else self.wrapb(r)
            if not (r if isinstance(r, bool) else self.eng.branch(r, f"L{node.lineno}cmp{i}")):
                return False
            left = right
        return True

    def cmp(self, op, a, b):
        if isinstance(op, ast.Eq):
            return self.eq(a, b)
        if isinstance(op, ast.NotEq):
            return self.bnot(self.eq(a, b))
        if isinstance(op, ast.In):
            return self.contains(b, a)
        if isinstance(op, ast.NotIn):
            return self.bnot(self.contains(b, a))
        if isinstance(op, (ast.Is, ast.IsNot)):
            r = self.is_(a, b)
            return r if isinstance(op, ast.Is) else self.bnot(r)
        a = self.split_none(a)
        b = self.split_none(b)
        if a is None or b is None:
            raise exc("TypeError", "ordering with None")
        ta, tb = self.num_term(a), self.num_term(b)
        if ta is None or tb is None:
            if isinstance(a, (int, float, str, tuple, list)) and type(a) is type(b) or \
                    (isinstance(a, (int, float)) and isinstance(b, (int, float))):
                return {ast.Lt: a < b, ast.LtE: a <= b, ast.Gt: a > b, ast.GtE: a >= b}[type(op)]
            raise OutOfReach(f"ordering on {type(a).__name__}/{type(b).__name__}")
        ta, tb = self.unify_num(ta, tb)
        if isinstance(op, ast.Lt):
            return ta < tb
        if isinstance(op, ast.LtE):
            return ta <= tb
        if isinstance(op, ast.Gt):
            return ta > tb
        if isinstance(op, ast.GtE):
            return ta >= tb
        raise OutOfReach("cmp op")

    def is_(self, a, b):
        if isinstance(a, SV) and a.none is not None and b is None:
            return a.none
        if isinstance(b, SV) and b.none is not None and a is None:
            return b.none
        if a is None or b is None:
            return a is None and b is None
        if isinstance(a, (SV, Opaque)) and isinstance(b, (SV, Opaque)):
            return self.eq(a, b)
        if isinstance(a, bool) or isinstance(b, bool):
            if isinstance(a, SV) or isinstance(b, SV):
                return self.eq(a, b)
        return a is b

    def num_term(self, v):
        if isinstance(v, SV) and v.t.sort() in (z3.IntSort(), z3.RealSort()):
            return v.t
        if isinstance(v, SV) and v.t.sort() == z3.BoolSort():
            return z3.If(v.t, z3.IntVal(1), z3.IntVal(0))
        if isinstance(v, bool):
            return z3.IntVal(int(v))
        if isinstance(v, int):
            return z3.IntVal(v)
        if isinstance(v, float):
            return z3.RealVal(repr(v))
        return None

    def unify_num(self, a, b):
        if a.sort() == b.sort():
            return a, b
        if a.sort() == z3.IntSort():
            a = z3.ToReal(a)
        if b.sort() == z3.IntSort():
            b = z3.ToReal(b)
        return a, b

    def ev_BinOp(self, node, env):
        a = self.ev(node.left, env)
        b = self.ev(node.right, env)
        return self.binop(node.op, a, b)

    def binop(self, op, a, b):
        a = self.split_none(a)
        b = self.split_none(b)
        if isinstance(a, SymPySet) and isinstance(b, SymPySet) and isinstance(op, (ast.Sub, ast.BitOr, ast.BitAnd)):
            if isinstance(op, ast.Sub):
                return SymPySet([x for x in a if not self.branch_truth(self.wrapb(self.contains(b, x)), "setdiff")])
            if isinstance(op, ast.BitAnd):
                return SymPySet([x for x in a if self.branch_truth(self.wrapb(self.contains(b, x)), "setand")])
            out = SymPySet(a)
            for x in b:
                if not self.branch_truth(self.wrapb(self.contains(out, x)), "setor"):
                    out.append(x)
            return out
        sym = isinstance(a, (SV, DName, PartV)) or isinstance(b, (SV, DName, PartV))
        if not sym:
            try:
                return _CONCRETE_BINOPS[type(op)](a, b)
            except TypeError as e:
                raise exc("TypeError", str(e))
            except ZeroDivisionError as e:
                raise exc("ZeroDivisionError", str(e))
            except KeyError:
                raise OutOfReach(f"binop {type(op).__name__}")
        if isinstance(op, ast.Add) and (self._is_strlike(a) and self._is_strlike(b)):
            return self.concat_str([a, b])
        if isinstance(op, ast.Add) and isinstance(a, SV) and isinstance(b, SV) and z3.is_seq(a.t) and z3.is_seq(b.t) and a.t.sort() == b.t.sort():
            return SV(z3.Concat(a.t, b.t))
        if isinstance(op, ast.BitAnd) and isinstance(b, int) and not isinstance(b, bool) and b > 0 and (b & (b - 1)) == 0 and isinstance(a, SV) and a.t.sort() == z3.IntSort():
            # x & 2**k for a non-negative integer x: bit k
            self.eng.assume(a.t >= 0)
            q = self.eng.fresh("bitq", z3.IntSort())
            r = self.eng.fresh("bitr", z3.IntSort())
            self.eng.assume(z3.And(a.t == q * b + r, r >= 0, r < b))
            q2 = self.eng.fresh("bitq2", z3.IntSort())
            bit = self.eng.fresh("bit", z3.IntSort())
            self.eng.assume(z3.And(q == 2 * q2 + bit, bit >= 0, bit <= 1))
            return SV(bit * b)
        ta, tb = self.num_term(a), self.num_term(b)
        if ta is None or tb is None:
            raise OutOfReach(f"binop {type(op).__name__} on {type(a).__name__},{type(b).__name__}")
        if isinstance(op, ast.Div):
            ta, tb = (z3.ToReal(ta) if ta.sort() == z3.IntSort() else ta), (z3.ToReal(tb) if tb.sort() == z3.IntSort() else tb)
            if self.eng.branch(tb == 0, "div0"):
                raise exc("ZeroDivisionError", "division by zero")
            return SV(ta / tb)
        ta, tb = self.unify_num(ta, tb)
        if isinstance(op, ast.Add):
            return SV(ta + tb)
        if isinstance(op, ast.Sub):
            return SV(ta - tb)
        if isinstance(op, ast.Mult):
            return SV(ta * tb)
        if isinstance(op, ast.FloorDiv) and ta.sort() == z3.IntSort():
            if self.eng.branch(tb == 0, "div0"):
                raise exc("ZeroDivisionError", "division by zero")
            # Python floor division: z3 int div is euclidean; equal for positive divisor
            q = self.eng.fresh("fdiv", z3.IntSort())
            r = self.eng.fresh("fmod", z3.IntSort())
            self.eng.assume(ta == q * tb + r)
            self.eng.assume(z3.If(tb > 0, z3.And(r >= 0, r < tb), z3.And(r <= 0, r > tb)))
            return SV(q)
        if isinstance(op, ast.Mod) and ta.sort() == z3.IntSort():
            if self.eng.branch(tb == 0, "div0"):
                raise exc("ZeroDivisionError", "modulo by zero")
            q = self.eng.fresh("fdiv", z3.IntSort())
            r = self.eng.fresh("fmod", z3.IntSort())
            self.eng.assume(ta == q * tb + r)
            self.eng.assume(z3.If(tb > 0, z3.And(r >= 0, r < tb), z3.And(r <= 0, r > tb)))
            return SV(r)
        raise OutOfReach(f"symbolic binop {type(op).__name__}")

    def _is_strlike(self, v):
        return isinstance(v, (str, DName, PartV)) or (isinstance(v, SV) and v.t.sort() == z3.StringSort())

    def ev_Attribute(self, node, env):
        obj = self.ev(node.value, env)
        return self.getattr_(obj, node.attr)

    def ev_Subscript(self, node, env):
        obj = self.ev(node.value, env)
        if isinstance(node.slice, ast.Slice):
            lo = self.ev(node.slice.lower, env) if node.slice.lower else None
            hi = self.ev(node.slice.upper, env) if node.slice.upper else None
            st = self.ev(node.slice.step, env) if node.slice.step else None
            return self.getslice(obj, lo, hi, st)
        idx = self.ev(node.slice, env)
        return self.getitem(obj, idx)

    def ev_Call(self, node, env):
        fn = self.ev(node.func, env)
        args = []
        for a in node.args:
            if isinstance(a, ast.Starred):
                args.extend(self.iterate(self.ev(a.value, env)))
            else:
                args.append(self.ev(a, env))
        kwargs = {}
        for kw in node.keywords:
            v = self.ev(kw.value, env)
            if kw.arg is None:
                if isinstance(v, dict):
                    for k, x in v.items():
                        if not isinstance(k, str) and not type(k).__name__ == "SymKey":
                            raise exc("TypeError", "keywords must be strings")
                        if k in kwargs:
                            raise exc("TypeError", f"multiple values for keyword argument '{k}'")
                        kwargs[k] = x
                else:
                    raise OutOfReach("** of a symbolic map in a call")
            else:
                kwargs[kw.arg] = v
        return self.call(fn, args, kwargs, node=node)

    def ev_Await(self, node, env):
        v = self.ev(node.value, env)
        return self.await_(v)

    def await_(self, v):
        if self.on_await is not None:
            self.on_await(self, v)
        if isinstance(v, Coro):
            if v.started:
                raise exc("RuntimeError", "cannot reuse already awaited coroutine")
            v.started = True
            return v.thunk()
        if isinstance(v, Rec) and "__await__" in v._fields:
            return self.call(v._fields["__await__"], [], {})
        if isinstance(v, SV):
            hook = self.method_tables.get((v.t.sort().name(), "__await__"))
            if hook:
                return hook(self, v)
        raise OutOfReach(f"await on {type(v).__name__}")

    def ev_Lambda(self, node, env):
        return FuncVal(node, env, "<lambda>", is_async=False)

    def ev_NamedExpr(self, node, env):
        v = self.ev(node.value, env)
        self.assign(node.target, v, env)
        return v

    def ev_ListComp(self, node, env):
        out = []
        self._comp(node.generators, 0, Env(env), lambda e: out.append(self.ev(node.elt, e)))
        return out

    def ev_SetComp(self, node, env):
        out = []
        self._comp(node.generators, 0, Env(env), lambda e: out.append(self.ev(node.elt, e)))
        return SymPySet(out)

    def ev_GeneratorExp(self, node, env):
        out = []
        self._comp(node.generators, 0, Env(env), lambda e: out.append(self.ev(node.elt, e)))
        return out

    def ev_DictComp(self, node, env):
        out = {}

        def put(e):
            k = self.ev(node.key, e)
            out[self.hashable(k)] = self.ev(node.value, e)

        self._comp(node.generators, 0, Env(env), put)
        return out

    def _comp(self, gens, i, env, emit):
        if i == len(gens):
            emit(env)
            return
        g = gens[i]
        for item in self.iterate(self.ev(g.iter, env)):
            self.assign(g.target, item, env)
            if all(self.branch_truth(self.ev(c, env), "compif") for c in g.ifs):
                self._comp(gens, i + 1, env, emit)

    def ev_Starred(self, node, env):
        raise OutOfReach("starred outside call/display")


class Unbound:
    pass


class NamePrefix:
    """The string f"{name}." (a dotted name followed by a dot), used as a prefix in startswith()."""

    def __init__(self, t):
        self.t = t


class SymPySet(list):
    """A Python set with a concrete number of (possibly symbolic) elements; iteration order is chosen
    nondeterministically by the engine (all permutations are explored)."""
    pyname = "set"


def name_append(t, p):
    f = z3.Function("name_append", NameS, PartS, NameS)
    return f(t, p)


def name_append_axioms(t):
    base, p = t.arg(0), t.arg(1)
    i = z3.Int("i!na")
    return [nparts(t) == nparts(base) + 1, part(t, nparts(base)) == p, nparts(base) >= 1,
            # parts below are shared (instantiated for indices 0..3, enough for the 4-part names in the code)
            ] + [z3.Implies(nparts(base) > k, part(t, k) == part(base, k)) for k in range(4)]


import operator  # noqa: E402

_CONCRETE_BINOPS = {
    ast.Add: operator.add, ast.Sub: operator.sub, ast.Mult: operator.mul, ast.Div: operator.truediv,
    ast.FloorDiv: operator.floordiv, ast.Mod: operator.mod, ast.Pow: operator.pow, ast.BitOr: operator.or_,
    ast.BitAnd: operator.and_, ast.BitXor: operator.xor, ast.LShift: operator.lshift, ast.RShift: operator.rshift,
}

DEFAULT_BUILTINS = {}

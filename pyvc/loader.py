"""Extraction (DESIGN 2.2): parse the CURRENT working-tree source of a /repo file, build class/function
values from the real AST and locate units by qualified name.  Nothing is translated or copied by hand.

Dropped by extraction: @classmethod/@staticmethod decorators (recorded as the function kind), annotations,
docstrings.  Module-level imports are bound to harness-provided stubs, or to `Missing` (use => out of reach).
"""
from __future__ import annotations

import ast
import os

from .core import OutOfReach, sha_ast
from .interp import Env, FuncVal, Missing
from .values import ClassRec, Store

REPO = os.environ.get("PYVC_REPO", "/repo")
PKG = "custom_components/pyscript"

_PARSE_CACHE = {}


def parse_file(relpath):
    path = os.path.join(REPO, relpath)
    st = os.stat(path)
    key = (path, st.st_mtime_ns, st.st_size)
    if key not in _PARSE_CACHE:
        with open(path, encoding="utf-8") as f:
            src = f.read()
        _PARSE_CACHE[key] = (ast.parse(src, filename=path), src)
    return _PARSE_CACHE[key]


def find_def(tree, qualname):
    """Locate a (possibly nested) def/class by dotted qualified name."""
    parts = qualname.split(".")
    body = tree.body
    node = None
    for p in parts:
        found = None
        for n in _walk_defs(body):
            if isinstance(n, (ast.FunctionDef, ast.AsyncFunctionDef, ast.ClassDef)) and n.name == p:
                found = n
                break
        if found is None:
            raise OutOfReach(f"unit {qualname}: '{p}' not found")
        node = found
        body = found.body
    return node


def _walk_defs(body):
    """defs directly in body, or nested in if/try/with blocks of that body (not inside other defs)."""
    for n in body:
        if isinstance(n, (ast.FunctionDef, ast.AsyncFunctionDef, ast.ClassDef)):
            yield n
        elif isinstance(n, (ast.If, ast.Try, ast.With, ast.For, ast.While)):
            for fld in ("body", "orelse", "finalbody"):
                yield from _walk_defs(getattr(n, fld, []))
            for h in getattr(n, "handlers", []):
                yield from _walk_defs(h.body)


def unit_info(relpath, qualname):
    tree, _ = parse_file(relpath)
    node = find_def(tree, qualname)
    return {"qualname": qualname, "file": relpath, "lines": [node.lineno, node.end_lineno],
            "sha256": sha_ast(node)}


class Module:
    """A loaded repo module: env with ClassRec / FuncVal values built from the real AST."""

    def __init__(self, interp, relpath, stubs=None, class_state=None, eval_assigns=True):
        self.interp = interp
        self.relpath = relpath
        self.tree, self.src = parse_file(relpath)
        self.env = Env(None)
        self.units = {}
        stubs = stubs or {}
        class_state = class_state or {}
        self.env.vars.update(stubs)  # visible while class bodies / bases are evaluated
        for n in self.tree.body:
            if isinstance(n, (ast.FunctionDef, ast.AsyncFunctionDef, ast.ClassDef)) and n.name in stubs:
                continue
            if isinstance(n, (ast.Import, ast.ImportFrom)):
                for a in n.names:
                    name = a.asname or a.name.split(".")[0]
                    self.env.vars[name] = stubs.get(name, Missing(name))
            elif isinstance(n, (ast.FunctionDef, ast.AsyncFunctionDef)):
                self.env.vars[n.name] = interp.make_func(n, self.env, n.name, module=self) \
                    if not n.decorator_list else self._decorated(n, n.name, stubs)
            elif isinstance(n, ast.ClassDef):
                self.env.vars[n.name] = self.load_class(n, n.name, class_state.get(n.name, {}), stubs)
            elif isinstance(n, (ast.Assign, ast.AnnAssign)) and eval_assigns:
                targets = n.targets if isinstance(n, ast.Assign) else [n.target]
                if len(targets) == 1 and isinstance(targets[0], ast.Name):
                    nm = targets[0].id
                    if nm in stubs:
                        self.env.vars[nm] = stubs[nm]
                    elif n.value is not None:
                        try:
                            self.env.vars[nm] = interp.ev(n.value, self.env)
                        except KeyboardInterrupt:
                            raise
                        except BaseException as e:  # noqa  (incl. Raised / OutOfReach: name is unmodelled)
                            self.env.vars[nm] = Missing(nm)
        for k, v in stubs.items():
            self.env.vars[k] = v  # explicit stubs always win (assumed contracts / class overrides)

    def _decorated(self, n, qual, stubs):
        fv = FuncVal(n, self.env, qual, module=self, is_async=isinstance(n, ast.AsyncFunctionDef))
        fv.defaults = [self.interp.ev(d, self.env) for d in n.args.defaults]
        fv.kw_defaults = [self.interp.ev(d, self.env) if d is not None else None for d in n.args.kw_defaults]
        return fv

    def load_class(self, node, qual, state, stubs):
        bases = []
        for b in node.bases:
            try:
                bases.append(self.interp.ev(b, self.env))
            except BaseException:  # noqa
                bases.append(Missing(ast.unparse(b)))
        cls = ClassRec(node.name, [b for b in bases if isinstance(b, ClassRec) or hasattr(b, "mro_names")], module=self)
        cenv = Env(self.env)
        ann_fields = []
        cls.ann_fields = ann_fields
        for n in node.body:
            if isinstance(n, (ast.FunctionDef, ast.AsyncFunctionDef)):
                kind = "function"
                for d in n.decorator_list:
                    if isinstance(d, ast.Name) and d.id in ("classmethod", "staticmethod"):
                        kind = d.id
                fv = FuncVal(n, self.env, f"{qual}.{n.name}", module=self,
                             is_async=isinstance(n, ast.AsyncFunctionDef), kind=kind, owner=cls)
                try:
                    fv.defaults = [self.interp.ev(d, cenv) for d in n.args.defaults]
                    fv.kw_defaults = [self.interp.ev(d, cenv) if d is not None else None for d in n.args.kw_defaults]
                except BaseException:  # noqa
                    fv.defaults = [Missing("default")] * len(n.args.defaults)
                    fv.kw_defaults = [Missing("default")] * len(n.args.kw_defaults)
                cls.attrs[n.name] = fv
            elif isinstance(n, (ast.Assign, ast.AnnAssign)):
                targets = n.targets if isinstance(n, ast.Assign) else [n.target]
                if len(targets) == 1 and isinstance(targets[0], ast.Name):
                    nm = targets[0].id
                    if isinstance(n, ast.AnnAssign):
                        ann_fields.append((nm, n.value))
                    if nm in state:
                        continue
                    if n.value is None:
                        continue
                    try:
                        cls.attrs[nm] = self.interp.ev(n.value, cenv)
                        cenv.vars[nm] = cls.attrs[nm]
                    except BaseException:  # noqa
                        cls.attrs[nm] = Missing(f"{qual}.{nm}")
            elif isinstance(n, ast.ClassDef):
                cls.attrs[n.name] = self.load_class(n, f"{qual}.{n.name}", {}, stubs)
        for k, v in state.items():
            cls.attrs[k] = v
        is_dc = any((isinstance(d, ast.Name) and d.id == "dataclass") or
                    (isinstance(d, ast.Call) and isinstance(d.func, ast.Name) and d.func.id == "dataclass")
                    for d in node.decorator_list)
        if is_dc and "__init__" not in cls.attrs:
            cls.attrs["__init__"] = self._dataclass_init(cls, ann_fields, cenv)
        return cls

    def _dataclass_init(self, cls, ann_fields, cenv):
        """__init__ synthesised the way dataclasses does (positional fields, kw_only fields, defaults,
        default_factory); extraction note: only `default`, `default_factory`, `kw_only` of field() are modelled."""
        interp = self.interp
        specs = []
        for name, vnode in ann_fields:
            spec = {"name": name, "required": vnode is None, "kw_only": False, "default": None, "factory": None}
            if vnode is not None:
                if isinstance(vnode, ast.Call) and isinstance(vnode.func, ast.Name) and vnode.func.id == "field":
                    for kw in vnode.keywords:
                        if kw.arg == "default":
                            spec["default"] = interp.ev(kw.value, cenv)
                        elif kw.arg == "default_factory":
                            spec["factory"] = interp.ev(kw.value, cenv)
                        elif kw.arg == "kw_only":
                            spec["kw_only"] = interp.ev(kw.value, cenv)
                    spec["required"] = not any(kw.arg in ("default", "default_factory") for kw in vnode.keywords)
                else:
                    spec["default"] = interp.ev(vnode, cenv)
            specs.append(spec)

        def init(i, self_, *args, **kwargs):
            from .interp import exc
            pos = [s for s in specs if not s["kw_only"]]
            if len(args) > len(pos):
                raise exc("TypeError", "too many positional arguments")
            given = {}
            for s_, a in zip(pos, args):
                given[s_["name"]] = a
            for k, v in kwargs.items():
                if k in given or k not in [s_["name"] for s_ in specs]:
                    raise exc("TypeError", f"unexpected argument {k}")
                given[k] = v
            for s_ in specs:
                if s_["name"] in given:
                    val = given[s_["name"]]
                elif s_["factory"] is not None:
                    val = i.call(s_["factory"], [], {})
                elif not s_["required"]:
                    val = s_["default"]
                else:
                    raise exc("TypeError", f"missing argument {s_['name']}")
                i.setattr_(self_, s_["name"], val)
        init._is_method = True
        return init

    def func(self, qualname):
        """FuncVal for a top-level or Class.method qualified name."""
        parts = qualname.split(".")
        v = self.env.vars[parts[0]]
        for p in parts[1:]:
            v = v.attrs[p]
        return v


def number_loops(fn_node):
    """Give every for/while in a function a stable ordinal (document order): node._ordinal = 'for0', 'while1'."""
    counts = {"for": 0, "while": 0}
    nodes = [n for n in ast.walk(fn_node) if isinstance(n, (ast.For, ast.AsyncFor, ast.While))]
    for n in sorted(nodes, key=lambda n: (n.lineno, n.col_offset)):
        if isinstance(n, (ast.For, ast.AsyncFor)):
            n._ordinal = f"for{counts['for']}"
            counts["for"] += 1
        elif isinstance(n, ast.While):
            n._ordinal = f"while{counts['while']}"
            counts["while"] += 1

"""Harness registry, parallel runner, verdict policy, known findings, ledger, evidence (DESIGN 3)."""
from __future__ import annotations

import hashlib
import importlib
import json
import multiprocessing as mp
import os
import sys
import time
import traceback

from .core import Engine, EngineAbort, OutOfReach, PathInfeasible
from .interp import PathEnd, Raised
from . import loader

VERIF = os.path.dirname(os.path.dirname(os.path.abspath(__file__)))


class Harness:
    """One verification job: explores all paths of fn(eng) and states obligations.

    name      stable, human readable: '<unit>/<aspect>[<shape>]'
    units     list of (file, qualname) the job interprets (for the evidence)
    fn        callable(eng)
    replay    optional callable(witness_json) -> dict(reproduced=bool, ...) run natively against /repo
    kind      'contract' (obligations discharged by SMT) | 'bounded' (stand-in; never counted as proved)
    """

    def __init__(self, name, fn, units=(), replay=None, kind="contract", max_paths=4000, tier="quick",
                 bounded_info=None, forced=None):
        self.forced = forced or {}
        self.name = name
        self.fn = fn
        self.units = list(units)
        self.replay = replay
        self.kind = kind
        self.max_paths = max_paths
        self.tier = tier
        self.bounded_info = bounded_info


def _run_one(args):
    modname, hname, seed = args
    t0 = time.time()
    res = {"harness": hname, "obligations": [], "covers": {}, "paths": 0, "solver_time": 0.0, "queries": 0,
           "error": None, "kind": "contract", "wall": 0.0, "bounded": None, "notes": []}
    try:
        mod = importlib.import_module(modname)
        h = {x.name: x for x in mod.harnesses()}[hname]
        res["kind"] = h.kind
        if h.kind == "bounded":
            out = h.fn(seed)
            res["bounded"] = out
            res["wall"] = time.time() - t0
            return res
        eng = Engine(hname, max_paths=h.max_paths)
        eng.forced_template = h.forced
        if os.environ.get("VERIF_TIER") == "thorough" or os.environ.get("PYVC_TIER") == "thorough":
            eng.wall_budget *= 6
            eng.max_steps *= 6

        def wrapped(e):
            try:
                h.fn(e)
            except PathEnd:
                pass

        eng.explore(wrapped)
        res["paths"] = eng.paths
        res["covers"] = eng.covers
        res["solver_time"] = eng.solver_time
        res["queries"] = eng.queries
        res["notes"] = eng.notes
        for ob in eng.obligations:
            j = ob.to_json()
            j["witness"] = getattr(ob, "witness", None)
            res["obligations"].append(j)
    except OutOfReach as e:
        res["error"] = {"type": "out_of_reach", "msg": str(e)}
    except Raised as e:
        res["error"] = {"type": "harness_uncaught_exception", "msg": repr(e.exc)}
    except Exception as e:  # noqa
        res["error"] = {"type": "engine_error", "msg": f"{type(e).__name__}: {e}", "tb": traceback.format_exc()[-3000:]}
    res["wall"] = time.time() - t0
    return res


def load_known_findings():
    p = os.path.join(VERIF, "known_findings.json")
    if not os.path.exists(p):
        return []
    with open(p) as f:
        return json.load(f).get("findings", [])


def load_ledger():
    p = os.path.join(VERIF, "baseline", "obligations.json")
    if not os.path.exists(p):
        return {}
    with open(p) as f:
        return json.load(f)


def repo_tree_is_pristine(files):
    """True iff none of the given repo files differs from git HEAD (used only to word CHECKER-ERROR vs UNDECIDED)."""
    import subprocess
    try:
        r = subprocess.run(["git", "-C", loader.REPO, "status", "--porcelain", "--"] + list(files),
                           capture_output=True, text=True, timeout=20)
        return r.stdout.strip() == ""
    except Exception:  # noqa
        return True


def run_property(prop_id, tier="quick", seed=0, jobs=None, only=None, write_evidence=True, quiet=False):
    """Run every harness of contracts/<prop_id>.py; apply the verdict policy; write evidence. Returns exit code."""
    t0 = time.time()
    modname = f"contracts.{prop_id}"
    mod = importlib.import_module(modname)
    hs = [h for h in mod.harnesses() if tier == "thorough" or h.tier == "quick"]
    if only:
        hs = [h for h in hs if only in h.name]
    os.environ["PYVC_TIER"] = tier
    jobs = jobs or min(16, max(1, len(hs)))
    work = [(modname, h.name, seed) for h in hs]
    results = []
    if jobs == 1 or len(work) == 1:
        results = [_run_one(w) for w in work]
    else:
        ctx = mp.get_context("fork")
        budget = HARNESS_TIMEOUT_S * (4 if tier == "thorough" else 1)
        with ctx.Pool(jobs) as pool:
            pend = [(w, pool.apply_async(_run_one, (w,))) for w in work]
            deadline = time.time() + budget
            for w, ar in pend:
                try:
                    results.append(ar.get(timeout=max(1.0, deadline - time.time())))
                except mp.TimeoutError:
                    results.append({"harness": w[1], "obligations": [], "covers": {}, "paths": 0, "solver_time": 0.0,
                                    "queries": 0, "kind": "contract", "wall": budget, "bounded": None, "notes": [],
                                    "error": {"type": "timeout", "msg": f"no verdict within {budget}s (undecided)"}})
            pool.terminate()
    hmap = {h.name: h for h in hs}
    known = [k for k in load_known_findings() if k.get("property") == prop_id and k.get("status", "open") == "open"]
    ledger = load_ledger().get(prop_id, {})

    # aggregate obligations by name
    groups = {}
    errors = []
    bounded = []
    covers_bad = []
    total_paths = 0
    solver_time = 0.0
    by_backend = {}
    for r in results:
        total_paths += r["paths"]
        solver_time += r["solver_time"]
        if r["error"]:
            errors.append((r["harness"], r["error"]))
            continue
        if r["kind"] == "bounded":
            bounded.append((r["harness"], r["bounded"]))
            continue
        if not r["obligations"]:
            errors.append((r["harness"], {"type": "zero_obligations", "msg": "harness produced no obligations"}))
        for c, ok in r["covers"].items():
            if not ok:
                covers_bad.append(f"{r['harness']}:{c}")
        if not any(r["covers"].values()):
            errors.append((r["harness"], {"type": "vacuous", "msg": "no cover point reached on a satisfiable path"}))
        for ob in r["obligations"]:
            g = groups.setdefault(ob["name"], {"name": ob["name"], "harness": r["harness"], "n": 0, "discharged": 0,
                                               "refuted": [], "undecided": [], "kind": ob["kind"], "nonvacuous": 0})
            g["n"] += 1
            by_backend[ob["backend"]] = by_backend.get(ob["backend"], 0) + 1
            if ob["status"] == "discharged":
                g["discharged"] += 1
                if not ob.get("vacuous"):
                    g["nonvacuous"] += 1
            elif ob["status"] == "refuted":
                g["refuted"].append(ob)
            else:
                g["undecided"].append(ob)

    violations = []
    known_lines = []
    undecided = []
    canaries = {"expected_refutable": 0, "refuted": 0}
    replay_dir = os.path.join(VERIF, "replays", prop_id)
    matched_known = set()
    n_oblig = 0
    n_disch = 0
    known_obligations = []
    samples = []
    # native replays of refuted obligations run concurrently (each is a subprocess)
    replay_jobs = {}
    for name, g in groups.items():
        if g["kind"] == "canary" or not g["refuted"]:
            continue
        h = hmap[g["harness"]]
        seen = set()
        for ob in g["refuted"]:
            w = ob.get("witness") or {}
            sig = w.get("signature", "")
            if (name, sig) in seen or len(seen) >= MAX_REPLAYS_PER_OBLIGATION:
                continue
            seen.add((name, sig))
            if h.replay is not None and w:
                replay_jobs[(name, sig)] = (h.replay, w)
    replay_results = {}
    if replay_jobs:
        from concurrent.futures import ThreadPoolExecutor

        def _do(item):
            key, (fn, w) = item
            try:
                return key, fn(w)
            except Exception as e:  # noqa
                return key, {"reproduced": False, "error": f"{type(e).__name__}: {e}", "tb": traceback.format_exc()[-2000:]}
        with ThreadPoolExecutor(max_workers=16) as ex:
            for key, r in ex.map(_do, replay_jobs.items()):
                replay_results[key] = r

    for name, g in sorted(groups.items()):
        if g["kind"] == "canary":
            canaries["expected_refutable"] += 1
            if g["refuted"]:
                canaries["refuted"] += 1
            else:
                errors.append((g["harness"], {"type": "canary_not_refuted",
                                              "msg": f"{name}: negated postcondition is not refutable (vacuous contract)"}))
            continue
        if len(samples) < 12:
            samples.append({"obligation": name, "paths": g["n"], "status": "discharged" if g["discharged"] == g["n"] else "see below"})
        if g["undecided"]:
            undecided.append((name, g["undecided"][0].get("detail")))
        if not g["refuted"]:
            n_oblig += g["n"]
            n_disch += g["discharged"]
            if g["discharged"] and not g["nonvacuous"] and g["kind"] != "canary":
                errors.append((g["harness"], {"type": "vacuous_obligation",
                                              "msg": f"{name}: discharged only on paths whose condition is unsatisfiable"}))
            continue
        # refuted: replay each distinct witness signature
        h = hmap[g["harness"]]
        seen_sig = set()
        group_is_known_only = True
        for ob in g["refuted"]:
            w = ob.get("witness") or {}
            sig = w.get("signature", "")
            if (name, sig) in seen_sig:
                continue
            if len(seen_sig) >= MAX_REPLAYS_PER_OBLIGATION:
                break
            seen_sig.add((name, sig))
            rep = replay_results.get((name, sig))
            k = match_known(known, name, sig)
            os.makedirs(replay_dir, exist_ok=True)
            fn = os.path.join(replay_dir, _safe(name) + ("-" + _safe(sig)[:60] if sig else "") + ".json")
            payload = {"property": prop_id, "obligation": name, "harness": g["harness"], "path": ob["path"],
                       "units": [loader.unit_info(f, q) for f, q in h.units], "backend": ob["backend"],
                       "verdict": "sat", "model": ob.get("model"), "witness": w, "native": rep,
                       "detail": ob.get("detail")}
            with open(fn, "w") as f:
                json.dump(payload, f, indent=1, default=str)
            if rep is not None and rep.get("reproduced"):
                if k is not None:
                    matched_known.add(k["id"])
                    known_lines.append(f"KNOWN-FINDING: property={prop_id} {k['what']}")
                else:
                    group_is_known_only = False
                    violations.append(f"VIOLATION property={prop_id} replay={fn}")
            else:
                group_is_known_only = False
                if name in ledger.get("discharged", []):
                    violations.append(f"VIOLATION property={prop_id} replay={fn} no-failing-input-found")
                else:
                    undecided.append((name, "refuted by the solver but not replayable and not in the ledger"))
        if group_is_known_only:
            known_obligations.append(name)

    # ---- bounded stand-ins
    bounded_out = []
    for hname, b in bounded:
        b = b or {}
        if b.get("error") or not b.get("cases"):
            # a stand-in that did not run (scenario crashed / explored nothing) must not look like a pass
            errors.append((hname, {"type": "bounded_standin_did_not_run", "msg": str(b.get("error") or "explored zero cases")[-1500:]}))
        bounded_out.append({"unit": hname, **{k: v for k, v in b.items() if k != "failures"}})
        for fail in b.get("failures", []):
            k = match_known(known, hname, fail.get("signature", ""))
            os.makedirs(replay_dir, exist_ok=True)
            fn = os.path.join(replay_dir, _safe(hname) + "-" + _safe(fail.get("signature", "x"))[:60] + ".json")
            with open(fn, "w") as f:
                json.dump({"property": prop_id, "obligation": hname, "bounded": True, "witness": fail,
                           "native": {"reproduced": True}}, f, indent=1, default=str)
            if k is not None:
                matched_known.add(k["id"])
                known_lines.append(f"KNOWN-FINDING: property={prop_id} {k['what']}")
            else:
                violations.append(f"VIOLATION property={prop_id} replay={fn}")

    # a known finding that no longer shows is only noted (fixed entries suppress nothing anyway)
    stale = [k["id"] for k in known if k["id"] not in matched_known]

    pristine = True
    if errors:
        files = sorted({f for h in hs for f, _ in h.units})
        pristine = repo_tree_is_pristine(files)

    wall = time.time() - t0
    if violations:
        code = 1
    elif errors:
        only_timeouts = all(e["type"] == "timeout" for _, e in errors)
        code = 2 if (only_timeouts or not pristine) else 3
    elif undecided:
        code = 2
    else:
        code = 0

    out_lines = []
    for l in sorted(set(known_lines)):
        out_lines.append(l)
    for v in violations:
        out_lines.append(v)
    for hname, e in errors:
        word = "CHECKER-ERROR" if pristine else "UNDECIDED"
        out_lines.append(f"{word} property={prop_id} harness={hname} {e['type']}: {e['msg']}")
        if e.get("tb") and not quiet:
            out_lines.append(e["tb"])
    for name, why in undecided:
        out_lines.append(f"UNDECIDED property={prop_id} obligation={name} {why}")
    summary = (f"{prop_id} tier={tier}: harnesses={len(hs)} paths={total_paths} obligations={n_oblig} "
               f"discharged={n_disch} known-finding-obligations={len(known_obligations)} "
               f"undecided={len(undecided)} errors={len(errors)} violations={len(violations)} "
               f"solver={solver_time:.1f}s wall={wall:.1f}s exit={code}")
    out_lines.append(summary)
    if not quiet:
        print("\n".join(out_lines))

    if write_evidence:
        units = {}
        for h in hs:
            for f, q in h.units:
                try:
                    units[(f, q)] = loader.unit_info(f, q)
                except BaseException as e:  # noqa
                    units[(f, q)] = {"qualname": q, "file": f, "error": str(e)}
        explo = {}
        if bounded_out:
            # what the bounded stand-ins explored (required keys for an exploration-level claim; informative otherwise)
            explo = {"evaluations": sum(int(b.get("cases") or 0) for b in bounded_out),
                     "distinct_nontrivial": sum(int(b.get("distinct_nontrivial") or 0) for b in bounded_out),
                     "rule": getattr(mod, "EXPLORATION_RULE", "bounded stand-ins: see bounded_standins[*].method / bound; distinct_nontrivial is counted only by "
                                                             "stand-ins that report it (0 otherwise: not measured)")}
        ev = {
            "property_id": prop_id, "tier": tier, "seed": int(seed), "level": getattr(mod, "LEVEL_CATEGORY", "proof"),
            "coverage": {
                **explo,
                "obligations": max(n_oblig, 0), "discharged": n_disch,
                "checker_cmd": f"./check {prop_id} --tier {tier}",
                "trusted_base": getattr(mod, "TRUSTED_BASE", []) + DEFAULT_TRUSTED,
                "obligation_groups": len(groups), "paths": total_paths,
                "by_backend": by_backend, "solver_time_s": round(solver_time, 3),
                "functions_under_contract": list(units.values()),
                "known_finding_obligations": known_obligations,
                "undecided": [n for n, _ in undecided],
                "bounded_standins": bounded_out,
                "canaries": canaries,
                "stale_known_findings": stale,
                "shape_bounds": getattr(mod, "SHAPE_BOUNDS", {}),
                "not_decided_clauses": getattr(mod, "NOT_DECIDED", []),
                "samples": samples + [{"bounded_standin": b.get("unit"), "case": c} for b in bounded_out for c in (b.get("samples") or [])[:3]],
                "harnesses": [{"name": r["harness"], "paths": r["paths"], "obligations": len(r["obligations"]),
                               "wall_s": round(r["wall"], 2), "error": r["error"]} for r in results],
            },
            "assumptions": getattr(mod, "ASSUMPTIONS", []),
            "wall_s": round(wall, 2),
            "violations": len(violations),
        }
        os.makedirs(os.path.join(VERIF, "evidence"), exist_ok=True)
        with open(os.path.join(VERIF, "evidence", f"{prop_id}.json"), "w") as f:
            json.dump(ev, f, indent=1, default=str)
    return code, {"groups": groups, "errors": errors, "violations": violations, "undecided": undecided,
                  "known_lines": known_lines, "summary": summary, "results": results}


MAX_REPLAYS_PER_OBLIGATION = 3
HARNESS_TIMEOUT_S = 3600   # last-resort wall-clock guard per check (the real budget is CPU time per harness)

DEFAULT_TRUSTED = [
    "CPython ast parser (the verified text is the ast of the working-tree file, re-read on every run)",
    "pyvc symbolic interpreter and VC generator (/verif/pyvc): Python semantics of the stated subset",
    "z3 5.1 (primary back end), cvc5 1.0.3 (second opinion on z3 unknowns, sequence obligations)",
    "assumed contracts of external functions listed under assumptions",
]


def match_known(known, name, sig):
    for k in known:
        if name.startswith(k["obligation"]) and (not k.get("signature") or k["signature"] == sig):
            return k
    return None


def _safe(s):
    return "".join(c if c.isalnum() or c in "._-" else "_" for c in s)[:150]

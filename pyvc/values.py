"""Symbolic values of the DATA domain: scalars, optional scalars, dotted names, and typed symbolic stores
(maps / sets / structs, arbitrarily nested) kept as columns of nested z3 arrays.

A store is mutated in place along one path (paths are re-executed from scratch), so aliasing of the
*root* containers is exact.  Inner containers are reached only through views (root + key path), i.e. the
encoding assumes inner dict/set values are not shared between two keys (true for every table modelled:
each inner container is created fresh by the code under contract; stated as assumption A-NOALIAS).
"""
from __future__ import annotations

import z3

from .core import OutOfReach

_SORTS = {}


def USort(name):
    if name not in _SORTS:
        _SORTS[name] = z3.DeclareSort(name)
    return _SORTS[name]


class SV:
    """Symbolic scalar.  `none` (a z3 Bool or None) marks an Optional: when it is true the value is None."""
    __slots__ = ("t", "none", "pytype", "origin")

    def __init__(self, t, none=None, pytype=None, origin=None):
        self.t = t
        self.none = none
        self.pytype = pytype
        self.origin = origin  # (store name, key path) when read out of a symbolic store  # optional tag used by isinstance()/type() (a string such as 'Context', 'bool')

    def __repr__(self):
        return f"SV({self.t}{' ?' + str(self.none) if self.none is not None else ''})"

    def sort(self):
        return self.t.sort()


class PyTypeTok:
    """Token standing for a Python class in isinstance/except/type() comparisons."""

    def __init__(self, name, bases=()):
        self.name = name
        self.bases = tuple(bases)

    def __repr__(self):
        return f"<type {self.name}>"

    def mro_names(self):
        out = [self.name]
        for b in self.bases:
            out.extend(b.mro_names())
        return out


# --------------------------------------------------------------------------------------------------------
# dotted names  (assumption A-NAME is *not* needed: every string is a unique sequence of dot-free parts)
# --------------------------------------------------------------------------------------------------------
NameS = USort("Name")
PartS = USort("Part")
nparts = z3.Function("nparts", NameS, z3.IntSort())
part = z3.Function("part", NameS, z3.IntSort(), PartS)
_joins = {}


def join_fn(n):
    if n not in _joins:
        _joins[n] = z3.Function(f"join{n}", *([PartS] * n), NameS)
    return _joins[n]


def name_axioms_for(term):
    """Ground axioms for one Name term: arity >= 1 and, for joinN(...) terms, arity and parts."""
    ax = [nparts(term) >= 1]
    if z3.is_app(term) and term.decl().name().startswith("join"):
        n = term.num_args()
        ax.append(nparts(term) == n)
        for i in range(n):
            ax.append(part(term, i) == term.arg(i))
    else:
        # extensionality: a name with k parts IS the join of its parts (k <= 4)
        for k in range(1, 5):
            j = join_fn(k)(*[part(term, i) for i in range(k)])
            ax.append(z3.Implies(nparts(term) == k, term == j))
            ax.append(nparts(j) == k)
            for i in range(k):
                ax.append(part(j, i) == part(term, i))
    return ax


def part_const(s):
    """The Part that denotes the concrete dot-free string s (distinct strings -> distinct parts: registered with
    the engine, which asserts pairwise distinctness)."""
    from .core import register_distinct
    c = z3.Const(f"part:{s}", PartS)
    register_distinct("Part", s, c)
    return c


class DName:
    """A Python str viewed as a dotted name: z3 term of sort Name."""
    __slots__ = ("t",)

    def __init__(self, t):
        self.t = t

    def __repr__(self):
        return f"DName({self.t})"


class PartV:
    """A dot-free string (one component of a dotted name)."""
    __slots__ = ("t",)

    def __init__(self, t):
        self.t = t

    def __repr__(self):
        return f"PartV({self.t})"


# --------------------------------------------------------------------------------------------------------
# types of symbolic stores
# --------------------------------------------------------------------------------------------------------
class T:
    pass


class TScalar(T):
    def __init__(self, sort, pytype=None):
        self.sort = sort
        self.pytype = pytype

    def columns(self):
        return {"v": self.sort}


class TOpt(T):
    """Optional scalar (None or value)."""

    def __init__(self, sort, pytype=None):
        self.sort = sort
        self.pytype = pytype

    def columns(self):
        return {"none": z3.BoolSort(), "v": self.sort}


class TSet(T):
    def __init__(self, elem):
        self.elem = elem

    def columns(self):
        return {"in": z3.ArraySort(self.elem, z3.BoolSort())}


class TMap(T):
    def __init__(self, key, val: T):
        self.key = key
        self.val = val

    def columns(self):
        cols = {"dom": z3.ArraySort(self.key, z3.BoolSort())}
        for c, s in self.val.columns().items():
            cols["." + c] = z3.ArraySort(self.key, s)
        return cols


class TStruct(T):
    """dict with a fixed set of concrete string keys, each optionally present."""

    def __init__(self, fields: dict):
        self.fields = fields

    def columns(self):
        cols = {}
        for f, t in self.fields.items():
            cols[f"{f}?"] = z3.BoolSort()
            for c, s in t.columns().items():
                cols[f"{f}:{c}"] = s
        return cols


class Store:
    """Root symbolic container: named columns -> current z3 term."""

    def __init__(self, eng, name, typ: T, init=None):
        self.eng = eng
        self.name = name
        self.typ = typ
        self.cols = {}
        for c, s in typ.columns().items():
            self.cols[c] = z3.Const(f"{name}#{c}", s) if init is None else init[c]
        self.writes = 0

    def snapshot(self):
        return dict(self.cols)

    def restore(self, snap):
        self.cols = dict(snap)

    def havoc(self, tag="h"):
        for c, s in self.typ.columns().items():
            self.cols[c] = self.eng.fresh(f"{self.name}#{c}~{tag}", s)

    def view(self):
        return make_view(self, self.typ, "", [])


def _nested_select(term, keys):
    for k in keys:
        term = z3.Select(term, k)
    return term


def _nested_store(term, keys, value):
    if not keys:
        return value
    k = keys[0]
    return z3.Store(term, k, _nested_store(z3.Select(term, k), keys[1:], value))


class View:
    """A location inside a store: column prefix + key path."""

    def __init__(self, store, typ, prefix, keys):
        self.store = store
        self.typ = typ
        self.prefix = prefix
        self.keys = list(keys)

    def col(self, c):
        return _nested_select(self.store.cols[self.prefix + c], self.keys)

    def setcol(self, c, value):
        full = self.prefix + c
        self.store.cols[full] = _nested_store(self.store.cols[full], self.keys, value)
        self.store.writes += 1


def make_view(store, typ, prefix, keys):
    if isinstance(typ, TMap):
        return MapView(store, typ, prefix, keys)
    if isinstance(typ, TSet):
        return SetView(store, typ, prefix, keys)
    if isinstance(typ, TStruct):
        return StructView(store, typ, prefix, keys)
    if isinstance(typ, TOpt):
        v = View(store, typ, prefix, keys)
        return SV(v.col("v"), none=v.col("none"), pytype=typ.pytype, origin=(store.name, list(keys)))
    if isinstance(typ, TScalar):
        v = View(store, typ, prefix, keys)
        return SV(v.col("v"), pytype=typ.pytype, origin=(store.name, list(keys)))
    raise OutOfReach(f"type {typ}")


def assign_into(store, typ, prefix, keys, value):
    """Write a Python-level value into the location (prefix, keys) of type typ."""
    v = View(store, typ, prefix, keys)
    if isinstance(typ, TScalar):
        if not isinstance(value, SV) or value.none is not None:
            value = coerce_scalar(value, typ.sort)
        v.setcol("v", value.t)
        return
    if isinstance(typ, TOpt):
        if value is None:
            v.setcol("none", z3.BoolVal(True))
            return
        value = coerce_scalar(value, typ.sort, allow_none=True)
        v.setcol("none", value.none if value.none is not None else z3.BoolVal(False))
        v.setcol("v", value.t)
        return
    if isinstance(typ, TSet):
        if isinstance(value, (set, frozenset, list, tuple)):
            arr = z3.K(typ.elem, z3.BoolVal(False))
            for e in value:
                arr = z3.Store(arr, coerce_scalar(e, typ.elem).t, z3.BoolVal(True))
            v.setcol("in", arr)
            return
        if isinstance(value, SetView):
            v.setcol("in", value.arr())
            return
        raise OutOfReach(f"assign {type(value).__name__} into set slot")
    if isinstance(typ, TMap):
        if isinstance(value, dict) and not value:
            v.setcol("dom", z3.K(typ.key, z3.BoolVal(False)))
            return
        if isinstance(value, dict):
            v.setcol("dom", z3.K(typ.key, z3.BoolVal(False)))
            mv = make_view(store, typ, prefix, keys)
            for k, x in value.items():
                mv.setitem(k, x)
            return
        if isinstance(value, MapView) and value.fresh_copy:
            for c in typ.columns():
                v.setcol(c, value.col(c))
            return
        raise OutOfReach(f"assign {type(value).__name__} into map slot")
    if isinstance(typ, TStruct):
        if isinstance(value, dict):
            for f, t in typ.fields.items():
                if f in value:
                    v.setcol(f"{f}?", z3.BoolVal(True))
                    assign_into(store, t, prefix + f"{f}:", keys, value[f])
                else:
                    v.setcol(f"{f}?", z3.BoolVal(False))
            extra = set(value) - set(typ.fields)
            if extra:
                raise OutOfReach(f"struct keys {extra}")
            return
        raise OutOfReach(f"assign {type(value).__name__} into struct slot")
    raise OutOfReach(f"assign into {typ}")


def coerce_scalar(value, sort, allow_none=False):
    """Python-level value -> SV of the given z3 sort."""
    if isinstance(value, SV):
        if value.t.sort() != sort:
            raise OutOfReach(f"sort mismatch {value.t.sort()} vs {sort}")
        if value.none is not None and not allow_none:
            raise OutOfReach("optional value used where a plain value is required (engine should fork first)")
        return value
    if isinstance(value, DName) and sort == NameS:
        return SV(value.t)
    if isinstance(value, PartV) and sort == PartS:
        return SV(value.t)
    if isinstance(value, bool) and sort == z3.BoolSort():
        return SV(z3.BoolVal(value))
    if isinstance(value, int) and not isinstance(value, bool) and sort == z3.IntSort():
        return SV(z3.IntVal(value))
    if isinstance(value, (int, float)) and not isinstance(value, bool) and sort == z3.RealSort():
        return SV(z3.RealVal(value))
    if isinstance(value, str) and sort == z3.StringSort():
        return SV(z3.StringVal(value))
    if isinstance(value, str) and sort == PartS and "." not in value:
        return SV(part_const(value))
    if isinstance(value, Opaque) and value.sort == sort:
        return SV(value.t)
    if hasattr(value, "t") and hasattr(value.t, "sort") and value.t.sort() == sort:
        return SV(value.t)
    if isinstance(value, str) and sort.kind() == z3.Z3_UNINTERPRETED_SORT and sort.name() not in ("Obj", "Name", "Part"):
        return SV(z3.Const(f"strconst:{value}", sort))
    if sort.name() == "Obj":
        return SV(obj_of(value))
    raise OutOfReach(f"cannot coerce {value!r} to {sort}")


_OBJ_REG = {}
_OBJ_BACK = {}


def obj_of(value):
    """Identity term (sort Obj) for an arbitrary Python-level object (closure, record, bound method)."""
    key = id(value)
    if key not in _OBJ_REG:
        t = z3.Const(f"pyobj#{len(_OBJ_REG)}", USort("Obj"))
        _OBJ_REG[key] = (value, t)
        _OBJ_BACK[t.get_id()] = value
    return _OBJ_REG[key][1]


def value_of_obj(term):
    r = _OBJ_BACK.get(term.get_id())
    if r is None:
        r = _OBJ_BACK.get(z3.simplify(term).get_id())
    return r


class Opaque:
    """A Python-level object that also has a z3 identity term (e.g. a record used as a map key)."""

    def __init__(self, t):
        self.t = t
        self.sort = t.sort()


class SetView(View):
    pyname = "set"

    def arr(self):
        return self.col("in")

    def contains(self, x):
        return z3.Select(self.arr(), coerce_scalar(x, self.typ.elem).t)

    def add(self, x):
        self.setcol("in", z3.Store(self.arr(), coerce_scalar(x, self.typ.elem).t, z3.BoolVal(True)))

    def discard(self, x):
        self.setcol("in", z3.Store(self.arr(), coerce_scalar(x, self.typ.elem).t, z3.BoolVal(False)))

    def is_empty(self):
        return self.arr() == z3.K(self.typ.elem, z3.BoolVal(False))

    def clear(self):
        self.setcol("in", z3.K(self.typ.elem, z3.BoolVal(False)))


class MapView(View):
    pyname = "dict"
    fresh_copy = False

    def dom(self):
        return self.col("dom")

    def has(self, k):
        return z3.Select(self.dom(), self.key(k))

    def key(self, k):
        if isinstance(k, str) and self.typ.key == NameS:
            # a concrete dotted name used as a key: the join of its parts (with the ground axioms of that term)
            parts = k.split(".")
            t = join_fn(len(parts))(*[part_const(p) for p in parts])
            eng = getattr(self.store, "eng", None)
            if eng is not None:
                for ax in name_axioms_for(t):
                    eng.assume(ax)
            return t
        return coerce_scalar(k, self.typ.key).t

    def getitem(self, k):
        """Value view at key k (caller has established membership)."""
        return make_view(self.store, self.typ.val, self.prefix + ".", self.keys + [self.key(k)])

    def setitem(self, k, value):
        kk = self.key(k)
        self.setcol("dom", z3.Store(self.dom(), kk, z3.BoolVal(True)))
        assign_into(self.store, self.typ.val, self.prefix + ".", self.keys + [kk], value)

    def delitem(self, k):
        kk = self.key(k)
        self.setcol("dom", z3.Store(self.dom(), kk, z3.BoolVal(False)))

    def is_empty(self):
        return self.dom() == z3.K(self.typ.key, z3.BoolVal(False))

    def clear(self):
        self.setcol("dom", z3.K(self.typ.key, z3.BoolVal(False)))


class StructView(View):
    pyname = "dict"

    def has(self, f):
        if not isinstance(f, str):
            raise OutOfReach("struct key must be a concrete string")
        if f not in self.typ.fields:
            return z3.BoolVal(False)
        return self.col(f"{f}?")

    def getitem(self, f):
        return make_view(self.store, self.typ.fields[f], self.prefix + f"{f}:", self.keys)

    def setitem(self, f, value):
        if f not in self.typ.fields:
            raise OutOfReach(f"struct has no field {f}")
        self.setcol(f"{f}?", z3.BoolVal(True))
        assign_into(self.store, self.typ.fields[f], self.prefix + f"{f}:", self.keys, value)


# --------------------------------------------------------------------------------------------------------
# Python-level records
# --------------------------------------------------------------------------------------------------------
class FieldsDict(dict):
    """the instance dictionary of a Rec (recognisable when handed out as obj.__dict__)"""


class Rec:
    """A mutable Python-level object: attribute dictionary (+ class for method lookup)."""

    def __init__(self, cls=None, fields=None, name="rec", ident=None):
        self.__dict__["_cls"] = cls
        self.__dict__["_fields"] = FieldsDict(fields or {})
        self.__dict__["_name"] = name
        self.__dict__["_ident"] = ident  # optional z3 term giving the object an SMT identity

    def __repr__(self):
        return f"<Rec {self._name}>"


class ClassRec:
    """A class object: attributes (class variables, FuncVal methods), bases."""

    def __init__(self, name, bases=(), attrs=None, module=None):
        self.name = name
        self.bases = list(bases)
        self.attrs = dict(attrs or {})
        self.module = module

    def lookup(self, attr):
        if attr in self.attrs:
            return self.attrs[attr], self
        for b in self.bases:
            if isinstance(b, ClassRec):
                r = b.lookup(attr)
                if r is not None:
                    return r
        return None

    def mro_names(self):
        out = [self.name]
        for b in self.bases:
            if isinstance(b, (ClassRec, PyTypeTok)):
                out.extend(b.mro_names())
        return out

    def __repr__(self):
        return f"<class {self.name}>"

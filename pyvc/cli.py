"""Command line: ./check <id> --tier quick|thorough ; ./check --replay <path>"""
import argparse
import json
import os
import sys

sys.path.insert(0, os.path.dirname(os.path.dirname(os.path.abspath(__file__))))
sys.setrecursionlimit(10000)


def main():
    ap = argparse.ArgumentParser()
    ap.add_argument("prop", nargs="?")
    ap.add_argument("--tier", default=os.environ.get("VERIF_TIER", "quick"))
    ap.add_argument("--only", default=None)
    ap.add_argument("--jobs", type=int, default=None)
    ap.add_argument("--replay", default=None)
    ap.add_argument("--no-evidence", action="store_true")
    a = ap.parse_args()
    if os.environ.get("VERIF_TIER"):
        a.tier = os.environ["VERIF_TIER"]
    seed = int(os.environ.get("VERIF_SEED", "0") or 0)
    from pyvc import framework
    if a.replay:
        with open(a.replay) as f:
            rp = json.load(f)
        import importlib
        mod = importlib.import_module(f"contracts.{rp['property']}")
        h = {x.name: x for x in mod.harnesses()}.get(rp["harness"])
        if h is None or h.replay is None:
            print(f"replay: obligation {rp['obligation']} has no native replay; solver output follows")
            print(json.dumps(rp.get("model"), indent=1))
            sys.exit(2)
        res = h.replay(rp["witness"])
        print(json.dumps(res, indent=1, default=str))
        sys.exit(1 if res.get("reproduced") else 0)
    if not a.prop:
        ap.error("property id required")
    code, _ = framework.run_property(a.prop, tier=a.tier, seed=seed, jobs=a.jobs, only=a.only,
                                     write_evidence=not a.no_evidence and not a.only)
    sys.exit(code)


if __name__ == "__main__":
    main()

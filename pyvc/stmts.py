"""Statements, calls, attribute/subscript access, iteration and builtins for the symbolic interpreter."""
from __future__ import annotations

import ast
import itertools

import z3

from .core import EngineAbort, OutOfReach, Forall
from .interp import (Interp, Env, FuncVal, BoundMethod, Coro, Raised, ExcVal, EXC, TYPES, exc, _Return, _Break,
                     _Continue, PathEnd, Unbound, Missing, SymPySet, DEFAULT_BUILTINS)
from .values import (SV, DName, PartV, PyTypeTok, Rec, ClassRec, View, MapView, SetView, StructView, Opaque, Store,
                     NameS, PartS, nparts, part, join_fn, name_axioms_for, part_const, coerce_scalar, make_view)


class LoopSpec:
    """Sidecar loop contract for a `for` over a symbolic set / map (arbitrary-next rule).

    inv(ctx, visited) -> list of z3 Bool / Forall: the invariant, where `visited` is the z3 set of elements
    already iterated.  modifies: list of Store objects (or callables returning them) the body may write.
    """

    def __init__(self, inv, modifies, name="inv", ghost_step=None):
        self.inv = inv
        self.modifies = modifies
        self.name = name
        # ghost_step(interp, env, x): update of ghost stores (e.g. a witness function for an existential in the invariant) after
        # the body has run for the arbitrary element x, before the invariant is re-established
        self.ghost_step = ghost_step


class SymSeq:
    """An arbitrary-length sequence of symbolic elements; make_elem(i) builds the element bound in an arbitrary
    iteration.  Iterated only by a `for` with a loop contract (rule: init / preserved for an arbitrary element /
    after)."""

    def __init__(self, make_elem, name="seq"):
        self.make_elem = make_elem
        self.name = name


class SuperProxy:
    def __init__(self, obj, owner):
        self.obj = obj
        self.owner = owner


class Interpreter(Interp):
    def __init__(self, eng, builtins=None):
        super().__init__(eng, builtins)
        self.frames = []
        self.all_orders_for_constant_sets = False

    def do_super(self):
        if not self.frames:
            raise OutOfReach("super() outside a method")
        fv, frame = self.frames[-1]
        if fv.owner is None:
            raise OutOfReach("super() in a function without owner class")
        a = fv.node.args
        first = (a.posonlyargs + a.args)[0].arg
        return SuperProxy(frame.vars[first], fv.owner)

    # ------------------------------------------------------------------------------------------------
    # statements
    # ------------------------------------------------------------------------------------------------
    def exec_block(self, stmts, env):
        for s in stmts:
            self.exec(s, env)

    def exec(self, node, env):
        self.eng.steps += 1
        if self.eng.steps > self.eng.max_steps:
            raise OutOfReach(f"step budget of {self.eng.max_steps} interpreted statements exhausted")
        m = getattr(self, "ex_" + node.__class__.__name__, None)
        if m is None:
            raise OutOfReach(f"statement {node.__class__.__name__} at line {getattr(node, 'lineno', '?')}")
        return m(node, env)

    def ex_Expr(self, node, env):
        if isinstance(node.value, ast.Constant):
            return
        self.ev(node.value, env)

    def ex_Pass(self, node, env):
        pass

    def ex_Assign(self, node, env):
        v = self.ev(node.value, env)
        for t in node.targets:
            self.assign(t, v, env)

    def ex_AnnAssign(self, node, env):
        if node.value is not None:
            self.assign(node.target, self.ev(node.value, env), env)

    def ex_AugAssign(self, node, env):
        t = node.target
        if isinstance(t, ast.Name):
            cur = self.ev(ast.Name(id=t.id, ctx=ast.Load(), lineno=node.lineno), env)
            new = self.aug(node.op, cur, self.ev(node.value, env))
            self.assign(t, new, env)
        elif isinstance(t, ast.Subscript):
            obj = self.ev(t.value, env)
            idx = self.ev(t.slice, env)
            cur = self.getitem(obj, idx)
            new = self.aug(node.op, cur, self.ev(node.value, env))
            self.setitem(obj, idx, new)
        elif isinstance(t, ast.Attribute):
            obj = self.ev(t.value, env)
            cur = self.getattr_(obj, t.attr)
            new = self.aug(node.op, cur, self.ev(node.value, env))
            self.setattr_(obj, t.attr, new)
        else:
            raise OutOfReach("augassign target")

    def aug(self, op, cur, val):
        if isinstance(cur, list) and isinstance(op, ast.Add):
            cur.extend(self.iterate(val))
            return cur
        if isinstance(cur, (SetView,)) and isinstance(op, ast.BitOr):
            for x in self.iterate(val):
                cur.add(x)
            return cur
        if isinstance(cur, SymPySet) and isinstance(op, ast.BitOr):
            for x in self.iterate(val):
                self.pyset_add(cur, x)
            return cur
        return self.binop(op, cur, val)

    def assign(self, target, value, env):
        if isinstance(target, ast.Name):
            self.bind(env, target.id, value)
        elif isinstance(target, (ast.Tuple, ast.List)):
            items = list(self.iterate(value))
            star = [i for i, e in enumerate(target.elts) if isinstance(e, ast.Starred)]
            if star:
                i = star[0]
                n_after = len(target.elts) - i - 1
                if len(items) < len(target.elts) - 1:
                    raise exc("ValueError", "not enough values to unpack")
                for e, v in zip(target.elts[:i], items[:i]):
                    self.assign(e, v, env)
                self.assign(target.elts[i].value, list(items[i:len(items) - n_after]), env)
                for e, v in zip(target.elts[i + 1:], items[len(items) - n_after:]):
                    self.assign(e, v, env)
            else:
                if len(items) != len(target.elts):
                    raise exc("ValueError", "unpack length mismatch")
                for e, v in zip(target.elts, items):
                    self.assign(e, v, env)
        elif isinstance(target, ast.Subscript):
            obj = self.ev(target.value, env)
            idx = self.ev(target.slice, env)
            self.setitem(obj, idx, value)
        elif isinstance(target, ast.Attribute):
            obj = self.ev(target.value, env)
            self.setattr_(obj, target.attr, value)
        else:
            raise OutOfReach(f"assign target {target.__class__.__name__}")

    def bind(self, env, name, value):
        # function-local scoping: write to the frame env unless declared nonlocal/global there
        e = env
        decl = getattr(env, "nonlocals", None)
        while e is not None and not getattr(e, "is_frame", False):
            if name in e.vars:
                e.vars[name] = value
                return
            e = e.parent
        if e is None:
            env.vars[name] = value
            return
        if name in getattr(e, "nonlocals", ()):  # nonlocal: write to the defining outer frame
            o = e.parent
            while o is not None:
                if name in o.vars:
                    o.vars[name] = value
                    return
                o = o.parent
            raise OutOfReach(f"nonlocal {name} not found")
        e.vars[name] = value

    def ex_Delete(self, node, env):
        for t in node.targets:
            if isinstance(t, ast.Subscript):
                obj = self.ev(t.value, env)
                if isinstance(t.slice, ast.Slice):
                    lo = self.ev(t.slice.lower, env) if t.slice.lower else None
                    hi = self.ev(t.slice.upper, env) if t.slice.upper else None
                    if not isinstance(obj, list) or isinstance(lo, SV) or isinstance(hi, SV) or t.slice.step:
                        raise OutOfReach("del of a symbolic slice")
                    del obj[lo:hi]
                    continue
                idx = self.ev(t.slice, env)
                self.delitem(obj, idx)
            elif isinstance(t, ast.Name):
                e = env
                while e is not None:
                    if t.id in e.vars:
                        del e.vars[t.id]
                        break
                    e = e.parent
                else:
                    raise exc("NameError", t.id)
            elif isinstance(t, ast.Attribute):
                obj = self.ev(t.value, env)
                self.delattr_(obj, t.attr)
            else:
                raise OutOfReach("del target")

    def ex_If(self, node, env):
        if self.branch_truth(self.ev(node.test, env), f"L{node.lineno}if"):
            self.exec_block(node.body, env)
        else:
            self.exec_block(node.orelse, env)

    def ex_While(self, node, env):
        n = 0
        limit = getattr(self, "while_unroll", 0)
        spec = self.loop_spec_for(node)
        if spec is not None:
            return spec(self, node, env)
        while True:
            if not self.branch_truth(self.ev(node.test, env), f"L{node.lineno}while{n}"):
                self.exec_block(node.orelse, env)
                return
            if limit and n >= limit:
                raise PathEnd()
            bound = getattr(self, "while_bound", None)
            if bound is not None and n >= bound:
                raise OutOfReach("while bound reached with a true test")
            if not limit and n > 64:
                raise OutOfReach(f"while loop at line {node.lineno} without invariant does not terminate in 64 rounds")
            n += 1
            try:
                self.exec_block(node.body, env)
            except _Break:
                return
            except _Continue:
                continue

    def loop_spec_for(self, node):
        if not self.func_stack:
            return None
        q = self.func_stack[-1]
        return self.loop_specs.get((q, node.lineno)) or self.loop_specs.get((q, getattr(node, "_ordinal", None)))

    def ex_For(self, node, env):
        it = self.ev(node.iter, env)
        spec = self.loop_spec_for(node)
        if isinstance(it, DictItems) and list(it.d.keys()) == [SYMVIEW_KEY]:
            it = SymItems(it.d[SYMVIEW_KEY], "items")
        if isinstance(it, (SetView, MapView, SymItems)):
            if spec is None:
                raise OutOfReach(f"for over a symbolic collection at line {node.lineno} needs a loop contract")
            return self.for_symbolic(node, env, it, spec)
        if isinstance(it, SymSeq):
            if spec is None:
                raise OutOfReach(f"for over an arbitrary-length sequence at line {node.lineno} needs a loop contract")
            return self.for_sequence(node, env, it, spec)
        broke = False
        for item in (_live_list_iter(it) if type(it) is list else self.iterate(it)):
            self.assign(node.target, item, env)
            try:
                self.exec_block(node.body, env)
            except _Break:
                broke = True
                break
            except _Continue:
                continue
        if not broke:
            self.exec_block(node.orelse, env)

    def for_symbolic(self, node, env, it, spec: LoopSpec):
        """Arbitrary-next rule with invariant over the visited set (DESIGN 2.3 / 2.6)."""
        eng = self.eng
        if isinstance(it, SymItems):
            coll, mode = it.view, it.mode
        else:
            coll, mode = it, ("keys" if isinstance(it, MapView) else "elems")
        members = coll.dom() if isinstance(coll, MapView) else coll.arr()  # snapshot at loop entry
        esort = members.sort().domain()
        empty = z3.K(esort, z3.BoolVal(False))
        qual = self.func_stack[-1] if self.func_stack else "?"
        lname = f"{qual}#for@{spec.name}"
        # 1. invariant holds initially
        for i, f in enumerate(spec.inv(self, env, empty, members)):
            eng.oblige(f"{lname}/init/{i}", f, kind="loop-init")
        which = eng.choose(2, "loop")
        mods = [m() if callable(m) else m for m in spec.modifies]
        if which == 0:
            # 2. preservation: arbitrary iteration
            for st in mods:
                st.havoc("it")
            visited = eng.fresh("visited", members.sort())
            x = eng.fresh("elem", esort)
            eng.assume(Forall([esort], lambda k: z3.Implies(z3.Select(visited, k), z3.Select(members, k)),
                              "visited_subset"))
            eng.assume(z3.Select(members, x))
            eng.assume(z3.Not(z3.Select(visited, x)))
            for f in spec.inv(self, env, visited, members):
                eng.assume(f)
            if mode == "items":
                item = (self.wrap_key(coll, x), coll.getitem(SV(x)))
            else:
                item = self.wrap_key(coll, x)
            self.assign(node.target, item, env)
            try:
                self.exec_block(node.body, env)
            except _Continue:
                pass
            except _Break:
                return  # real loop exit in the current state (no else clause)
            # (a return / raise propagates as a real loop exit)
            if getattr(spec, "ghost_step", None) is not None:
                spec.ghost_step(self, env, x)
            for i, f in enumerate(spec.inv(self, env, z3.Store(visited, x, z3.BoolVal(True)), members)):
                eng.oblige(f"{lname}/preserved/{i}", f, kind="loop-preserved")
            raise PathEnd()
        # 3. after the loop: invariant for the full set
        for st in mods:
            st.havoc("after")
        for f in spec.inv(self, env, members, members):
            eng.assume(f)
        self.exec_block(node.orelse, env)

    def for_sequence(self, node, env, seq, spec):
        """Loop over an arbitrary-length sequence: the invariant talks about ghost state the contract maintains
        (spec.step(interp, env, elem) updates the ghost summary after the body)."""
        eng = self.eng
        qual = self.func_stack[-1] if self.func_stack else "?"
        lname = f"{qual}#for@{spec.name}"
        # local variables that become symbolic stores from here on
        for var, typ in getattr(spec, "local_stores", {}).items():
            cur = env.lookup(var)
            st = Store(eng, f"local.{var}", typ)
            from .values import assign_into
            assign_into(st, typ, "", [], cur)
            self.bind(env, var, st.view())
            spec.stores[var] = st
        for i, f in enumerate(spec.inv(self, env)):
            eng.oblige(f"{lname}/init/{i}", f, kind="loop-init")
        which = eng.choose(2, "loop")
        mods = [m() if callable(m) else m for m in spec.modifies] + list(spec.stores.values())
        if which == 0:
            for st in mods:
                st.havoc("it")
            for f in spec.inv(self, env):
                eng.assume(f)
            elem = seq.make_elem(self)
            self.assign(node.target, elem, env)
            try:
                self.exec_block(node.body, env)
            except _Continue:
                pass
            except _Break:
                return
            spec.step(self, env, elem)
            for i, f in enumerate(spec.inv(self, env)):
                ob = eng.oblige(f"{lname}/preserved/{i}", f, kind="loop-preserved")
                if ob.status == "refuted" and hasattr(spec, "witness"):
                    ob.witness = spec.witness(self, ob, elem)
            raise PathEnd()
        for st in mods:
            st.havoc("after")
        for f in spec.inv(self, env):
            eng.assume(f)
        self.exec_block(node.orelse, env)

    def ex_With(self, node, env):
        if len(node.items) != 1:
            raise OutOfReach("with statement with several managers")
        item = node.items[0]
        mgr = self.ev(item.context_expr, env)
        enter = self.getattr_(mgr, "__enter__")
        exit_ = self.getattr_(mgr, "__exit__")
        val = self.call(enter, [], {})
        if item.optional_vars is not None:
            self.assign(item.optional_vars, val, env)
        try:
            self.exec_block(node.body, env)
        except Raised as r:
            if self.truth(self.call(exit_, [r.exc.cls, r.exc, None], {})) is True:
                return
            raise
        except (_Return, _Break, _Continue):
            self.call(exit_, [None, None, None], {})
            raise
        self.call(exit_, [None, None, None], {})

    def wrap_key(self, coll, x):
        s = x.sort()
        if s == NameS:
            for ax in name_axioms_for(x):
                self.eng.assume(ax)
            return DName(x)
        if s == PartS:
            return PartV(x)
        return SV(x)

    def ex_Return(self, node, env):
        raise _Return(self.ev(node.value, env) if node.value is not None else None)

    def ex_Break(self, node, env):
        raise _Break()

    def ex_Continue(self, node, env):
        raise _Continue()

    def ex_Raise(self, node, env):
        if node.exc is None:
            if not self.cur_exc:
                raise exc("RuntimeError", "No active exception to reraise")
            raise Raised(self.cur_exc[-1])
        e = self.ev(node.exc, env)
        if isinstance(e, (PyTypeTok, ClassRec)):
            e = self.call(e, [], {})
        if not isinstance(e, ExcVal):
            if isinstance(e, Rec) and e._fields.get("__is_exc__"):
                raise Raised(e)
            raise OutOfReach(f"raise of {e!r}")
        if node.cause is not None:
            e.cause = self.ev(node.cause, env)
        raise Raised(e)

    def ex_Assert(self, node, env):
        if not self.branch_truth(self.ev(node.test, env), f"L{node.lineno}assert"):
            raise exc("AssertionError")

    def ex_Global(self, node, env):
        raise OutOfReach("global statement")

    def ex_Nonlocal(self, node, env):
        e = env
        while e is not None and not getattr(e, "is_frame", False):
            e = e.parent
        if e is None:
            raise OutOfReach("nonlocal outside function")
        e.nonlocals = set(getattr(e, "nonlocals", ())) | set(node.names)

    def exc_matches(self, e, spec):
        if isinstance(spec, tuple):
            return any(self.exc_matches(e, s) for s in spec)
        if isinstance(spec, (PyTypeTok, ClassRec)):
            ecls = e.cls if isinstance(e, ExcVal) else e._cls
            return spec.name in ecls.mro_names()
        if isinstance(spec, Missing):
            raise OutOfReach(f"except {spec.name}")
        raise OutOfReach(f"except clause {spec!r}")

    def ex_Try(self, node, env):
        pending = None
        try:
            try:
                self.exec_block(node.body, env)
            except Raised as r:
                handled = False
                for h in node.handlers:
                    if h.type is None or self.exc_matches(r.exc, self.ev(h.type, env)):
                        handled = True
                        if h.name:
                            self.bind(env, h.name, r.exc)
                        self.cur_exc.append(r.exc)
                        try:
                            self.exec_block(h.body, env)
                        finally:
                            self.cur_exc.pop()
                            if h.name:
                                e = env
                                while e is not None:
                                    if h.name in e.vars:
                                        del e.vars[h.name]
                                        break
                                    e = e.parent
                        break
                if not handled:
                    raise
            else:
                self.exec_block(node.orelse, env)
        except EngineAbort:
            raise
        except BaseException as sig:  # Raised/_Return/_Break/_Continue in flight
            pending = sig
        if node.finalbody:
            if isinstance(pending, Raised):
                self.cur_exc.append(pending.exc)
                try:
                    self.exec_block(node.finalbody, env)
                finally:
                    self.cur_exc.pop()
            else:
                self.exec_block(node.finalbody, env)
        if pending is not None:
            raise pending

    def ex_FunctionDef(self, node, env):
        fv = self.make_func(node, env, self._qual(node.name))
        if node.decorator_list:
            for d in reversed(node.decorator_list):
                dec = self.ev(d, env)
                fv = self.call(dec, [fv], {})
        self.bind(env, node.name, fv)

    ex_AsyncFunctionDef = ex_FunctionDef

    def _qual(self, name):
        if self.func_stack:
            return f"{self.func_stack[-1]}.{name}"
        return name

    def make_func(self, node, env, qualname, module=None, owner=None):
        defaults = [self.ev(d, env) for d in node.args.defaults]
        kw_defaults = [self.ev(d, env) if d is not None else None for d in node.args.kw_defaults]
        fv = FuncVal(node, env, qualname, module=module, is_async=isinstance(node, ast.AsyncFunctionDef), owner=owner)
        fv.defaults = defaults
        fv.kw_defaults = kw_defaults
        return fv

    def ex_Import(self, node, env):
        mods = getattr(self, "import_modules", {})
        for a in node.names:
            if a.name not in mods:
                raise OutOfReach(f"import {a.name} inside unit (no assumed contract)")
            self.bind(env, a.asname or a.name.split(".")[0], mods[a.name])

    def ex_ImportFrom(self, node, env):
        mods = getattr(self, "import_modules", {})
        if node.module not in mods:
            raise OutOfReach(f"from {node.module} import ... inside unit (no assumed contract)")
        m = mods[node.module]
        for a in node.names:
            self.bind(env, a.asname or a.name, self.getattr_(m, a.name))

    # ------------------------------------------------------------------------------------------------
    # calls
    # ------------------------------------------------------------------------------------------------
    def call(self, fn, args, kwargs, node=None):
        if isinstance(fn, Missing):
            raise OutOfReach(f"call of unmodelled name {fn.name}")
        if isinstance(fn, BoundMethod):
            return self.call(fn.func, [fn.self_obj] + list(args), kwargs, node=node)
        if isinstance(fn, FuncVal):
            hook = self.call_hooks.get(fn.qualname)
            if hook is not None:
                return hook(self, fn, list(args), dict(kwargs))
            if fn.is_async:
                return Coro(lambda: self.run_func(fn, args, kwargs), fn.qualname)
            return self.run_func(fn, args, kwargs)
        if isinstance(fn, PyTypeTok):
            if fn.name in EXC or "BaseException" in fn.mro_names():
                return ExcVal(fn, args)
            ctor = _TYPE_CTORS.get(fn.name)
            if ctor:
                return ctor(self, *args, **kwargs)
            raise OutOfReach(f"constructor {fn.name}")
        if isinstance(fn, ClassRec):
            return self.instantiate(fn, args, kwargs)
        if isinstance(fn, SV):
            from .values import value_of_obj
            back = value_of_obj(fn.t)
            if back is not None:
                return self.call(back, args, kwargs, node=node)
            hook = self.method_tables.get((fn.t.sort().name(), "__call__"))
            if hook is not None:
                return hook(self, fn, *args, **kwargs)
            raise OutOfReach(f"call of symbolic {fn.t.sort()}")
        if isinstance(fn, Rec) and "__call__" in fn._fields:
            return self.call(fn._fields["__call__"], args, kwargs)
        if callable(fn):
            if any(not isinstance(k, str) for k in kwargs):
                raise OutOfReach(f"host callable {getattr(fn, '__name__', fn)!r} called with non-string keyword keys")
            return fn(self, *args, **kwargs)
        raise exc("TypeError", f"{fn!r} is not callable")

    def dict_find(self, d, key):
        """The actual key object of concrete dict d that equals key (forking on symbolic equalities), or _NOKEY."""
        sym = isinstance(key, (SV, DName, PartV))
        if not sym:
            try:
                if key in d:
                    return key
            except TypeError:
                raise OutOfReach(f"unhashable key {key!r}")
            if not any(isinstance(k, SymKey) for k in d):
                return _NOKEY
        for k in list(d.keys()):
            kk = k.key if isinstance(k, SymKey) else k
            if not sym and not isinstance(k, SymKey):
                continue
            r = self.eq(kk, key)
            if r is True or (r is not False and self.eng.branch(r, "dkey")):
                return k
        return _NOKEY

    def await_if_coro(self, v):
        from .interp import Coro as _C
        return self.await_(v) if isinstance(v, _C) else v

    def instantiate(self, cls, args, kwargs):
        if "BaseException" in cls.mro_names():
            e = ExcVal(cls, args)
            return e
        new = cls.lookup("__new__")
        if new is not None:
            f = new[0]
            obj = f(self, cls, *args, **kwargs) if callable(f) and not isinstance(f, FuncVal) else self.call(f, [cls] + list(args), kwargs)
            if not (isinstance(obj, Rec) and obj._cls is cls):
                return obj
        else:
            obj = Rec(cls=cls, name=cls.name)
        init = cls.lookup("__init__")
        if init is not None:
            if getattr(init[0], "_is_method", False):
                init[0](self, obj, *args, **kwargs)
                return obj
            r = self.call(init[0], [obj] + list(args), kwargs)
            if isinstance(r, Coro):
                raise OutOfReach("async __init__")
        return obj

    def run_func(self, fv, args, kwargs):
        node = fv.node
        frame = Env(fv.env)
        frame.is_frame = True
        self.bind_args(fv, frame, list(args), dict(kwargs))
        self.depth += 1
        if self.depth > 40:
            raise OutOfReach("recursion depth")
        self.func_stack.append(fv.qualname)
        self.frames.append((fv, frame))
        saved_exc = self.cur_exc
        try:
            if isinstance(node, ast.Lambda):
                return self.ev(node.body, frame)
            try:
                self.exec_block(node.body, frame)
            except _Return as r:
                return r.value
            return None
        finally:
            self.func_stack.pop()
            self.frames.pop()
            self.depth -= 1

    def bind_args(self, fv, frame, args, kwargs):
        a = fv.node.args
        pos = [p.arg for p in a.posonlyargs] + [p.arg for p in a.args]
        n_posonly = len(a.posonlyargs)
        defaults = getattr(fv, "defaults", [])
        name = fv.qualname
        if len(args) > len(pos):
            if a.vararg is None:
                raise exc("TypeError", f"{name}() takes {len(pos)} positional arguments but {len(args)} were given")
            frame.vars[a.vararg.arg] = tuple(args[len(pos):])
            args = args[:len(pos)]
        elif a.vararg is not None:
            frame.vars[a.vararg.arg] = ()
        for p, v in zip(pos, args):
            frame.vars[p] = v
        extra = {}
        for k, v in kwargs.items():
            if k in pos[n_posonly:] or k in [p.arg for p in a.kwonlyargs]:
                if k in frame.vars:
                    raise exc("TypeError", f"{name}() got multiple values for argument '{k}'")
                frame.vars[k] = v
            elif a.kwarg is not None:
                extra[k] = v
            else:
                raise exc("TypeError", f"{name}() got an unexpected keyword argument '{k}'")
        if a.kwarg is not None:
            frame.vars[a.kwarg.arg] = extra
        first_default = len(pos) - len(defaults)
        for i, p in enumerate(pos):
            if p not in frame.vars:
                if i >= first_default:
                    frame.vars[p] = defaults[i - first_default]
                else:
                    raise exc("TypeError", f"{name}() missing required positional argument '{p}'")
        for p, d in zip(a.kwonlyargs, getattr(fv, "kw_defaults", [None] * len(a.kwonlyargs))):
            if p.arg not in frame.vars:
                if d is None and fv.node.args.kw_defaults[a.kwonlyargs.index(p)] is None:
                    raise exc("TypeError", f"{name}() missing required keyword-only argument '{p.arg}'")
                frame.vars[p.arg] = d

    # ------------------------------------------------------------------------------------------------
    # attributes
    # ------------------------------------------------------------------------------------------------
    def getattr_(self, obj, attr):
        if isinstance(obj, SV) and obj.none is not None:
            obj = self.split_none(obj)
        if isinstance(obj, Missing):
            raise OutOfReach(f"attribute of unmodelled name {obj.name}")
        if obj is None:
            raise exc("AttributeError", f"'NoneType' object has no attribute '{attr}'")
        if isinstance(obj, Rec):
            if attr in obj._fields:
                return obj._fields[attr]
            sd = obj._fields.get("__symdict__")
            if sd is not None:
                if attr == "__dict__":
                    return sd
                key = PartV(part_const(attr))
                if self.eng.branch(sd.has(key), f"attr:{attr}"):
                    return sd.getitem(key)
            if obj._cls is not None and isinstance(obj._cls, ClassRec):
                r = obj._cls.lookup(attr)
                if r is not None:
                    return self.bind_method(r[0], obj, r[1])
            if attr == "__dict__":
                return obj._fields
            ga = obj._fields.get("__getattr__")
            if ga is not None:
                return self.call(ga, [attr], {})
            raise exc("AttributeError", f"{obj!r} has no attribute '{attr}'")
        if isinstance(obj, SuperProxy):
            for b in obj.owner.bases:
                if isinstance(b, ClassRec):
                    r = b.lookup(attr)
                    if r is not None:
                        if isinstance(obj.obj, ClassRec):
                            v = r[0]
                            return BoundMethod(v, obj.obj) if isinstance(v, FuncVal) and v.kind == "classmethod" else v
                        return self.bind_method(r[0], obj.obj, r[1])
            raise exc("AttributeError", f"super object has no attribute '{attr}'")
        if isinstance(obj, ClassRec):
            r = obj.lookup(attr)
            if r is None:
                if attr == "__name__":
                    return obj.name
                raise exc("AttributeError", f"type object '{obj.name}' has no attribute '{attr}'")
            v, owner = r
            if isinstance(v, FuncVal):
                if v.kind == "classmethod":
                    return BoundMethod(v, obj)
                return v
            if isinstance(v, Store):
                return v.view()
            return v
        if isinstance(obj, (MapView, SetView, StructView)):
            m = _VIEW_METHODS.get((type(obj).__name__, attr))
            if m is None and isinstance(obj, StructView) and attr in obj.typ.fields:
                # a record object whose attributes are the struct's fields (always present)
                return obj.getitem(attr)
            if m is None:
                raise OutOfReach(f"{type(obj).__name__}.{attr}")
            return lambda interp, *a, **k: m(interp, obj, *a, **k)
        if isinstance(obj, SV):
            hook = self.method_tables.get((obj.t.sort().name(), attr))
            if hook is not None:
                return lambda interp, *a, **k: hook(interp, obj, *a, **k)
            fld = self.method_tables.get((obj.t.sort().name(), "." + attr))
            if fld is not None:
                return fld(self, obj)
            if obj.t.sort() == z3.StringSort():
                m = _STR_METHODS.get(attr)
                if m:
                    return lambda interp, *a, **k: m(interp, obj, *a, **k)
            raise OutOfReach(f"attribute {attr} of symbolic {obj.t.sort()}")
        if isinstance(obj, DName):
            m = _DNAME_METHODS.get(attr)
            if m:
                return lambda interp, *a, **k: m(interp, obj, *a, **k)
            raise OutOfReach(f"str method {attr} on dotted name")
        if isinstance(obj, PartV):
            m = _PART_METHODS.get(attr)
            if m:
                return lambda interp, *a, **k: m(interp, obj, *a, **k)
            raise OutOfReach(f"str method {attr} on name part")
        if isinstance(obj, PyTypeTok) and attr == "__name__":
            return obj.name
        if isinstance(obj, ExcVal):
            if attr == "args":
                return obj.args
            if attr == "__cause__":
                return obj.cause
            extra = getattr(obj, "attrs", None)
            if extra is not None and attr in extra:
                return extra[attr]
            if attr in ("lineno", "offset", "text", "filename", "msg"):
                # SyntaxError details: present only when the raiser supplied them
                raise exc("AttributeError", attr)
            raise OutOfReach(f"exception attribute {attr}")
        if isinstance(obj, (dict, list, set, str, tuple, SymPySet)):
            key = ("SymPySet" if isinstance(obj, SymPySet) else ("dict" if isinstance(obj, dict) else type(obj).__name__), attr)
            m = _CONCRETE_METHODS.get(key)
            if m is None:
                if isinstance(obj, (str, tuple)) and hasattr(obj, attr):
                    return _native_method(obj, attr)
                raise OutOfReach(f"{key[0]}.{attr}")
            return lambda interp, *a, **k: m(interp, obj, *a, **k)
        if isinstance(obj, FuncVal):
            if attr == "__name__":
                return obj.node.name if not isinstance(obj.node, ast.Lambda) else "<lambda>"
            raise OutOfReach(f"function attribute {attr}")
        if isinstance(obj, ast.AST) or isinstance(obj, type):
            try:
                return getattr(obj, attr)
            except AttributeError:
                raise exc("AttributeError", attr)
        if isinstance(obj, PyModule):
            if attr in obj.attrs:
                return obj.attrs[attr]
            raise OutOfReach(f"module attribute {obj.name}.{attr} is not modelled")
        if isinstance(obj, (bytes, bytearray)):
            hook = self.method_tables.get(("bytes", attr))
            if hook is not None:
                return lambda interp, *a, **k: hook(interp, obj, *a, **k)
        if callable(obj) and not isinstance(obj, (SV, Rec)):
            raise exc("AttributeError", f"host callable has no attribute '{attr}'")
        raise OutOfReach(f"getattr {attr} on {type(obj).__name__}")

    def bind_method(self, v, obj, owner):
        if isinstance(v, FuncVal):
            if v.kind == "staticmethod":
                return v
            if v.kind == "classmethod":
                return BoundMethod(v, obj._cls)
            return BoundMethod(v, obj)
        if isinstance(v, Store):
            return v.view()
        if callable(v) and getattr(v, "_is_method", False):
            return lambda interp, *a, **k: v(interp, obj, *a, **k)
        return v

    def setattr_(self, obj, attr, value):
        if isinstance(obj, Rec):
            hook = obj._fields.get("__setattr_hook__")
            if hook is not None:
                hook(self, obj, attr, value)
            if attr == "__dict__" and isinstance(value, MapView):
                obj._fields["__symdict__"] = value  # instance dictionary is a symbolic map from now on
                return
            sd = obj._fields.get("__symdict__")
            if sd is not None and not attr.startswith("_"):
                sd.setitem(PartV(part_const(attr)), value)
                return
            obj._fields[attr] = value
            return
        if isinstance(obj, ClassRec):
            cur = obj.attrs.get(attr)
            if isinstance(cur, Store):
                from .values import assign_into
                assign_into(cur, cur.typ, "", [], value)
                return
            obj.attrs[attr] = value
            return
        if isinstance(obj, StructView) and attr in obj.typ.fields:
            obj.setitem(attr, value)
            return
        raise OutOfReach(f"setattr on {type(obj).__name__}")

    def delattr_(self, obj, attr):
        if isinstance(obj, Rec):
            if attr not in obj._fields:
                raise exc("AttributeError", attr)
            del obj._fields[attr]
            return
        raise OutOfReach("delattr")

    # ------------------------------------------------------------------------------------------------
    # subscripts
    # ------------------------------------------------------------------------------------------------
    def getitem(self, obj, idx):
        if isinstance(obj, SV) and obj.none is not None:
            obj = self.split_none(obj)
        if isinstance(idx, SV) and idx.none is not None:
            idx = self.split_none(idx)
        if obj is None:
            raise exc("TypeError", "'NoneType' object is not subscriptable")
        if isinstance(obj, MapView):
            if idx is None or not self.eng.branch(obj.has(idx), "haskey"):
                raise exc("KeyError", idx)
            return obj.getitem(idx)
        if isinstance(obj, StructView):
            if not self.eng.branch(obj.has(idx), "hasfield"):
                raise exc("KeyError", idx)
            return obj.getitem(idx)
        if isinstance(obj, (list, tuple)):
            if isinstance(idx, SV):
                raise OutOfReach("symbolic index into concrete sequence")
            try:
                return obj[idx]
            except IndexError:
                raise exc("IndexError", "index out of range")
            except TypeError as e:
                raise exc("TypeError", str(e))
        if isinstance(obj, dict):
            k = self.dict_find(obj, idx)
            if k is _NOKEY:
                raise exc("KeyError", idx)
            return obj[k]
        if isinstance(obj, PartsList):
            return obj.get(self, idx)
        if isinstance(obj, str) and isinstance(idx, int):
            try:
                return obj[idx]
            except IndexError:
                raise exc("IndexError", "string index out of range")
        if isinstance(obj, Rec) and "__getitem__" in obj._fields:
            return self.call(obj._fields["__getitem__"], [idx], {})
        if isinstance(obj, SV):
            hook = self.method_tables.get((obj.t.sort().name(), "__getitem__"))
            if hook:
                return hook(self, obj, idx)
            if obj.t.sort() == z3.StringSort() and isinstance(idx, int) and idx >= 0:
                if not self.eng.branch(z3.Length(obj.t) > idx, f"strlen>{idx}"):
                    raise exc("IndexError", "string index out of range")
                return SV(z3.SubString(obj.t, idx, 1))
        raise OutOfReach(f"subscript on {type(obj).__name__}")

    def getslice(self, obj, lo, hi, st):
        if isinstance(obj, (list, tuple, str, bytes)) and all(x is None or isinstance(x, int) for x in (lo, hi, st)):
            return obj[lo:hi:st]
        if isinstance(obj, PartsList) and all(x is None or isinstance(x, int) for x in (lo, hi, st)):
            # parts[a:b] of name.split('.'): fork on the arity (<= 5 parts), then an ordinary list slice
            return obj.as_list(self)[lo:hi:st]
        raise OutOfReach("slice of symbolic value")

    def setitem(self, obj, idx, value):
        if isinstance(idx, SV) and idx.none is not None:
            idx = self.split_none(idx)
        if isinstance(value, SV) and value.none is not None and not isinstance(obj, (dict, list)):
            pass
        if isinstance(obj, (MapView, StructView)):
            obj.setitem(idx, value)
            return
        if isinstance(obj, dict):
            k = self.dict_find(obj, idx)
            if k is _NOKEY:
                k = SymKey(idx) if isinstance(idx, (SV, DName, PartV)) else idx
            obj[k] = value
            return
        if isinstance(obj, list):
            try:
                obj[idx] = value
            except IndexError:
                raise exc("IndexError", "list assignment index out of range")
            return
        if isinstance(obj, Rec) and "__setitem__" in obj._fields:
            self.call(obj._fields["__setitem__"], [idx, value], {})
            return
        raise OutOfReach(f"item assignment on {type(obj).__name__}")

    def delitem(self, obj, idx):
        if isinstance(idx, SV) and idx.none is not None:
            idx = self.split_none(idx)
        if isinstance(obj, MapView):
            if idx is None or not self.eng.branch(obj.has(idx), "haskey"):
                raise exc("KeyError", idx)
            obj.delitem(idx)
            return
        if isinstance(obj, dict):
            k = self.dict_find(obj, idx)
            if k is _NOKEY:
                raise exc("KeyError", idx)
            del obj[k]
            return
        if isinstance(obj, list):
            try:
                del obj[idx]
            except IndexError:
                raise exc("IndexError", "list index out of range")
            return
        if isinstance(obj, Rec) and "__delitem__" in obj._fields:
            self.call(obj._fields["__delitem__"], [idx], {})
            return
        raise OutOfReach(f"del item on {type(obj).__name__}")

    # ------------------------------------------------------------------------------------------------
    # iteration
    # ------------------------------------------------------------------------------------------------
    def iterate(self, v):
        if isinstance(v, SV) and v.none is not None:
            v = self.split_none(v)
        if isinstance(v, SymPySet):
            items = self.pyset_distinct(v)
            if len(items) <= 1:
                return list(items)
            if all(isinstance(x, (str, int, float, bool, type(None), PyTypeTok)) for x in items) and not self.all_orders_for_constant_sets:
                # A-SETCONST: a set of literal constants is iterated in one canonical order
                return sorted(items, key=repr)
            perms = list(itertools.permutations(range(len(items))))
            k = self.eng.choose(len(perms), "order") % len(perms)
            return [items[i] for i in perms[k]]
        if isinstance(v, (list, tuple)):
            return list(v)
        if isinstance(v, dict):
            return [k.key if isinstance(k, SymKey) else k for k in v.keys()]
        if isinstance(v, DictItems):
            return [((k.key if isinstance(k, SymKey) else k), x) for k, x in v.d.items()]
        if isinstance(v, str):
            return list(v)
        if isinstance(v, (set, frozenset)):
            return self.iterate(SymPySet(sorted(v, key=repr)))
        if isinstance(v, PartsList):
            return v.as_list(self)
        if v is None:
            raise exc("TypeError", "'NoneType' object is not iterable")
        if isinstance(v, (SetView, MapView, SymItems)):
            raise OutOfReach("iteration over a symbolic collection outside a for statement with a loop contract")
        raise OutOfReach(f"iterate over {type(v).__name__}")

    def pyset_distinct(self, s):
        """Elements of a concrete-shape set, forking on which symbolic elements coincide."""
        out = []
        for e in s:
            dup = False
            for o in out:
                r = self.eq(e, o)
                if r is True or (r is not False and self.eng.branch(r, "setdup")):
                    dup = True
                    break
            if not dup:
                out.append(e)
        return out

    def pyset_add(self, s, x):
        for o in s:
            r = self.eq(x, o)
            if r is True or (r is not False and self.eng.branch(r, "setdup")):
                return
        s.append(x)


def _is_concrete(v):
    if isinstance(v, (str, int, float, bool, bytes, type(None))):
        return True
    if isinstance(v, (list, tuple)) and not isinstance(v, SymPySet):
        return all(_is_concrete(x) for x in v)
    return False


def _native_method(obj, attr):
    """Immutable concrete receiver with all-concrete arguments: the native method is the semantics."""
    def call(interp, *a, **k):
        if not all(_is_concrete(x) for x in a) or not all(_is_concrete(x) for x in k.values()):
            raise OutOfReach(f"{type(obj).__name__}.{attr} with symbolic arguments")
        try:
            return getattr(obj, attr)(*a, **k)
        except (TypeError, ValueError, IndexError, KeyError) as e:
            raise exc(type(e).__name__, str(e))
    return call


_NOKEY = object()


class SymKey:
    """Wrapper making a symbolic value usable as a key of a concrete dict (identity hashed)."""

    def __init__(self, key):
        self.key = key

    def __repr__(self):
        return f"SymKey({self.key!r})"


class DictItems:
    def __init__(self, d):
        self.d = d


class SymItems:
    def __init__(self, view, mode):
        self.view = view
        self.mode = mode


def _live_list_iter(lst):
    """CPython's list iterator: asks the LIVE list for element i until i >= len(list) - a body (or, across an await, another
    task) that shortens, clears or extends the list changes what the loop visits."""
    i = 0
    while i < len(lst):
        yield lst[i]
        i += 1


class PyModule:
    def __init__(self, name, attrs):
        self.name = name
        self.attrs = attrs


class PartsList:
    """Result of name.split('.'): list of parts with symbolic length nparts(name)."""

    def __init__(self, name_term):
        self.n = name_term

    def length(self):
        return SV(nparts(self.n))

    def get(self, interp, idx):
        if isinstance(idx, SV):
            raise OutOfReach("symbolic index into parts")
        if idx < 0:
            raise OutOfReach("negative index into parts")
        if not interp.eng.branch(nparts(self.n) > idx, f"nparts>{idx}"):
            raise exc("IndexError", "list index out of range")
        return PartV(part(self.n, idx))

    def as_list(self, interp):
        # fork on the arity up to 5
        for n in range(1, 6):
            if interp.eng.branch(nparts(self.n) == n, f"nparts={n}"):
                return [PartV(part(self.n, i)) for i in range(n)]
        raise OutOfReach("dotted name with more than 5 parts iterated")


# ---- view methods ------------------------------------------------------------------------------------------
def _map_get(interp, mv, k, default=None):
    if isinstance(k, SV) and k.none is not None:
        k = interp.split_none(k)
    if k is None:
        return default
    if interp.eng.branch(mv.has(k), "get"):
        return mv.getitem(k)
    return default


def _map_pop(interp, mv, k, *default):
    if isinstance(k, SV) and k.none is not None:
        k = interp.split_none(k)
    if k is not None and interp.eng.branch(mv.has(k), "pop"):
        v = mv.getitem(k)
        mv.delitem(k)
        return v
    if default:
        return default[0]
    raise exc("KeyError", k)


def _map_setdefault(interp, mv, k, d):
    if interp.eng.branch(mv.has(k), "setdefault"):
        return mv.getitem(k)
    mv.setitem(k, d)
    return mv.getitem(k)


_copy_ctr = [0]


def _map_copy(interp, mv):
    """dict.copy() of a symbolic map: a fresh root store initialised with the current columns."""
    _copy_ctr[0] += 1
    init = {c: mv.col(c) for c in mv.typ.columns()}
    st = Store(interp.eng, f"copy{_copy_ctr[0]}", mv.typ, init=init)
    v = st.view()
    v.fresh_copy = True
    return v


def _map_update(interp, mv, other, kw):
    if other is not None:
        if isinstance(other, dict):
            for k, v in other.items():
                mv.setitem(k.key if isinstance(k, SymKey) else k, v)
        else:
            raise OutOfReach("dict.update of a symbolic map with a symbolic map")
    for k, v in kw.items():
        mv.setitem(k, v)


def _set_remove(interp, sv, x):
    if not interp.eng.branch(sv.contains(x), "remove"):
        raise exc("KeyError", x)
    sv.discard(x)


_VIEW_METHODS = {
    ("MapView", "get"): _map_get,
    ("MapView", "pop"): _map_pop,
    ("MapView", "setdefault"): lambda i, mv, k, d=None: _map_setdefault(i, mv, k, d),
    ("MapView", "copy"): lambda i, mv: _map_copy(i, mv),
    ("MapView", "update"): lambda i, mv, other=None, **kw: _map_update(i, mv, other, kw),
    ("MapView", "items"): lambda i, mv: SymItems(mv, "items"),
    ("MapView", "keys"): lambda i, mv: SymItems(mv, "keys"),
    ("MapView", "clear"): lambda i, mv: mv.clear(),
    ("SetView", "add"): lambda i, sv, x: sv.add(x),
    ("SetView", "discard"): lambda i, sv, x: sv.discard(x),
    ("SetView", "remove"): _set_remove,
    ("SetView", "clear"): lambda i, sv: sv.clear(),
    ("StructView", "update"): lambda i, st, other=None, **kw: [st.setitem(k, v) for k, v in list((other or {}).items()) + list(kw.items())] and None,
    ("StructView", "get"): lambda i, st, k, d=None: st.getitem(k) if i.eng.branch(st.has(k), "sget") else d,
}


def _dname_split(interp, dn, sep=None, maxsplit=-1):
    if sep != ".":
        raise OutOfReach("split on something other than '.'")
    if maxsplit == -1:
        return PartsList(dn.t)
    # split('.', k): identical to the full split when the name has at most k+1 parts
    if interp.eng.branch(nparts(dn.t) <= maxsplit + 1, f"nparts<={maxsplit + 1}"):
        return PartsList(dn.t)
    raise OutOfReach("split with maxsplit on a name with more parts")


def _dname_count(interp, dn, sub):
    if sub != ".":
        raise OutOfReach("count of something other than '.'")
    return SV(nparts(dn.t) - 1)


def _dname_startswith(interp, dn, prefix):
    from .interp import NamePrefix
    if isinstance(prefix, NamePrefix):
        b = prefix.t
        alts = []
        for k in (1, 2, 3):
            alts.append(z3.And(nparts(b) == k, nparts(dn.t) > k, *[part(dn.t, i) == part(b, i) for i in range(k)]))
        interp.eng.assume(nparts(b) <= 3)  # bases used as prefixes are entity / attribute names (<= 3 parts)
        return SV(z3.Or(*alts))
    if isinstance(prefix, str) and prefix.endswith(".") and prefix.count(".") >= 1 and ".." not in prefix:
        ps = prefix[:-1].split(".")
        conj = [nparts(dn.t) > len(ps)]
        for i, p in enumerate(ps):
            conj.append(part(dn.t, i) == part_const(p))
        return SV(z3.And(*conj))
    raise OutOfReach("startswith on dotted name with non 'a.b.' prefix")


_DNAME_METHODS = {"split": _dname_split, "count": _dname_count, "startswith": _dname_startswith}
_PART_METHODS = {}


def _str_startswith(interp, s, prefix):
    if isinstance(prefix, (tuple, list)):
        return SV(z3.Or(*[z3.PrefixOf(p.t if isinstance(p, SV) else z3.StringVal(p), s.t) for p in prefix]))
    p = prefix.t if isinstance(prefix, SV) else z3.StringVal(prefix)
    return SV(z3.PrefixOf(p, s.t))


def _str_count(interp, s, sub):
    if sub == ".":
        # only "contains a dot or not" is expressible: returned as 0 / positive
        n = interp.eng.fresh("count", z3.IntSort())
        interp.eng.assume(n >= 0)
        interp.eng.assume((n == 0) == z3.Not(z3.Contains(s.t, z3.StringVal("."))))
        return SV(n)
    raise OutOfReach("str.count")


_STR_METHODS = {"startswith": _str_startswith, "count": _str_count}


def _dict_get(interp, d, k, default=None):
    kk = interp.dict_find(d, k)
    return default if kk is _NOKEY else d[kk]


def _dict_pop(interp, d, k, *default):
    kk = interp.dict_find(d, k)
    if kk is not _NOKEY:
        return d.pop(kk)
    if default:
        return default[0]
    raise exc("KeyError", k)


SYMVIEW_KEY = "__pyvc_symbolic_part__"


def _dict_update(interp, d, other=None, **kw):
    if isinstance(other, MapView):
        # a local dict receiving the content of a symbolic map: keep a private copy as its 'symbolic part'
        from .values import FieldsDict
        if isinstance(d, FieldsDict) and "__symdict__" not in d:
            # obj.__dict__.update(symbolic map): from now on the instance dictionary is a symbolic map - the map's entries,
            # plus the attributes the object already had under the names the map does not contain
            sd = _map_copy(interp, other)
            for k in [k for k in d if isinstance(k, str) and not k.startswith("_")]:
                key = PartV(part_const(k))
                if not interp.eng.branch(other.has(key), f"update.overrides[{k}]"):
                    sd.setitem(key, d[k])
                del d[k]
            d["__symdict__"] = sd
            return
        if SYMVIEW_KEY in d:
            raise OutOfReach("dict.update(symbolic map) on a local dict that already has a symbolic part")
        # entries the dict already has are overwritten by the map's entries of the same key (decided per key by branching);
        # the other keys of the map become the dict's 'symbolic part' (consulted after the concrete entries)
        for k in list(d.keys()):
            kk = k.key if isinstance(k, SymKey) else k
            try:
                present = other.has(kk)
            except OutOfReach:
                continue    # a key of another sort cannot be in the map
            if interp.eng.branch(present, f"update.overrides[{kk}]"):
                d[k] = other.getitem(kk)
        d[SYMVIEW_KEY] = _map_copy(interp, other)
        return
    if other is not None:
        if isinstance(other, dict):
            for k, v in other.items():
                interp.setitem(d, k.key if isinstance(k, SymKey) else k, v)
        else:
            raise OutOfReach("dict.update with symbolic map")
    for k, v in kw.items():
        d[k] = v


def _list_index(interp, l, x):
    for j, y in enumerate(l):
        r = interp.eq(y, x)
        if r is True or (r is not False and interp.branch_truth(interp.wrapb(r), "list.index")):
            return j
    raise exc("ValueError", "x not in list")


def _list_append(interp, l, x):
    l.append(x)


_CONCRETE_METHODS = {
    ("dict", "get"): _dict_get,
    ("dict", "pop"): _dict_pop,
    ("dict", "update"): _dict_update,
    ("dict", "copy"): lambda i, d: dict(d),
    ("dict", "items"): lambda i, d: DictItems(d),
    ("dict", "keys"): lambda i, d: [k.key if isinstance(k, SymKey) else k for k in d.keys()],
    ("dict", "values"): lambda i, d: list(d.values()),
    ("dict", "setdefault"): lambda i, d, k, v=None: d.setdefault(k, v),
    ("dict", "clear"): lambda i, d: d.clear(),
    ("list", "append"): _list_append,
    ("list", "extend"): lambda i, l, xs: l.extend(i.iterate(xs)),
    ("list", "pop"): lambda i, l, *a: l.pop(*a),
    ("list", "copy"): lambda i, l: list(l),
    ("list", "insert"): lambda i, l, k, x: l.insert(k, x),
    ("list", "remove"): lambda i, l, x: l.remove(x),
    ("list", "clear"): lambda i, l: l.clear(),
    ("list", "reverse"): lambda i, l: l.reverse(),
    ("list", "index"): lambda i, l, x: _list_index(i, l, x),
    ("SymPySet", "add"): lambda i, s, x: i.pyset_add(s, x),
    ("SymPySet", "copy"): lambda i, s: SymPySet(s),
    ("SymPySet", "issubset"): lambda i, s, o: all(i.branch_truth(i.wrapb(i.contains(o, x)), "issubset") for x in s),
    ("SymPySet", "union"): lambda i, s, *o: _set_union(i, s, *o),
    ("SymPySet", "difference"): lambda i, s, o: SymPySet([x for x in s if i.contains(o, x) is False or
                                                          (i.contains(o, x) is not True and not i.branch_truth(i.wrapb(i.contains(o, x)), "diff"))]),
    ("SymPySet", "discard"): lambda i, s, x: _pyset_discard(i, s, x),
    ("SymPySet", "remove"): lambda i, s, x: _pyset_remove(i, s, x),
    ("SymPySet", "update"): lambda i, s, *o: [i.pyset_add(s, x) for oo in o for x in i.iterate(oo)] and None,
    ("str", "split"): lambda i, s, *a: s.split(*a),
    ("str", "count"): lambda i, s, x: s.count(x),
    ("str", "startswith"): lambda i, s, x: s.startswith(x),
    ("str", "endswith"): lambda i, s, x: s.endswith(x),
    ("str", "lower"): lambda i, s: s.lower(),
    ("str", "strip"): lambda i, s, *a: s.strip(*a),
    ("str", "join"): lambda i, s, xs: i.concat_str(_interleave(s, list(i.iterate(xs)))),
    ("str", "format"): lambda i, s, *a, **k: s.format(*a, **k),
    ("str", "find"): lambda i, s, x: s.find(x),
    ("str", "replace"): lambda i, s, a, b: s.replace(a, b),
    ("tuple", "count"): lambda i, t, x: t.count(x),
}


def _pyset_remove(i, s, x):
    r = i.contains(s, x)
    if r is False or (r is not True and not i.branch_truth(i.wrapb(r), "set.remove")):
        raise exc("KeyError", x)
    _pyset_discard(i, s, x)


def _set_union(i, s, *others):
    out = SymPySet(s)
    for o in others:
        for x in (o if isinstance(o, (SymPySet, list, tuple)) else i.iterate(o)):
            i.pyset_add(out, x)
    return out


def _pyset_discard(i, s, x):
    for k, o in enumerate(list(s)):
        r = i.eq(x, o)
        if r is True or (r is not False and i.eng.branch(r, "setdup")):
            del s[k]
            return


def _interleave(sep, xs):
    out = []
    for k, x in enumerate(xs):
        if k:
            out.append(sep)
        out.append(x)
    return out


# ---- builtins ---------------------------------------------------------------------------------------------
def _b_len(interp, v):
    if isinstance(v, Rec) and "__len__" in v._fields:
        return interp.call(v._fields["__len__"], [], {})
    if isinstance(v, PartsList):
        return v.length()
    if isinstance(v, SymPySet):
        return len(interp.pyset_distinct(v))
    if isinstance(v, (list, tuple, dict, str, set, bytes)):
        return len(v)
    if isinstance(v, (MapView, SetView)):
        # only emptiness is expressible: return a symbolic int constrained by emptiness
        n = interp.eng.fresh("len", z3.IntSort())
        interp.eng.assume(n >= 0)
        interp.eng.assume((n == 0) == v.is_empty())
        return SV(n)
    if isinstance(v, SV) and z3.is_seq(v.t):
        return SV(z3.Length(v.t))
    if hasattr(v, "sym_len"):
        return v.sym_len(interp)
    raise OutOfReach(f"len of {type(v).__name__}")


def _b_isinstance(interp, v, cls):
    return interp.isinstance_(v, cls)


def _b_type(interp, v):
    return interp.type_of(v)


def _b_str(interp, v=""):
    if isinstance(v, (str, DName, PartV)):
        return v
    if isinstance(v, ExcVal) and all(isinstance(a, str) for a in v.args):
        return v.args[0] if len(v.args) == 1 else ("" if not v.args else str(v.args))
    if isinstance(v, Rec) and "__str__" in v._fields:
        return interp.call(v._fields["__str__"], [], {})
    if isinstance(v, SV) and v.t.sort() == z3.StringSort():
        return v
    return SV(interp.str_of(v))


def _b_getattr(interp, obj, name, *default):
    if isinstance(name, PartV) and isinstance(obj, Rec) and obj._fields.get("__symdict__") is not None:
        sd = obj._fields["__symdict__"]
        if interp.eng.branch(sd.has(name), "symattr"):
            return sd.getitem(name)
        hook = obj._fields.get("__class_attr__")
        if hook is not None:
            r = hook(interp, name)
            if r is not None:
                return r
        if default:
            return default[0]
        raise exc("AttributeError", name)
    if isinstance(name, PartV) and isinstance(obj, Rec):
        # symbolic attribute name against the concrete fields of a record
        for f, v in obj._fields.items():
            if f.startswith("_"):
                continue
            if interp.eng.branch(name.t == part_const(f), f"attr=={f}"):
                return v
        if default:
            return default[0]
        raise exc("AttributeError", name)
    if isinstance(name, PartV) and obj is None:
        if default:
            return default[0]
        raise exc("AttributeError", name)
    if isinstance(name, PartV) and isinstance(obj, SV):
        o = interp.split_none(obj)
        if o is None:
            if default:
                return default[0]
            raise exc("AttributeError", name)
        hook = interp.method_tables.get((o.t.sort().name(), "getattr_sym"))
        if hook is not None:
            return hook(interp, o, name, *default)
    if not isinstance(name, str):
        raise OutOfReach("getattr with symbolic name")
    try:
        return interp.getattr_(obj, name)
    except Raised as r:
        if default and "AttributeError" in r.exc.cls.mro_names():
            return default[0]
        raise


def _b_hasattr(interp, obj, name):
    try:
        interp.getattr_(obj, name)
        return True
    except Raised as r:
        if "AttributeError" in r.exc.cls.mro_names():
            return False
        raise


def _b_set(interp, it=None):
    s = SymPySet()
    if it is not None:
        for x in interp.iterate(it):
            interp.pyset_add(s, x)
    return s


def _b_list(interp, it=None):
    return list(interp.iterate(it)) if it is not None else []


def _b_dict(interp, src=None, **kw):
    d = {}
    if src is not None:
        if isinstance(src, dict):
            d.update(src)
        else:
            for k, v in interp.iterate(src):
                d[k] = v
    d.update(kw)
    return d


def _b_sorted(interp, it, key=None, reverse=False):
    """sorted() with a key evaluated by the interpreter; keys must be concrete (bool / int / str) - stable like CPython."""
    items = list(interp.iterate(it))
    if key is None:
        return sorted(items, reverse=bool(reverse))
    keys = []
    for x in items:
        kv = interp.call(key, [x], {})
        if isinstance(kv, SV):
            kv = interp.branch_truth(kv, "sorted.key") if z3.is_bool(kv.t) else kv
        if not isinstance(kv, (bool, int, float, str)):
            raise OutOfReach(f"sorted(): symbolic sort key {kv!r}")
        keys.append(kv)
    order = sorted(range(len(items)), key=lambda j: keys[j], reverse=bool(reverse))
    return [items[j] for j in order]


def _b_any(interp, it):
    for x in interp.iterate(it):
        if interp.branch_truth(x, "any"):
            return True
    return False


def _b_all(interp, it):
    for x in interp.iterate(it):
        if not interp.branch_truth(x, "all"):
            return False
    return True


def _b_zip(interp, *its):
    return list(zip(*[interp.iterate(i) for i in its]))


def _b_float(interp, v):
    if isinstance(v, SV):
        if v.t.sort() == z3.IntSort():
            return SV(z3.ToReal(v.t))
        if v.t.sort() == z3.RealSort():
            return v
        raise OutOfReach("float() of symbolic non-number")
    return float(v)


def _b_callable(interp, v):
    return isinstance(v, (FuncVal, BoundMethod, ClassRec, PyTypeTok)) or (callable(v) and not isinstance(v, (SV, Rec)))


_TYPE_CTORS = {
    "set": _b_set, "list": _b_list, "dict": _b_dict, "str": _b_str, "float": _b_float,
    "tuple": lambda i, it=(): tuple(i.iterate(it)),
    "bool": lambda i, v=False: i.wrapb(i.truth(v)),
    "int": lambda i, v=0: v if isinstance(v, (int, SV)) else int(v),
}

DEFAULT_BUILTINS.update(EXC)
DEFAULT_BUILTINS.update(TYPES)
DEFAULT_BUILTINS.update({
    "len": _b_len, "isinstance": _b_isinstance, "type": _b_type, "getattr": _b_getattr, "hasattr": _b_hasattr,
    "any": _b_any, "all": _b_all, "zip": _b_zip, "callable": _b_callable,
    "enumerate": lambda i, it, start=0: list(enumerate(i.iterate(it), start)),
    "reversed": lambda i, it: list(reversed(i.iterate(it))),
    "range": lambda i, *a: list(range(*a)),
    "sorted": _b_sorted,
    "min": lambda i, *a: min(*a), "max": lambda i, *a: max(*a),
    "id": lambda i, v: id(v),
    "repr": lambda i, v: repr(v) if isinstance(v, (int, str, float, bool, type(None))) else SV(i.str_of(v)),
    "True": True, "False": False, "None": None,
    "super": lambda i: i.do_super(),
    "ord": lambda i, c: ord(c), "chr": lambda i, n: chr(n), "abs": lambda i, x: abs(x) if not isinstance(x, SV) else SV(z3.If(x.t >= 0, x.t, -x.t)),
    "vars": lambda i, *a: {},
})

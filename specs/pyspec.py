"""Spec functions of the EFFECT domain: what the Python Language Reference (3.12) prescribes for each AST node
class, written against the primitives of pyvc.effect.EffectInterp.  Every child of a template is either an Opaque
node (induction hypothesis Ev) or a structural sub-node (Slice, Starred, keyword, target) handled here.

References: Language Reference 6 (expressions: evaluation order 6.16, comparisons 6.10, boolean operations 6.11,
calls 6.3.4, displays 6.2.4-6.2.7, f-strings 2.4.3), 7.2 (assignment statements), 7.2.1 (augmented), 7.5 (del).
"""
from __future__ import annotations

import ast

import z3

from pyvc.effect import Opaque, EStr, Splice, SpliceKw, ObjS, OpaqueExc
from pyvc.interp import Raised, ExcVal, EXC, exc
from pyvc.values import SV

OPN = lambda op: type(op).__name__


class PySpec:
    def __init__(self, it, vars_):
        self.it = it
        self.vars = vars_  # VarStore-like record (same primitives as the implementation side uses)

    # -------------------------------------------------------------------------------------------
    def ev(self, n):
        m = getattr(self, "ev_" + n.__class__.__name__, None)
        if m is None:
            raise NotImplementedError(f"spec for {n.__class__.__name__}")
        return m(n)

    def ev_Opaque(self, n):
        return self.it.Ev(n)

    def ev_Constant(self, n):
        return n.value

    def ev_BinOp(self, n):
        a = self.ev(n.left)
        b = self.ev(n.right)
        return self.it.prim(f"binop.{OPN(n.op)}", [a, b])

    def ev_UnaryOp(self, n):
        a = self.ev(n.operand)
        if isinstance(n.op, ast.Not):
            return SV(z3.Not(self.it.truth(a)))
        return self.it.prim(f"unary.{OPN(n.op)}", [a])

    def ev_BoolOp(self, n):
        is_and = isinstance(n.op, ast.And)
        v = None
        for i, e in enumerate(n.values):
            v = self.ev(e)
            if i == len(n.values) - 1:
                return v
            t = self.it.branch_truth(v, f"spec.bool{i}")
            if is_and != t:
                return v
        return v

    def test(self, n, tag):
        """The truth of an expression used as a CONDITION (if / while / assert / conditional expression / comprehension
        condition).  The Language Reference defines `x or y` as a value and the statement then tests that value; CPython
        compiles and / or / not / conditional expressions / comparison chains that stand in a condition into jumps, so
        the truth of each operand is tested exactly once.  "Like Python" is taken to mean what CPython does (the native
        differential is the arbiter)."""
        it = self.it
        if isinstance(n, ast.BoolOp):
            is_and = isinstance(n.op, ast.And)
            for i, e in enumerate(n.values):
                if self.test(e, f"{tag}.b{i}") != is_and:
                    return not is_and
            return is_and
        if isinstance(n, ast.UnaryOp) and isinstance(n.op, ast.Not):
            return not self.test(n.operand, tag + ".not")
        if isinstance(n, ast.IfExp):
            return self.test(n.body if self.test(n.test, tag + ".c") else n.orelse, tag + ".v")
        if isinstance(n, ast.Compare) and len(n.ops) > 1:
            cur = self.ev(n.left)
            for i, (op, r) in enumerate(zip(n.ops, n.comparators)):
                nxt = self.ev(r)
                res = self.cmp(op, cur, nxt)
                if not it.branch_truth(res, f"{tag}.cmp{i}"):
                    return False
                cur = nxt
            return True
        return it.branch_truth(self.ev(n), tag)

    def ev_IfExp(self, n):
        if self.test(n.test, "spec.ifexp"):
            return self.ev(n.body)
        return self.ev(n.orelse)

    def ev_Compare(self, n):
        cur = self.ev(n.left)
        res = None
        for i, (op, r) in enumerate(zip(n.ops, n.comparators)):
            nxt = self.ev(r)
            res = self.cmp(op, cur, nxt)
            if i < len(n.ops) - 1 and not self.it.branch_truth(res, f"spec.cmp{i}"):
                return res
            cur = nxt
        return res

    def cmp(self, op, a, b):
        it = self.it
        if isinstance(op, (ast.Is, ast.IsNot)):
            r = it.obj(a) == it.obj(b)
            return SV(r if isinstance(op, ast.Is) else z3.Not(r))
        if isinstance(op, (ast.In, ast.NotIn)):
            r = it.prim("contains", [b, a], "bool").t
            return SV(r if isinstance(op, ast.In) else z3.Not(r))
        return it.prim(f"cmp.{OPN(op)}", [a, b])

    # displays ----------------------------------------------------------------------------------
    def elts(self, elts):
        out = []
        for e in elts:
            if isinstance(e, ast.Starred):
                v = self.ev(e.value)
                out.append(Splice(self.it.prim("unpack_iterable", [v]).t))
            else:
                out.append(self.ev(e))
        return out

    def ev_List(self, n):
        return self.elts(n.elts)

    def ev_Tuple(self, n):
        return tuple(self.elts(n.elts))

    def ev_Set(self, n):
        from pyvc.interp import SymPySet
        vals = self.elts(n.elts)  # no starred in the verified shapes: all elements are evaluated, then BUILD_SET
        s = SymPySet()
        for v in vals:
            if self.it.is_opaque(v):
                self.it.prim("hash", [v], "none")  # hashing a constant has no observable effect
            s.append(v)
        return s

    def ev_Dict(self, n):
        # BUILD_MAP: keys and values are evaluated pairwise, key before value; the map is built afterwards
        pairs = []
        for k, v in zip(n.keys, n.values):
            if k is None:
                raise NotImplementedError("** in dict display: outside the verified shapes")
            kk = self.ev(k)
            vv = self.ev(v)
            pairs.append((kk, vv))
        from pyvc.effect import EKey
        d = {}
        for kk, vv in pairs:
            if self.it.is_opaque(kk):
                self.it.prim("hash", [kk], "none")
                d[EKey(kk.t)] = vv
            else:
                d[kk] = vv
        return d

    def ev_Subscript(self, n):
        v = self.ev(n.value)
        i = self.ev(n.slice)
        return self.it.prim("getitem", [v, i])

    def ev_Slice(self, n):
        lo = self.ev(n.lower) if n.lower else None
        hi = self.ev(n.upper) if n.upper else None
        st = self.ev(n.step) if n.step else None
        return ("slice", lo, hi, st)

    def ev_Attribute(self, n):
        v = self.ev(n.value)
        return self.it.prim(f"getattr.{n.attr}", [v])

    def ev_Call(self, n):
        it = self.it
        f = self.ev(n.func)
        args = self.elts(n.args)
        kws, kwterms = [], []
        for kw in n.keywords:
            v = self.ev(kw.value)
            if kw.arg is None:
                kws.append("**")
                kwterms.append(it.prim("unpack_mapping", [v]).t)
            else:
                kws.append(kw.arg)
                kwterms.append(it.obj(v))
        shape = "".join("*" if isinstance(a, Splice) else "." for a in args)
        # a call of a non-callable object raises TypeError
        if not getattr(it, "assume_callees_callable", False) and \
                not it.eng.branch(z3.Function("is_callable", ObjS, z3.BoolSort())(it.obj(f)), "spec.callable"):
            raise exc("TypeError", "object is not callable")
        ts = [it.obj(f)] + [a.t if isinstance(a, Splice) else it.obj(a) for a in args] + kwterms
        return it.prim(f"call[{shape}|{','.join(kws)}]", ts)

    def ev_JoinedStr(self, n):
        pieces = []
        for v in n.values:
            if isinstance(v, ast.Constant):
                pieces.append(v.value)
            else:
                pieces.append(self.ev_FormattedValue(v))
        if all(isinstance(p, str) for p in pieces):
            return "".join(pieces)
        return EStr(pieces)

    def ev_FormattedValue(self, n):
        it = self.it
        val = self.ev(n.value)
        if n.conversion not in (-1, None):
            val = EStr([it.prim({115: "str", 114: "repr", 97: "ascii"}[n.conversion], [val]).t])  # a str
        spec = self.ev(n.format_spec) if n.format_spec is not None else ""
        if isinstance(val, EStr) and spec == "":
            return val
        if isinstance(val, (str, int, float, bool, type(None))) and isinstance(spec, str):
            return format(val, spec)
        return EStr([it.prim("format", [val, spec]).t])

    def ev_NamedExpr(self, n):
        v = self.ev(n.value)
        self.store_name(n.target.id, v)
        return v

    # comprehensions (6.2.4; CPython 3.12 inlines them, the loop variables stay private to the comprehension) -----
    def _comp(self, gens, emit):
        it = self.it
        names = []
        for g in gens:
            for n in ast.walk(g.target):
                if isinstance(n, ast.Name) and n.id not in names:
                    names.append(n.id)
        saved = {}
        for nm in sorted(names):
            if it.branch_truth(it.wrapb(it.contains(self.vars, nm)), "spec.scope.has"):
                saved[nm] = it.getitem(self.vars, nm)
        try:
            self._comp_loop(gens, 0, emit)
        finally:
            # the enclosing scope's bindings of the loop variables are what they were (also on an exception)
            for nm in sorted(names):
                if nm in saved:
                    it.setitem(self.vars, nm, saved[nm])
                elif it.branch_truth(it.wrapb(it.contains(self.vars, nm)), "spec.scope.has2"):
                    it.delitem(self.vars, nm)

    def _comp_loop(self, gens, i, emit):
        g = gens[i]
        for item in self.it.iterate(self.ev(g.iter)):
            self.assign(g.target, item)
            ok = True
            for c in g.ifs:
                if not self.test(c, "spec.compif"):
                    ok = False
                    break
            if ok:
                if i == len(gens) - 1:
                    emit()
                else:
                    self._comp_loop(gens, i + 1, emit)

    def ev_ListComp(self, n):
        out = []
        self._comp(n.generators, lambda: out.append(self.ev(n.elt)))
        return out

    def ev_SetComp(self, n):
        from pyvc.interp import SymPySet
        out = SymPySet()

        def emit():
            v = self.ev(n.elt)
            self.it.pyset_add(out, v)
        self._comp(n.generators, emit)
        return out

    def ev_DictComp(self, n):
        out = {}

        def emit():
            k = self.ev(n.key)
            v = self.ev(n.value)
            self.it.setitem(out, k, v)
        self._comp(n.generators, emit)
        return out

    # names ---------------------------------------------------------------------------------------
    def store_name(self, name, v):
        self.it.setitem(self.vars, name, v)

    def load_name(self, name):
        if not self.it.branch_truth(self.it.wrapb(self.it.contains(self.vars, name)), "spec.has"):
            raise exc("NameError", name)
        return self.it.getitem(self.vars, name)

    # statements ----------------------------------------------------------------------------------
    def ex(self, n):
        return getattr(self, "ex_" + n.__class__.__name__)(n)

    def ex_Assign(self, n):
        v = self.ev(n.value)
        for t in n.targets:
            self.assign(t, v)

    def assign(self, t, v):
        it = self.it
        if isinstance(t, ast.Name):
            self.store_name(t.id, v)
        elif isinstance(t, ast.Subscript):
            o = self.ev(t.value)
            i = self.ev(t.slice)
            it.prim("setitem", [o, i, v], "none")
        elif isinstance(t, ast.Attribute):
            o = self.ev(t.value)
            it.prim(f"setattr.{t.attr}", [o, v], "none")
        elif isinstance(t, (ast.Tuple, ast.List)):
            items = self.unpack(v, t.elts)
            for e, x in zip(t.elts, items):
                self.assign(e.value if isinstance(e, ast.Starred) else e, x)
        else:
            raise NotImplementedError(f"target {t.__class__.__name__}")

    def unpack(self, v, elts):
        """UNPACK_SEQUENCE / UNPACK_EX on a generic iterable: iter(), then next() once per target (and once more to
        check exhaustion when there is no starred target; a starred target consumes the rest)."""
        it = self.it
        star = [i for i, e in enumerate(elts) if isinstance(e, ast.Starred)]
        n = len(elts)
        iterator = it.prim("iter", [v])
        items = []
        gen = it._iter_opaque(iterator)
        if not star:
            for k in range(n):
                try:
                    items.append(next(gen))
                except StopIteration:
                    raise exc("ValueError", "not enough values to unpack")
            try:
                next(gen)
            except StopIteration:
                return items
            raise exc("ValueError", "too many values to unpack")
        allv = list(gen)
        s = star[0]
        after = n - s - 1
        if len(allv) < n - 1:
            raise exc("ValueError", "not enough values to unpack")
        return allv[:s] + [list(allv[s:len(allv) - after])] + allv[len(allv) - after:]

    def ex_AugAssign(self, n):
        it = self.it
        t = n.target
        if isinstance(t, ast.Name):
            cur = self.load_name(t.id)
            v = self.ev(n.value)
            r = it.prim(f"inplace.{OPN(n.op)}", [cur, v])
            self.store_name(t.id, r)
        elif isinstance(t, ast.Subscript):
            o = self.ev(t.value)
            i = self.ev(t.slice)
            cur = it.prim("getitem", [o, i])
            v = self.ev(n.value)
            r = it.prim(f"inplace.{OPN(n.op)}", [cur, v])
            it.prim("setitem", [o, i, r], "none")
        elif isinstance(t, ast.Attribute):
            o = self.ev(t.value)
            cur = it.prim(f"getattr.{t.attr}", [o])
            v = self.ev(n.value)
            r = it.prim(f"inplace.{OPN(n.op)}", [cur, v])
            it.prim(f"setattr.{t.attr}", [o, r], "none")

    def ex_AnnAssign(self, n):
        # 7.2.2: value (if any) is evaluated and assigned first; for a simple name the annotation is then evaluated
        # and stored in __annotations__ (module level)
        if n.value is not None:
            v = self.ev(n.value)
            self.assign(n.target, v)
        if isinstance(n.target, ast.Name) and n.simple:
            a = self.ev(n.annotation)
            ann = self.it.call(self.it.getattr_(self.vars, "setdefault"), ["__annotations__", {}], {})
            self.it.prim("setitem", [ann, n.target.id, a], "none")

    def ex_Delete(self, n):
        it = self.it
        for t in n.targets:
            if isinstance(t, ast.Name):
                if not it.branch_truth(it.wrapb(it.contains(self.vars, t.id)), "spec.has"):
                    raise exc("NameError", t.id)
                it.delitem(self.vars, t.id)
            elif isinstance(t, ast.Subscript):
                o = self.ev(t.value)
                i = self.ev(t.slice)
                it.prim("delitem", [o, i], "none")
            else:
                raise NotImplementedError("del target")

    def ex_Expr(self, n):
        self.ev(n.value)


# ==============================================================================================================
# statements with completions (Language Reference 7 and 8)
# ==============================================================================================================
class SBreak(Exception):
    pass


class SContinue(Exception):
    pass


class SReturn(Exception):
    def __init__(self, value):
        self.value = value


class PyStmtSpec(PySpec):
    """Compound statements.  A block is a list of child statements; an opaque child statement completes normally,
    with break / continue / return v, or raises (induction hypothesis ExS)."""

    def block(self, stmts):
        for s in stmts:
            self.ex(s)

    def ex_OpaqueStmt(self, n):
        kind, v = self.it.ExS(n)
        if kind == "break":
            raise SBreak()
        if kind == "continue":
            raise SContinue()
        if kind == "return":
            raise SReturn(v)

    def ex_Pass(self, n):
        pass

    def ex_Break(self, n):
        raise SBreak()

    def ex_Continue(self, n):
        raise SContinue()

    def ex_Return(self, n):
        raise SReturn(self.ev(n.value) if n.value is not None else None)

    def ex_If(self, n):
        if self.test(n.test, "spec.if"):
            self.block(n.body)
        else:
            self.block(n.orelse)

    def ex_While(self, n):
        it = self.it
        k = 0
        while True:
            special = isinstance(n.test, (ast.BoolOp, ast.IfExp)) or (isinstance(n.test, ast.UnaryOp) and isinstance(n.test.op, ast.Not)) or \
                (isinstance(n.test, ast.Compare) and len(n.test.ops) > 1)
            if special:
                t = self.test(n.test, f"spec.while{k}")
                if t and k >= it.LOOP_BOUND:
                    it.eng.assume(z3.BoolVal(False))   # shape bound on the number of iterations
                    from pyvc.interp import PathEnd
                    raise PathEnd()
            else:
                t = it.truth(self.ev(n.test))
            if isinstance(t, bool):
                cont = t
            elif k >= it.LOOP_BOUND:
                it.eng.assume(z3.Not(t))
                cont = False
            else:
                cont = it.eng.branch(t, f"spec.while{k}")
            if not cont:
                self.block(n.orelse)  # break / continue here belong to an ENCLOSING loop: they propagate
                return
            k += 1
            try:
                self.block(n.body)
            except SBreak:
                return
            except SContinue:
                continue

    def ex_For(self, n):
        for item in self.it.iterate(self.ev(n.iter)):
            self.assign(n.target, item)
            try:
                self.block(n.body)
            except SBreak:
                return
            except SContinue:
                continue
        self.block(n.orelse)

    def ex_Assert(self, n):
        if not self.test(n.test, "spec.assert"):
            if n.msg is not None:
                m = self.ev(n.msg)
                raise Raised(ExcVal(EXC["AssertionError"], (m,)))
            raise exc("AssertionError")

    def ex_Raise(self, n):
        it = self.it
        if n.exc is None:
            if not self.handling:
                raise exc("RuntimeError", "No active exception to reraise")
            raise Raised(self.handling[-1])
        e = self.ev(n.exc)
        t = it.obj(e)
        if n.cause is not None:
            c = self.ev(n.cause)
            t = z3.Function("with_cause", ObjS, ObjS, ObjS)(t, it.obj(c))
        raise Raised(OpaqueExc(t))

    handling = ()

    def ex_Try(self, n):
        it = self.it
        if not isinstance(self.handling, list):
            self.handling = []
        pending = None
        try:
            try:
                self.block(n.body)
            except Raised as r:
                handled = False
                for h in n.handlers:
                    if h.type is None:
                        match = True
                    else:
                        cls = self.ev(h.type)
                        match = self.matches(r.exc, cls)
                    if match:
                        handled = True
                        if h.name:
                            self.store_name(h.name, r.exc)
                        self.handling.append(r.exc)
                        try:
                            self.block(h.body)
                        finally:
                            self.handling.pop()
                            if h.name:
                                it.delitem(self.vars, h.name)
                        break
                if not handled:
                    raise
            else:
                self.block(n.orelse)
        except (Raised, SBreak, SContinue, SReturn) as sig:
            pending = sig
        if n.finalbody:
            self.block(n.finalbody)  # a completion of the finally block replaces the pending one
        if pending is not None:
            raise pending

    def matches(self, e, cls):
        it = self.it
        if isinstance(cls, tuple):
            return any(self.matches(e, c) for c in cls)
        return it.isinstance_(e, cls) if it.is_opaque(cls) else it.exc_matches(e, cls)

    def ex_With(self, n):
        self._with(n.items, n.body)

    def _with(self, items, body):
        """8.5: with A as a, B as b: BODY  ==  with A as a: with B as b: BODY"""
        it = self.it
        if not items:
            self.block(body)
            return
        item = items[0]
        mgr = self.ev(item.context_expr)
        tp = z3.Function("type_of", ObjS, ObjS)(it.obj(mgr))
        try:
            enter = it.prim("getattr.__enter__", [tp])
            exit_ = it.prim("getattr.__exit__", [tp])
        except Raised as r:
            # 8.5 (3.11+): an object without __enter__ / __exit__ "does not support the context manager protocol": TypeError
            from pyvc.interp import EXC
            if it.exc_matches(r.exc, EXC["AttributeError"]):
                raise exc("TypeError", "object does not support the context manager protocol")
            raise
        value = it.prim("call[.|]", [it.obj(enter), it.obj(mgr)])
        try:
            if item.optional_vars is not None:
                self.assign(item.optional_vars, value)
            self._with(items[1:], body)
        except Raised as r:
            et = it.exc_type_term(r.exc)
            ev = it.exc_term(r.exc)
            tb = z3.Function("traceback_of", ObjS, ObjS)(ev)
            sup = it.prim("call[....|]", [it.obj(exit_), it.obj(mgr), et, ev, tb])
            if it.branch_truth(sup, "spec.suppress"):
                return
            raise
        except (SBreak, SContinue, SReturn):
            it.prim("call[....|]", [it.obj(exit_), it.obj(mgr), it.obj(None), it.obj(None), it.obj(None)])
            raise
        it.prim("call[....|]", [it.obj(exit_), it.obj(mgr), it.obj(None), it.obj(None), it.obj(None)])

    def completion(self, thunk):
        """Run a statement; returns (kind, value)."""
        try:
            thunk()
            return "normal", None
        except SBreak:
            return "break", None
        except SContinue:
            return "continue", None
        except SReturn as r:
            return "return", r.value

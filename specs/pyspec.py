"""Spec functions of the EFFECT domain: what the Python Language Reference (3.12) prescribes for each AST node
class, written against the primitives of pyvc.effect.EffectInterp.  Every child of a template is either an Opaque
node (induction hypothesis Ev) or a structural sub-node (Slice, Starred, keyword, target) handled here.

References: Language Reference 6 (expressions: evaluation order 6.16, comparisons 6.10, boolean operations 6.11,
calls 6.3.4, displays 6.2.4-6.2.7, f-strings 2.4.3), 7.2 (assignment statements), 7.2.1 (augmented), 7.5 (del).
"""
from __future__ import annotations

import ast

import z3

from pyvc.effect import Opaque, EStr, Splice, SpliceKw, ObjS, OpaqueExc
from pyvc.interp import Raised, ExcVal, EXC, exc
from pyvc.values import SV

OPN = lambda op: type(op).__name__


class PySpec:
    def __init__(self, it, vars_):
        self.it = it
        self.vars = vars_  # VarStore-like record (same primitives as the implementation side uses)

    # -------------------------------------------------------------------------------------------
    def ev(self, n):
        m = getattr(self, "ev_" + n.__class__.__name__, None)
        if m is None:
            raise NotImplementedError(f"spec for {n.__class__.__name__}")
        return m(n)

    def ev_Opaque(self, n):
        return self.it.Ev(n)

    def ev_Constant(self, n):
        return n.value

    def ev_BinOp(self, n):
        a = self.ev(n.left)
        b = self.ev(n.right)
        return self.it.prim(f"binop.{OPN(n.op)}", [a, b])

    def ev_UnaryOp(self, n):
        a = self.ev(n.operand)
        if isinstance(n.op, ast.Not):
            return SV(z3.Not(self.it.truth(a)))
        return self.it.prim(f"unary.{OPN(n.op)}", [a])

    def ev_BoolOp(self, n):
        is_and = isinstance(n.op, ast.And)
        v = None
        for i, e in enumerate(n.values):
            v = self.ev(e)
            if i == len(n.values) - 1:
                return v
            t = self.it.branch_truth(v, f"spec.bool{i}")
            if is_and != t:
                return v
        return v

    def ev_IfExp(self, n):
        if self.it.branch_truth(self.ev(n.test), "spec.ifexp"):
            return self.ev(n.body)
        return self.ev(n.orelse)

    def ev_Compare(self, n):
        cur = self.ev(n.left)
        res = None
        for i, (op, r) in enumerate(zip(n.ops, n.comparators)):
            nxt = self.ev(r)
            res = self.cmp(op, cur, nxt)
            if i < len(n.ops) - 1 and not self.it.branch_truth(res, f"spec.cmp{i}"):
                return res
            cur = nxt
        return res

    def cmp(self, op, a, b):
        it = self.it
        if isinstance(op, (ast.Is, ast.IsNot)):
            r = it.obj(a) == it.obj(b)
            return SV(r if isinstance(op, ast.Is) else z3.Not(r))
        if isinstance(op, (ast.In, ast.NotIn)):
            r = it.prim("contains", [b, a], "bool").t
            return SV(r if isinstance(op, ast.In) else z3.Not(r))
        return it.prim(f"cmp.{OPN(op)}", [a, b])

    # displays ----------------------------------------------------------------------------------
    def elts(self, elts):
        out = []
        for e in elts:
            if isinstance(e, ast.Starred):
                v = self.ev(e.value)
                out.append(Splice(self.it.prim("unpack_iterable", [v]).t))
            else:
                out.append(self.ev(e))
        return out

    def ev_List(self, n):
        return self.elts(n.elts)

    def ev_Tuple(self, n):
        return tuple(self.elts(n.elts))

    def ev_Set(self, n):
        from pyvc.interp import SymPySet
        vals = self.elts(n.elts)  # no starred in the verified shapes: all elements are evaluated, then BUILD_SET
        s = SymPySet()
        for v in vals:
            if self.it.is_opaque(v):
                self.it.prim("hash", [v], "none")  # hashing a constant has no observable effect
            s.append(v)
        return s

    def ev_Dict(self, n):
        # BUILD_MAP: keys and values are evaluated pairwise, key before value; the map is built afterwards
        pairs = []
        for k, v in zip(n.keys, n.values):
            if k is None:
                raise NotImplementedError("** in dict display: outside the verified shapes")
            kk = self.ev(k)
            vv = self.ev(v)
            pairs.append((kk, vv))
        from pyvc.effect import EKey
        d = {}
        for kk, vv in pairs:
            if self.it.is_opaque(kk):
                self.it.prim("hash", [kk], "none")
                d[EKey(kk.t)] = vv
            else:
                d[kk] = vv
        return d

    def ev_Subscript(self, n):
        v = self.ev(n.value)
        i = self.ev(n.slice)
        return self.it.prim("getitem", [v, i])

    def ev_Slice(self, n):
        lo = self.ev(n.lower) if n.lower else None
        hi = self.ev(n.upper) if n.upper else None
        st = self.ev(n.step) if n.step else None
        return ("slice", lo, hi, st)

    def ev_Attribute(self, n):
        v = self.ev(n.value)
        return self.it.prim(f"getattr.{n.attr}", [v])

    def ev_Call(self, n):
        it = self.it
        f = self.ev(n.func)
        args = self.elts(n.args)
        kws, kwterms = [], []
        for kw in n.keywords:
            v = self.ev(kw.value)
            if kw.arg is None:
                kws.append("**")
                kwterms.append(it.prim("unpack_mapping", [v]).t)
            else:
                kws.append(kw.arg)
                kwterms.append(it.obj(v))
        shape = "".join("*" if isinstance(a, Splice) else "." for a in args)
        # a call of a non-callable object raises TypeError
        if not getattr(it, "assume_callees_callable", False) and \
                not it.eng.branch(z3.Function("is_callable", ObjS, z3.BoolSort())(it.obj(f)), "spec.callable"):
            raise exc("TypeError", "object is not callable")
        ts = [it.obj(f)] + [a.t if isinstance(a, Splice) else it.obj(a) for a in args] + kwterms
        return it.prim(f"call[{shape}|{','.join(kws)}]", ts)

    def ev_JoinedStr(self, n):
        pieces = []
        for v in n.values:
            if isinstance(v, ast.Constant):
                pieces.append(v.value)
            else:
                pieces.append(self.ev_FormattedValue(v))
        if all(isinstance(p, str) for p in pieces):
            return "".join(pieces)
        return EStr(pieces)

    def ev_FormattedValue(self, n):
        it = self.it
        val = self.ev(n.value)
        if n.conversion not in (-1, None):
            val = EStr([it.prim({115: "str", 114: "repr", 97: "ascii"}[n.conversion], [val]).t])  # a str
        spec = self.ev(n.format_spec) if n.format_spec is not None else ""
        if isinstance(val, EStr) and spec == "":
            return val
        if isinstance(val, (str, int, float, bool, type(None))) and isinstance(spec, str):
            return format(val, spec)
        return EStr([it.prim("format", [val, spec]).t])

    def ev_NamedExpr(self, n):
        v = self.ev(n.value)
        self.store_name(n.target.id, v)
        return v

    # comprehensions (6.2.4; CPython 3.12 inlines them, the loop variables stay private to the comprehension) -----
    def _comp(self, gens, emit):
        it = self.it
        names = []
        for g in gens:
            for n in ast.walk(g.target):
                if isinstance(n, ast.Name) and n.id not in names:
                    names.append(n.id)
        saved = {}
        for nm in sorted(names):
            if it.branch_truth(it.wrapb(it.contains(self.vars, nm)), "spec.scope.has"):
                saved[nm] = it.getitem(self.vars, nm)
        try:
            self._comp_loop(gens, 0, emit)
        finally:
            # the enclosing scope's bindings of the loop variables are what they were (also on an exception)
            for nm in sorted(names):
                if nm in saved:
                    it.setitem(self.vars, nm, saved[nm])
                elif it.branch_truth(it.wrapb(it.contains(self.vars, nm)), "spec.scope.has2"):
                    it.delitem(self.vars, nm)

    def _comp_loop(self, gens, i, emit):
        g = gens[i]
        for item in self.it.iterate(self.ev(g.iter)):
            self.assign(g.target, item)
            ok = True
            for c in g.ifs:
                if not self.it.branch_truth(self.ev(c), "spec.compif"):
                    ok = False
                    break
            if ok:
                if i == len(gens) - 1:
                    emit()
                else:
                    self._comp_loop(gens, i + 1, emit)

    def ev_ListComp(self, n):
        out = []
        self._comp(n.generators, lambda: out.append(self.ev(n.elt)))
        return out

    def ev_SetComp(self, n):
        from pyvc.interp import SymPySet
        out = SymPySet()

        def emit():
            v = self.ev(n.elt)
            self.it.pyset_add(out, v)
        self._comp(n.generators, emit)
        return out

    def ev_DictComp(self, n):
        out = {}

        def emit():
            k = self.ev(n.key)
            v = self.ev(n.value)
            self.it.setitem(out, k, v)
        self._comp(n.generators, emit)
        return out

    # names ---------------------------------------------------------------------------------------
    def store_name(self, name, v):
        self.it.setitem(self.vars, name, v)

    def load_name(self, name):
        if not self.it.branch_truth(self.it.wrapb(self.it.contains(self.vars, name)), "spec.has"):
            raise exc("NameError", name)
        return self.it.getitem(self.vars, name)

    # statements ----------------------------------------------------------------------------------
    def ex(self, n):
        return getattr(self, "ex_" + n.__class__.__name__)(n)

    def ex_Assign(self, n):
        v = self.ev(n.value)
        for t in n.targets:
            self.assign(t, v)

    def assign(self, t, v):
        it = self.it
        if isinstance(t, ast.Name):
            self.store_name(t.id, v)
        elif isinstance(t, ast.Subscript):
            o = self.ev(t.value)
            i = self.ev(t.slice)
            it.prim("setitem", [o, i, v], "none")
        elif isinstance(t, ast.Attribute):
            o = self.ev(t.value)
            it.prim(f"setattr.{t.attr}", [o, v], "none")
        elif isinstance(t, (ast.Tuple, ast.List)):
            items = self.unpack(v, t.elts)
            for e, x in zip(t.elts, items):
                self.assign(e.value if isinstance(e, ast.Starred) else e, x)
        else:
            raise NotImplementedError(f"target {t.__class__.__name__}")

    def unpack(self, v, elts):
        """UNPACK_SEQUENCE / UNPACK_EX on a generic iterable: iter(), then next() once per target (and once more to
        check exhaustion when there is no starred target; a starred target consumes the rest)."""
        it = self.it
        star = [i for i, e in enumerate(elts) if isinstance(e, ast.Starred)]
        n = len(elts)
        iterator = it.prim("iter", [v])
        items = []
        gen = it._iter_opaque(iterator)
        if not star:
            for k in range(n):
                try:
                    items.append(next(gen))
                except StopIteration:
                    raise exc("ValueError", "not enough values to unpack")
            try:
                next(gen)
            except StopIteration:
                return items
            raise exc("ValueError", "too many values to unpack")
        allv = list(gen)
        s = star[0]
        after = n - s - 1
        if len(allv) < n - 1:
            raise exc("ValueError", "not enough values to unpack")
        return allv[:s] + [list(allv[s:len(allv) - after])] + allv[len(allv) - after:]

    def ex_AugAssign(self, n):
        it = self.it
        t = n.target
        if isinstance(t, ast.Name):
            cur = self.load_name(t.id)
            v = self.ev(n.value)
            r = it.prim(f"inplace.{OPN(n.op)}", [cur, v])
            self.store_name(t.id, r)
        elif isinstance(t, ast.Subscript):
            o = self.ev(t.value)
            i = self.ev(t.slice)
            cur = it.prim("getitem", [o, i])
            v = self.ev(n.value)
            r = it.prim(f"inplace.{OPN(n.op)}", [cur, v])
            it.prim("setitem", [o, i, r], "none")
        elif isinstance(t, ast.Attribute):
            o = self.ev(t.value)
            cur = it.prim(f"getattr.{t.attr}", [o])
            v = self.ev(n.value)
            r = it.prim(f"inplace.{OPN(n.op)}", [cur, v])
            it.prim(f"setattr.{t.attr}", [o, r], "none")

    def ex_AnnAssign(self, n):
        # 7.2.2: value (if any) is evaluated and assigned first; for a simple name the annotation is then evaluated
        # and stored in __annotations__ (module level)
        if n.value is not None:
            v = self.ev(n.value)
            self.assign(n.target, v)
        if isinstance(n.target, ast.Name) and n.simple:
            a = self.ev(n.annotation)
            ann = self.it.call(self.it.getattr_(self.vars, "setdefault"), ["__annotations__", {}], {})
            self.it.prim("setitem", [ann, n.target.id, a], "none")

    def ex_Delete(self, n):
        it = self.it
        for t in n.targets:
            if isinstance(t, ast.Name):
                if not it.branch_truth(it.wrapb(it.contains(self.vars, t.id)), "spec.has"):
                    raise exc("NameError", t.id)
                it.delitem(self.vars, t.id)
            elif isinstance(t, ast.Subscript):
                o = self.ev(t.value)
                i = self.ev(t.slice)
                it.prim("delitem", [o, i], "none")
            else:
                raise NotImplementedError("del target")

    def ex_Expr(self, n):
        self.ev(n.value)

"""Native replay of solver counterexamples against the REAL code in /repo (DESIGN 3.2).

Every scenario imports custom_components.pyscript from the current working tree of /repo, drives the real
functions with the concrete input taken from the solver model, and compares the observed behaviour with what
the property demands.  Returns {"reproduced": bool, "observed": ..., "expected": ...}.
Scenarios run in a subprocess so that class-level tables of the package start empty each time.
"""
from __future__ import annotations

import json
import os
import subprocess
import sys

VERIF = os.path.dirname(os.path.dirname(os.path.abspath(__file__)))
REPO = os.environ.get("PYVC_REPO", "/repo")


def run_native(scenario, witness, timeout=120):
    timeout = timeout * 2   # wall-clock guard only; generous so that a loaded machine does not turn a replay into an error
    env = dict(os.environ)
    env["PYTHONPATH"] = REPO + os.pathsep + VERIF
    try:
        p = subprocess.run([sys.executable, "-m", "replay.scenarios", scenario, json.dumps(witness, default=str)],
                           capture_output=True, text=True, cwd=REPO, env=env, timeout=timeout)
    except subprocess.TimeoutExpired:
        return {"reproduced": False, "error": f"native scenario {scenario} did not finish within {timeout}s"}
    last = [l for l in p.stdout.strip().splitlines() if l.startswith("{")]
    if p.returncode != 0 or not last:
        return {"reproduced": False, "error": (p.stderr or p.stdout)[-3000:]}
    return json.loads(last[-1])

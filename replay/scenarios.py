"""Concrete scenarios driven against the real package (imported from cwd=/repo)."""
from __future__ import annotations

import asyncio
import json
import sys
from types import SimpleNamespace


def stub_hass(loop):
    from custom_components.pyscript.const import DOMAIN, CONFIG_ENTRY
    listeners = {}
    services = {}
    states = {}

    def async_listen(event_type, cb):
        listeners.setdefault(event_type, []).append(cb)

        def remove():
            listeners[event_type].remove(cb)
        return remove

    bus = SimpleNamespace(async_listen=async_listen, listeners=listeners, fired=[],
                          async_fire=lambda et, data=None, context=None: bus.fired.append((et, data, context)))

    def async_register(domain, service, cb, supports_response=None):
        services[(domain, service)] = cb

    def async_remove(domain, service):
        services.pop((domain, service), None)

    svc = SimpleNamespace(async_register=async_register, async_remove=async_remove, table=services,
                          has_service=lambda d, s: (d, s) in services, calls=[])
    hass = SimpleNamespace(data={DOMAIN: {CONFIG_ENTRY: SimpleNamespace(data={})}}, loop=loop, services=svc,
                           states=SimpleNamespace(table=states), bus=bus,
                           async_create_task=lambda c: loop.create_task(c),
                           async_create_background_task=lambda c, name=None: loop.create_task(c))
    return hass


async def boot(legacy=False):
    from custom_components.pyscript.function import Function
    from custom_components.pyscript.state import State
    from custom_components.pyscript.event import Event
    loop = asyncio.get_running_loop()
    hass = stub_hass(loop)
    Function.hass = hass
    State.hass = hass
    Event.hass = hass
    Function.task_reaper = None
    Function.task_waiter = None
    Function.init(hass)
    State.init(hass)
    Event.init(hass)
    return hass


async def shutdown():
    from custom_components.pyscript.function import Function
    await Function.waiter_sync()
    await Function.waiter_stop()
    await Function.reaper_stop()


# ---------------------------------------------------------------------------------------------------------
async def c13_ctx_collision(w):
    """Two tasks in DIFFERENT global contexts; property: their task.unique names never interact."""
    from custom_components.pyscript.function import Function
    await boot()
    ctx1 = SimpleNamespace(get_global_ctx_name=lambda: w["ctx1"])
    ctx2 = SimpleNamespace(get_global_ctx_name=lambda: w["ctx2"])
    u1 = Function.task_unique_factory(ctx1)
    u2 = Function.task_unique_factory(ctx2)
    log = []

    async def a():
        await u1(w["name1"])
        log.append("a-owns")
        try:
            await asyncio.sleep(1)
            log.append("a-finished")
        except asyncio.CancelledError:
            log.append("a-cancelled")
            raise

    async def b():
        await asyncio.sleep(0.05)
        await u2(w["name2"])
        log.append("b-owns")

    ta = Function.create_task(a())
    tb = Function.create_task(b())
    await asyncio.wait([ta, tb], timeout=3)
    await shutdown()
    reproduced = "a-cancelled" in log
    return {"reproduced": reproduced, "observed": log,
            "expected": "task of context %r keeps running: contexts %r and %r are different" % (w["ctx1"], w["ctx1"], w["ctx2"])}


SCENARIOS = {k: v for k, v in list(globals().items()) if asyncio.iscoroutinefunction(v) and k[0] == "c"}

if __name__ == "__main__":
    name, wj = sys.argv[1], json.loads(sys.argv[2])
    res = asyncio.run(SCENARIOS[name](wj))
    print(json.dumps(res, default=str))

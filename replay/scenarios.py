"""Concrete scenarios driven against the real package (imported from cwd=/repo)."""
from __future__ import annotations

import asyncio
import json
import sys
from types import SimpleNamespace


import logging

LOGS = []


class _Cap(logging.Handler):
    def emit(self, record):
        LOGS.append(record)


logging.getLogger("custom_components.pyscript").addHandler(_Cap())
logging.getLogger("custom_components.pyscript").setLevel(logging.INFO)


def stub_hass(loop):
    from custom_components.pyscript.const import DOMAIN, CONFIG_ENTRY
    listeners = {}
    services = {}
    states = {}

    def async_listen(event_type, cb):
        listeners.setdefault(event_type, []).append(cb)

        def remove():
            listeners[event_type].remove(cb)
        return remove

    bus = SimpleNamespace(async_listen=async_listen, listeners=listeners, fired=[],
                          async_fire=lambda et, data=None, context=None: bus.fired.append((et, data, context)))

    def async_register(domain, service, cb, supports_response=None):
        services[(domain, service)] = cb

    def async_remove(domain, service):
        services.pop((domain, service), None)

    svc = SimpleNamespace(async_register=async_register, async_remove=async_remove, table=services,
                          has_service=lambda d, s: (d, s) in services, calls=[],
                          supports_response=lambda d, s: "none", async_services=lambda: {}, async_services_internal=lambda: {},
                          async_services_for_domain=lambda d: {})
    hass = SimpleNamespace(data={DOMAIN: {CONFIG_ENTRY: SimpleNamespace(data={})}}, loop=loop, services=svc,
                           config=SimpleNamespace(path=lambda *a: "/nonexistent/pyscript_replay"),
                           async_add_executor_job=lambda fn, *a: _executor_job(loop, fn, *a),
                           states=SimpleNamespace(table=states), bus=bus,
                           async_create_task=lambda c: loop.create_task(c),
                           async_create_background_task=lambda c, name=None: loop.create_task(c))
    return hass


async def _executor_job(loop, fn, *a):
    return fn(*a)


async def boot(legacy=False):
    from custom_components.pyscript.function import Function
    from custom_components.pyscript.state import State
    from custom_components.pyscript.event import Event
    loop = asyncio.get_running_loop()
    hass = stub_hass(loop)
    Function.hass = hass
    State.hass = hass
    Event.hass = hass
    Function.task_reaper = None
    Function.task_waiter = None
    Function.init(hass)
    State.init(hass)
    Event.init(hass)
    return hass


async def boot_full(legacy=False, allow_all_imports=False):
    """Everything needed to run script source through the real interpreter and decorator subsystems."""
    hass = await boot()
    from custom_components.pyscript.const import DOMAIN, CONFIG_ENTRY
    from custom_components.pyscript.function import Function
    from custom_components.pyscript.state import State
    from custom_components.pyscript.trigger import TrigTime
    from custom_components.pyscript.global_ctx import GlobalContextMgr
    from custom_components.pyscript.decorator import DecoratorRegistry
    hass.data[DOMAIN][CONFIG_ENTRY] = SimpleNamespace(data={"allow_all_imports": allow_all_imports,
                                                            "legacy_decorators": legacy})
    State.register_functions()
    # Home Assistant's service-description loader needs a real HomeAssistant object (translations, integrations): outside
    # the repository, stubbed here as "no service has a description" (listed as an assumption in the evidence)
    import custom_components.pyscript.state as _state_mod

    async def _no_descriptions(_hass):
        return {}
    _state_mod.async_get_all_descriptions = _no_descriptions
    TrigTime.init(hass)
    try:
        GlobalContextMgr.init()
    except Exception:  # noqa
        pass
    DecoratorRegistry.init(hass, SimpleNamespace(data={"legacy_decorators": legacy}))
    return hass


async def run_source(ctx_name, source, global_ctx=None, sym=None):
    from custom_components.pyscript.eval import AstEval
    from custom_components.pyscript.function import Function
    from custom_components.pyscript.global_ctx import GlobalContext, GlobalContextMgr
    if global_ctx is None:
        global_ctx = GlobalContext(ctx_name, global_sym_table={"__name__": ctx_name}, manager=GlobalContextMgr)
        GlobalContextMgr.set(ctx_name, global_ctx)
        global_ctx.set_auto_start(True)
    ast_ctx = AstEval(ctx_name, global_ctx=global_ctx)
    Function.install_ast_funcs(ast_ctx)
    ast_ctx.parse(source)
    exc = None
    try:
        await ast_ctx.eval(sym or {})
    except Exception as e:  # noqa
        exc = e
    return global_ctx, ast_ctx, exc


async def settle(n=5):
    for _ in range(n):
        await asyncio.sleep(0)


async def shutdown():
    from custom_components.pyscript.function import Function
    await Function.waiter_sync()
    await Function.waiter_stop()
    await Function.reaper_stop()


# ---------------------------------------------------------------------------------------------------------
async def c13_ctx_collision(w):
    """Two tasks in DIFFERENT global contexts; property: their task.unique names never interact."""
    from custom_components.pyscript.function import Function
    await boot()
    ctx1 = SimpleNamespace(get_global_ctx_name=lambda: w["ctx1"])
    ctx2 = SimpleNamespace(get_global_ctx_name=lambda: w["ctx2"])
    u1 = Function.task_unique_factory(ctx1)
    u2 = Function.task_unique_factory(ctx2)
    log = []

    async def a():
        await u1(w["name1"])
        log.append("a-owns")
        try:
            await asyncio.sleep(1)
            log.append("a-finished")
        except asyncio.CancelledError:
            log.append("a-cancelled")
            raise

    async def b():
        await asyncio.sleep(0.05)
        await u2(w["name2"])
        log.append("b-owns")

    ta = Function.create_task(a())
    tb = Function.create_task(b())
    await asyncio.wait([ta, tb], timeout=3)
    await shutdown()
    reproduced = "a-cancelled" in log
    return {"reproduced": reproduced, "observed": log,
            "expected": "task of context %r keeps running: contexts %r and %r are different" % (w["ctx1"], w["ctx1"], w["ctx2"])}


async def c12_duplicate_service_name(w):
    """@service with the same name listed twice in ONE decorator; then the function is deleted.
    Property: the service is registered exactly while a live function declares it."""
    from custom_components.pyscript.function import Function
    out = {}
    for legacy in (True,):
        hass = await boot_full(legacy=legacy)
        src = '@service("pyscript.dup", "pyscript.dup")\ndef f():\n    pass\n'
        gctx, actx, exc = await run_source("file.dupdemo", src)
        await settle()
        during = hass.services.has_service("pyscript", "dup")
        g2, a2, exc2 = await run_source("file.dupdemo", "del f\n", global_ctx=gctx)
        await settle(10)
        import gc
        gc.collect()
        await settle(10)
        after = hass.services.has_service("pyscript", "dup")
        out["legacy" if legacy else "new"] = {"registered_while_declared": during, "registered_after_delete": after,
                                             "exc": repr(exc), "exc2": repr(exc2),
                                             "service_cnt": dict(Function.service_cnt)}
        await shutdown()
    rep = any(v["registered_while_declared"] and v["registered_after_delete"] for v in out.values())
    return {"reproduced": rep, "observed": out, "expected": "pyscript.dup is not registered after its only function is deleted"}


async def c12_owner_is_evaluator_name(w):
    """New subsystem: a @service function redefined from inside a function of the SAME global context."""
    hass = await boot_full(legacy=False)
    src = ('@service("pyscript.redef")\ndef f():\n    pass\n\n'
           'def redefine():\n    global f\n    @service("pyscript.redef")\n    def f():\n        return 2\n')
    gctx, actx, exc = await run_source("file.owner", src)
    await settle(10)
    from custom_components.pyscript.eval import AstEval
    from custom_components.pyscript.function import Function
    # call redefine() from an evaluator whose name differs from the global context name (as trigger/service runs do)
    actx2 = AstEval("file.owner.redefine", global_ctx=gctx)
    Function.install_ast_funcs(actx2)
    actx2.parse("redefine()\n")
    err = None
    try:
        await actx2.eval({})
    except Exception as e:  # noqa
        err = e
    await settle(10)
    import gc
    gc.collect()
    await settle(10)
    owner = dict(Function.service2global_ctx)
    still = hass.services.has_service("pyscript", "redef")
    logs = [r.getMessage() for r in LOGS if "already defined" in r.getMessage()]
    await shutdown()
    rep = (err is not None and "already defined" in str(err)) or bool(logs) or not still
    return {"reproduced": rep, "observed": {"error": repr(err), "owners": owner, "service_registered_after_redefinition": still,
                                            "log": logs[:2]},
            "expected": "redefinition inside the same global context file.owner is accepted (same owner)"}


async def c12_refused_name(w):
    """A @service decorator one of whose names is owned by another global context: nothing of that decorator may be
    registered, the service of the earlier (accepted) definition must still reach THAT definition, and unloading every
    context must leave no service behind."""
    from types import SimpleNamespace as NS
    from custom_components.pyscript.function import Function
    from custom_components.pyscript.global_ctx import GlobalContext, GlobalContextMgr
    legacy = w.get("subsystem", "new") == "legacy"
    hass = await boot_full(legacy=legacy)
    Function.service_cnt.clear()
    Function.service2global_ctx.clear()
    calls = []
    ctxs = {}
    for cn in ("file.c12a", "file.c12b"):
        g = GlobalContext(cn, global_sym_table={"__name__": cn, "note": lambda v: calls.append(v)}, manager=GlobalContextMgr)
        GlobalContextMgr.set(cn, g)
        g.set_auto_start(True)
        ctxs[cn] = g
    order = w.get("order", "accepted-first")
    names = "'pyscript.s1', 'pyscript.s2'" if order == "accepted-first" else "'pyscript.s2', 'pyscript.s1'"
    steps = [("file.c12b", "@service('pyscript.s2')\ndef g0():\n    note(0)\n"),
             ("file.c12a", "@service('pyscript.s1')\ndef f1():\n    note(1)\n"),
             ("file.c12a", f"@service({names})\ndef f2():\n    note(2)\n")]
    for cn, src in steps:
        await run_source(cn, src, global_ctx=ctxs[cn])
        await settle(60)
    registered = sorted(f"{d}.{s_}" for (d, s_) in hass.services.table if d == "pyscript" and s_ in ("s1", "s2"))
    ran = {}
    for x in ("s1", "s2"):
        calls.clear()
        cb = hass.services.table.get(("pyscript", x))
        if cb:
            await cb(NS(data={}, context=None, domain="pyscript", service=x))
            await settle(25)
        ran[x] = list(calls)
    for g in ctxs.values():
        g.stop()
    for cn in ctxs:
        GlobalContextMgr.delete(cn)
    await settle(80)
    left = sorted(f"{d}.{s_}" for (d, s_) in hass.services.table if d == "pyscript" and s_ in ("s1", "s2"))
    await shutdown()
    want_ran = {"s1": [1], "s2": [0]}
    rep = registered != ["pyscript.s1", "pyscript.s2"] or ran != want_ran or bool(left)
    return {"reproduced": rep, "observed": {"registered": registered, "definition_reached": ran, "left_after_unload": left},
            "expected": {"registered": ["pyscript.s1", "pyscript.s2"], "definition_reached": want_ran, "left_after_unload": []}}


async def c12_removed_definition_still_called(w):
    """Two live functions of one context declare the same service; the one defined LAST is deleted (or redefined without the
    name).  The service must stay (the older one still declares it) and must now reach the older definition."""
    from types import SimpleNamespace as NS
    from custom_components.pyscript.function import Function
    from custom_components.pyscript.global_ctx import GlobalContext, GlobalContextMgr
    failures, cases = [], 0
    for sub in ("new", "legacy"):
        for how in ("del f2\n", "@service('pyscript.other')\ndef f2():\n    note(3)\n"):
            hass = await boot_full(legacy=(sub == "legacy"))
            Function.service_cnt.clear()
            Function.service2global_ctx.clear()
            calls = []
            g = GlobalContext("file.c12a", global_sym_table={"__name__": "file.c12a", "note": lambda v: calls.append(v)}, manager=GlobalContextMgr)
            GlobalContextMgr.set("file.c12a", g)
            g.set_auto_start(True)
            for src in ("@service('pyscript.s1')\ndef f1():\n    note(1)\n", "@service('pyscript.s1')\ndef f2():\n    note(2)\n", how):
                await run_source("file.c12a", src, global_ctx=g)
                await settle(60)
            cb = hass.services.table.get(("pyscript", "s1"))
            if cb:
                await cb(NS(data={}, context=None, domain="pyscript", service="s1"))
                await settle(25)
            cases += 1
            if cb is None or calls != [1]:
                failures.append({"signature": "c12-call-reaches-removed-definition" if calls == [2] else f"c12-removed-definition:{sub}:{how[:6]}:{calls}",
                                 "subsystem": sub, "last_step": how, "service_registered": cb is not None, "definition_reached": list(calls), "expected": [1]})
            g.stop()
            GlobalContextMgr.delete("file.c12a")
            await settle(80)
            await shutdown()
    # (the same signature for the four variants: one mechanism)
    seen, uniq = set(), []
    for f in failures:
        if f["signature"] not in seen:
            seen.add(f["signature"])
            uniq.append(f)
    return {"unit": "@service reference counting vs Home Assistant's single callback per name", "method": "fixed scenario, both subsystems x (del / redefinition without the name)",
            "bound": "4 fixed histories", "cases": cases, "distinct_nontrivial": cases, "samples": [], "failures": uniq, "reproduced": bool(uniq)}


async def c12_partial_start(w):
    """New subsystem: a @service decorator with two names whose start fails part-way (Home Assistant rejects the service
    description after the first name was registered).  Only what was registered may be undone: the second name, declared by
    another live function of the same context, must stay and still reach that function."""
    from types import SimpleNamespace as NS
    from custom_components.pyscript.function import Function
    from custom_components.pyscript.global_ctx import GlobalContext, GlobalContextMgr
    import custom_components.pyscript.decorators.service as SVC
    hass = await boot_full(legacy=False)
    Function.service_cnt.clear()
    Function.service2global_ctx.clear()
    calls = []
    g = GlobalContext("file.c12a", global_sym_table={"__name__": "file.c12a", "note": lambda v: calls.append(v)}, manager=GlobalContextMgr)
    GlobalContextMgr.set("file.c12a", g)
    g.set_auto_start(True)
    await run_source("file.c12a", "@service('pyscript.s2')\ndef f1():\n    note(1)\n", global_ctx=g)
    await settle(60)
    real = SVC.async_set_service_schema
    n = [0]

    def failing(*a, **k):
        n[0] += 1
        if n[0] == int(w.get("fails_at", 1)):
            raise TypeError("bad service description")
        return real(*a, **k)
    SVC.async_set_service_schema = failing
    try:
        await run_source("file.c12a", "@service('pyscript.s1', 'pyscript.s2')\ndef f2():\n    note(2)\n", global_ctx=g)
        await settle(60)
    finally:
        SVC.async_set_service_schema = real
    registered = sorted(f"{d}.{s_}" for (d, s_) in hass.services.table if d == "pyscript" and s_ in ("s1", "s2"))
    cb = hass.services.table.get(("pyscript", "s2"))
    if cb:
        await cb(NS(data={}, context=None, domain="pyscript", service="s2"))
        await settle(25)
    counts = {k: v for k, v in Function.service_cnt.items() if v}
    g.stop()
    GlobalContextMgr.delete("file.c12a")
    await settle(80)
    await shutdown()
    rep = registered != ["pyscript.s2"] or calls != [1] or counts != {"pyscript.s2": 1}
    return {"reproduced": rep, "observed": {"registered": registered, "s2_reached": list(calls), "counts": counts},
            "expected": {"registered": ["pyscript.s2"], "s2_reached": [1], "counts": {"pyscript.s2": 1}}}


async def c14_late_done_callback(w):
    """task.add_done_callback on a task that has already ended: the record run_coro dropped must not come back."""
    from custom_components.pyscript.function import Function
    await boot()

    async def work():
        return 1
    t = Function.create_task(work())
    await t
    await settle(10)
    before = t in Function.task2cb
    err = None
    try:
        Function.task_add_done_callback(t, None, lambda *a, **k: None)
    except Exception as e:  # noqa
        err = e
    after = t in Function.task2cb
    Function.task2cb.pop(t, None)
    await shutdown()
    return {"reproduced": after or err is None, "observed": {"record_before": before, "record_after": after, "error": repr(err)},
            "expected": "no record for the ended task before or after; the call is refused (KeyError)"}


async def c13_name2id_other_context(w):
    """A function defined in another global context (an imported module function) calls task.unique(name) and then
    task.name2id(name): both resolve the name in the context the function is DEFINED in, so name2id finds the caller's task."""
    from custom_components.pyscript.global_ctx import GlobalContext, GlobalContextMgr
    from custom_components.pyscript.function import Function
    await boot_full(legacy=False)
    out = []
    gm, _, e1 = await run_source("modules.c13m", "def claim():\n    task.unique('k')\n    return task.name2id('k') == task.current_task()\n")
    ga = GlobalContext("file.c13a", global_sym_table={"__name__": "file.c13a", "claim": gm.global_sym_table["claim"], "note": lambda v: out.append(v)}, manager=GlobalContextMgr)
    GlobalContextMgr.set("file.c13a", ga)
    src = "def runner():\n    try:\n        note(claim())\n    except Exception as e:\n        note(type(e).__name__)\n\ntask.create(runner)\n"
    _, _, e2 = await run_source("file.c13a", src, global_ctx=ga)
    await settle(80)
    names = sorted(Function.unique_name2task)
    await shutdown()
    return {"reproduced": out != [True], "observed": {"result": out, "errors": [repr(e1), repr(e2)], "unique_names_while_running": names},
            "expected": {"result": [True]}}


async def c08_event_filter_value(w):
    """@event_trigger("ev", "x") where the filter expression is the event parameter x itself: the function runs iff x is true in
    a boolean context - whatever object it is (None, 0, '', [] reject; 1, 'a' accept).  Both subsystems."""
    from types import SimpleNamespace as NS
    from custom_components.pyscript.global_ctx import GlobalContext, GlobalContextMgr
    values = [True, False, None, 0, "", [], 1, "a", [0]]
    out = {}
    for sub in ("new", "legacy"):
        hass = await boot_full(legacy=(sub == "legacy"))
        ran = []
        name = f"file.c08f_{sub}"
        g = GlobalContext(name, global_sym_table={"__name__": name, "note": lambda v: ran.append(v)}, manager=GlobalContextMgr)
        GlobalContextMgr.set(name, g)
        g.set_auto_start(True)
        _, _, exc = await run_source(name, "@event_trigger('c08_ev', 'x')\ndef f(i=None, **kw):\n    note(i)\n", global_ctx=g)
        await settle(40)
        for i, v in enumerate(values):
            for cb in list(hass.bus.listeners.get("c08_ev", [])):
                await cb(NS(event_type="c08_ev", context=None, data={"x": v, "i": i}))
            await settle(40)
        want = [i for i, v in enumerate(values) if v]
        out[sub] = {"ran_for": sorted(ran), "expected": want, "error": repr(exc) if exc else None}
        g.stop()
        GlobalContextMgr.delete(name)
        await settle(40)
        await shutdown()
    bad = {k: v for k, v in out.items() if v["ran_for"] != v["expected"]}
    return {"reproduced": bool(bad), "observed": out, "values": [repr(v) for v in values], "expected": "runs exactly for the true values"}


async def c07_state_active_truth(w):
    """@state_active with an expression whose value is not a bool: the function runs iff the value is true in a boolean context
    (int(pyscript.cnt) with '0' rejects, with '2' accepts).  Both subsystems."""
    from types import SimpleNamespace as NS
    from custom_components.pyscript.global_ctx import GlobalContext, GlobalContextMgr
    from custom_components.pyscript.state import State
    out = {}
    for sub in ("new", "legacy"):
        hass = await boot_full(legacy=(sub == "legacy"))
        table = fake_states(hass)
        State.notify_var_last.clear()
        ran = []
        name = f"file.c07sa_{sub}"
        g = GlobalContext(name, global_sym_table={"__name__": name, "note": lambda v: ran.append(v)}, manager=GlobalContextMgr)
        GlobalContextMgr.set(name, g)
        g.set_auto_start(True)
        table["pyscript.cnt"] = ("0", {})
        _, _, exc = await run_source(name, "@event_trigger('c07sa_ev')\n@state_active('int(pyscript.cnt)')\ndef f(i=None, **kw):\n    note(i)\n", global_ctx=g)
        await settle(40)
        for i, val in enumerate(["0", "2", "0"]):
            table["pyscript.cnt"] = (val, {})
            for cb in list(hass.bus.listeners.get("c07sa_ev", [])):
                await cb(NS(event_type="c07sa_ev", context=None, data={"i": i}))
            await settle(40)
        out[sub] = {"ran_for": list(ran), "expected": [1], "error": repr(exc) if exc else None}
        g.stop()
        GlobalContextMgr.delete(name)
        await settle(40)
        await shutdown()
    bad = {k: v for k, v in out.items() if v["ran_for"] != v["expected"]}
    return {"reproduced": bool(bad), "observed": out, "expected": "runs only for the occurrence during which int(pyscript.cnt) is 2"}


async def c20_failed_install(w):
    """install_requirements when Home Assistant's installer fails (RequirementsNotFound): the package must not end up in
    pyscript's record of the packages it installed."""
    import os, tempfile, shutil
    from homeassistant.requirements import RequirementsNotFound
    import custom_components.pyscript.requirements as R
    hass = await boot()
    folder = tempfile.mkdtemp(prefix="c20_")
    try:
        with open(os.path.join(folder, "requirements.txt"), "w") as f:
            f.write("c20-no-such-package==1.2.3\n")
        updates = []
        entry = SimpleNamespace(data={"allow_all_imports": True, "_installed_packages": {}})
        hass.config_entries = SimpleNamespace(async_update_entry=lambda entry=None, data=None: updates.append(data))

        async def failing(hass_, name, reqs):
            raise RequirementsNotFound(name, list(reqs))
        saved = R.async_process_requirements
        R.async_process_requirements = failing
        err = None
        try:
            await R.install_requirements(hass, entry, folder)
        except Exception as e:  # noqa
            err = e
        finally:
            R.async_process_requirements = saved
    finally:
        shutil.rmtree(folder, ignore_errors=True)
    recs = [u.get("_installed_packages", {}) for u in updates] + [entry.data.get("_installed_packages", {})]
    recorded = any("c20-no-such-package" in r for r in recs)
    await shutdown()
    return {"reproduced": recorded, "observed": {"error": repr(err), "records": recs}, "expected": "the package whose installation failed is in no record"}


async def c20_entry_updated_meanwhile(w):
    """install_requirements on the real function while another task replaces config_entry.data (as Home Assistant's
    async_update_entry does) at the suspension named by the witness: during the requirements scan, or during the install."""
    import os, tempfile, shutil
    import custom_components.pyscript.requirements as R
    hass = await boot()
    when, allow_after = w.get("when", "during-the-scan"), bool(w.get("allow_after", False))
    folder = tempfile.mkdtemp(prefix="c20_")
    updates, installs = [], []
    try:
        with open(os.path.join(folder, "requirements.txt"), "w") as f:
            f.write("c20-no-such-package==1.2.3\n")
        entry = SimpleNamespace(data={"allow_all_imports": True, "_installed_packages": {}, "hass_is_global": False})
        new_data = {"allow_all_imports": allow_after, "_installed_packages": {}, "hass_is_global": True}
        hass.config_entries = SimpleNamespace(async_update_entry=lambda entry=None, data=None: updates.append(dict(data)))
        loop = asyncio.get_running_loop()

        async def executor_job(fn, *a):
            r = await loop.run_in_executor(None, fn, *a)
            if when == "during-the-scan" and getattr(fn, "__name__", "") == "process_all_requirements":
                entry.data = dict(new_data)
            return r
        hass.async_add_executor_job = executor_job

        async def installer(hass_, name, reqs):
            installs.append(list(reqs))
            if when == "during-the-install":
                entry.data = dict(new_data)
        saved = R.async_process_requirements
        R.async_process_requirements = installer
        err = None
        try:
            await R.install_requirements(hass, entry, folder)
        except Exception as e:  # noqa
            err = repr(e)
        finally:
            R.async_process_requirements = saved
    finally:
        shutil.rmtree(folder, ignore_errors=True)
    await shutdown()
    if when == "during-the-scan" and not allow_after:
        ok = installs == [] and updates == []
        want = "nothing installed, nothing written: the entry forbids it when the scan has finished"
    else:
        ok = len(installs) == 1 and len(updates) == 1 and updates[0].get("allow_all_imports") is allow_after and updates[0].get("hass_is_global") is True
        want = "one install; the write-back carries the entry's current data (allow_all_imports=%r, hass_is_global=True) plus the new record" % allow_after
    return {"reproduced": not ok or err is not None, "observed": {"installs": installs, "written back": updates, "error": err}, "expected": want}


async def c20_yaml_import_keeps_record(w):
    """The YAML import flow of the real PyscriptConfigFlow on an existing entry whose data holds pyscript's record of installed
    packages: the record must survive, for YAML-created and UI-created entries."""
    from custom_components.pyscript.config_flow import PyscriptConfigFlow
    out = {}
    for source in ("import", "user"):
        record = {"somepkg": "1.0"}
        entry = SimpleNamespace(source=source, data={"allow_all_imports": True, "hass_is_global": False, "_installed_packages": record})
        updates = []
        flow = PyscriptConfigFlow()
        flow.hass = SimpleNamespace(config_entries=SimpleNamespace(async_entries=lambda d: [entry],
                                                                  async_update_entry=lambda entry=None, data=None: updates.append(data)))
        err = None
        try:
            await flow.async_step_import({"allow_all_imports": True, "hass_is_global": True})
        except Exception as e:  # noqa
            err = e
        final = updates[-1] if updates else entry.data
        out[source] = {"record_after": final.get("_installed_packages"), "error": repr(err) if err else None}
    bad = {k: v for k, v in out.items() if v["record_after"] != {"somepkg": "1.0"}}
    return {"reproduced": bool(bad), "observed": out, "expected": "record {'somepkg': '1.0'} kept in both cases"}


async def c17_excluded_builtin(w):
    """Every builtin pyscript withholds from scripts (BUILTIN_EXCLUDE), read in every scope form: at module level, in a function,
    in a function that declares the name global, in a nested function, through a lambda.  None may yield the real builtin."""
    import builtins
    from custom_components.pyscript.eval import BUILTIN_EXCLUDE
    await boot_full()
    names = sorted(BUILTIN_EXCLUDE) if not w.get("name") or w.get("name") not in BUILTIN_EXCLUDE else [w["name"]]
    forms = {
        "module": "r = {N}\n",
        "function": "def f():\n    return {N}\nr = f()\n",
        "global-declared": "def f():\n    global {N}\n    return {N}\nr = f()\n",
        "nested": "def f():\n    def g():\n        return {N}\n    return g()\nr = f()\n",
        "global-declared-nested": "def f():\n    def g():\n        global {N}\n        return {N}\n    return g()\nr = f()\n",
    }
    leaks, cases = [], 0
    for nm in names:
        if not hasattr(builtins, nm):
            continue
        for form, tpl in forms.items():
            cases += 1
            g, _, exc = await run_source(f"file.c17x_{cases}", tpl.replace("{N}", nm))
            got = g.global_sym_table.get("r")
            if exc is None and got is getattr(builtins, nm):
                leaks.append({"name": nm, "form": form})
    await shutdown()
    return {"reproduced": bool(leaks), "observed": {"reached": leaks[:6], "cases": cases}, "expected": "no form yields the withheld builtin"}


async def c08_mqtt_stale_payload_obj(w):
    """Legacy MQTT handler: a JSON message followed by a non-JSON message on the same topic; the second delivery must not carry
    the first one's payload_obj (nor anything else of it)."""
    from types import SimpleNamespace as NS
    from custom_components.pyscript.mqtt import Mqtt
    hass = await boot()
    Mqtt.init(hass)
    got = []
    saved = Mqtt.update

    async def upd(topic, func_args):
        got.append(dict(func_args))
    Mqtt.update = upd
    try:
        h = Mqtt.mqtt_message_handler_maker("a/b")
        await h(NS(topic="a/b", payload='{"cmd": "on"}', qos=0, retain=False))
        await h(NS(topic="a/b", payload="hello", qos=1, retain=True))
    finally:
        Mqtt.update = saved
    await shutdown()
    want = [{"trigger_type": "mqtt", "topic": "a/b", "payload": '{"cmd": "on"}', "qos": 0, "retain": False, "payload_obj": {"cmd": "on"}},
            {"trigger_type": "mqtt", "topic": "a/b", "payload": "hello", "qos": 1, "retain": True}]
    return {"reproduced": got != want, "observed": got, "expected": want}


async def c10_empty_file(w):
    """GlobalContextMgr.load_file on a 0-byte file: the file IS a context (registered, with its empty source and mtime), so that
    a later reload sees it change when text is written into it."""
    import os, tempfile, shutil
    from custom_components.pyscript.global_ctx import GlobalContext, GlobalContextMgr
    await boot_full()
    d = tempfile.mkdtemp(prefix="c10e_")
    try:
        path = os.path.join(d, "empty.py")
        open(path, "w").close()
        g = GlobalContext("file.c10empty", global_sym_table={"__name__": "file.c10empty"}, manager=GlobalContextMgr)
        err = None
        try:
            await GlobalContextMgr.load_file(g, path)
        except Exception as e:  # noqa
            err = repr(e)
        reg = GlobalContextMgr.get("file.c10empty")
        obs = {"registered": reg is g, "source": getattr(g, "source", "<unset>"), "has_mtime": getattr(g, "mtime", None) is not None, "error": err}
        if reg is not None:
            GlobalContextMgr.delete("file.c10empty")
    finally:
        shutil.rmtree(d, ignore_errors=True)
    await shutdown()
    return {"reproduced": obs != {"registered": True, "source": "", "has_mtime": True, "error": None}, "observed": obs,
            "expected": {"registered": True, "source": "", "has_mtime": True, "error": None}}


async def c16_function_get(w):
    """An entity and a service share the name script.porch; the name is read through the real interpreter while the service
    exists, then the owning integration removes the service; reading script.porch must now give the entity's value."""
    from types import SimpleNamespace as NS
    from custom_components.pyscript.function import Function
    from custom_components.pyscript.state import StateVal
    hass = await boot()
    registered = {("script", "porch")}
    hass.services.has_service = lambda d, s: (d, s) in registered
    hass.states.get = lambda name: NS(state="on", attributes={}, entity_id=name, last_updated="u", last_changed="c", last_reported="r") \
        if name == "script.porch" else None
    from custom_components.pyscript.global_ctx import GlobalContext, GlobalContextMgr
    name = "file.c16get"
    gctx = GlobalContext(name, global_sym_table={"__name__": name}, manager=GlobalContextMgr)
    GlobalContextMgr.set(name, gctx)
    await run_source(name, "r1 = script.porch\n", global_ctx=gctx)
    registered.clear()          # the owning integration removes its service (hass.services.async_remove)
    await run_source(name, "r2 = script.porch\nr3 = script.porch\n", global_ctx=gctx)
    g = gctx.global_sym_table
    r1, r2, r3 = g.get("r1"), g.get("r2"), g.get("r3")
    await shutdown()
    ok = callable(r1) and isinstance(r2, StateVal) and str(r2) == "on" and isinstance(r3, StateVal)
    return {"reproduced": not ok,
            "observed": {"while-registered": repr(r1), "after-removal": repr(r2), "again": repr(r3)},
            "expected": {"while-registered": "a service wrapper", "after-removal": "StateVal 'on' (the name is the state variable script.porch again)"}}


async def c14_executor(w):
    """task.executor on the real code: the function's return value - an exception instance included - comes back as a value;
    an exception it raises is raised in the caller."""
    from custom_components.pyscript.trigger import TrigTime
    hass = await boot()
    loop = asyncio.get_running_loop()
    hass.async_add_executor_job = lambda target, *args: loop.run_in_executor(None, target, *args)
    TrigTime.hass = hass
    err = ValueError("the last error, returned as a value")
    seen = []

    def f(a, kw=None):
        seen.append((a, kw))
        if a == "raise":
            raise KeyError("job failed")
        return err if a == "exc-object" else (a, kw)
    out = {}
    for what in ("value", "exc-object", "raise"):
        try:
            out[what] = ("returned", await asyncio.wait_for(TrigTime.user_task_executor(f, what, kw=7), 10))
        except Exception as e:  # noqa
            out[what] = ("raised", e)
    await shutdown()
    ok = out["value"] == ("returned", ("value", 7)) and out["exc-object"][0] == "returned" and out["exc-object"][1] is err \
        and out["raise"][0] == "raised" and isinstance(out["raise"][1], KeyError) and len(seen) == 3
    return {"reproduced": not ok, "observed": {k: (v[0], repr(v[1])) for k, v in out.items()},
            "expected": {"value": "returned ('value', 7)", "exc-object": "returned the ValueError instance", "raise": "raised KeyError"}}


async def c04_notify_var_get(w):
    """State.notify_var_get on the real class: every undefined 2-, 3- and 4-part name an expression mentions is bound to None
    (so `pyscript.v.old.attr` in a trigger expression evaluates instead of raising when another entity changed)."""
    from custom_components.pyscript.state import State
    hass = await boot()
    hass.states.get = lambda name: None
    State.notify_var_last.clear()
    names = ["d.e", "d.e.attr", "d.e.old", "d.e.old.attr"]
    got = {}
    for n in names:     # one name per call: a name's binding must not depend on which other names are asked for
        got.update(State.notify_var_get({n}, {"x.y": "1"}))
    await shutdown()
    missing = [n for n in names if n not in got or got[n] is not None]
    return {"reproduced": bool(missing) or got.get("x.y") != "1", "observed": {"result": {k: repr(v) for k, v in got.items()}, "not bound to None": missing},
            "expected": "each of the four names bound to None, the event's own value kept"}


async def c09_state_stale_last(w):
    """A watcher that names an entity only through an attribute is notified once and then leaves as the last watcher; the entity
    changes outside pyscript; a guard expression of another function then reads the entity through State.notify_var_get:
    it must see the current value, not the one remembered for the watcher that left."""
    from types import SimpleNamespace as NS
    from custom_components.pyscript.state import State, StateVal
    hass = await boot()
    State.notify.clear()
    State.notify_var_last.clear()
    cur = {"v": "1"}
    hass.states.get = lambda name: NS(state=cur["v"], attributes={"level": 2}, entity_id=name, last_updated="u", last_changed="c", last_reported="r") \
        if name == "pyscript.mode" else None
    q = asyncio.Queue(0)
    await State.notify_add({"pyscript.mode.level"}, q)
    val = StateVal(hass.states.get("pyscript.mode"))
    await State.update({"pyscript.mode": val}, {"trigger_type": "state", "var_name": "pyscript.mode", "value": val, "old_value": None})
    State.notify_del({"pyscript.mode.level"}, q)
    cur["v"] = "2"                                     # changed by another integration; nobody in pyscript watches it now
    val2 = StateVal(hass.states.get("pyscript.mode"))
    await State.update({"pyscript.mode": val2}, {"trigger_type": "state", "var_name": "pyscript.mode", "value": val2, "old_value": val})
    seen = State.notify_var_get({"pyscript.mode"}, {})
    got = seen.get("pyscript.mode", "<unbound: the expression reads the live state>")
    await shutdown()
    stale = isinstance(got, StateVal) and str(got) != "2"
    return {"reproduced": stale, "observed": {"value a guard expression would see": repr(got), "current": "2",
                                               "notify": sorted(State.notify), "remembered": sorted(State.notify_var_last)},
            "expected": "the current value '2' (remembered and refreshed, or not remembered at all)"}


async def c11_trigger_expression_context(w):
    """Legacy TrigInfo built on the real classes: trigger declared in context A, action function living in context B (a wrapper
    from a decorator imported from a module).  Every trigger expression must be evaluated with A's globals."""
    from types import SimpleNamespace as NS
    from custom_components.pyscript.trigger import TrigInfo
    from custom_components.pyscript.global_ctx import GlobalContext, GlobalContextMgr
    await boot_full(legacy=True)
    a = GlobalContext("file.decl", global_sym_table={"__name__": "file.decl", "limit": 5}, manager=GlobalContextMgr)
    b = GlobalContext("modules.helpers", global_sym_table={"__name__": "modules.helpers", "limit": 0}, manager=GlobalContextMgr)
    action = NS(global_ctx=b, global_ctx_name="modules.helpers", name="wrapper")
    cfg = {"action": action, "global_sym_table": a.global_sym_table,
           "state_trigger": {"args": ["limit > 3 and pyscript.c11v == '1'"], "kwargs": {}}, "state_active": {"args": "limit > 3"},
           "event_trigger": {"args": ["c11_ev", "limit > 3"], "kwargs": {}}}
    ti = TrigInfo("file.decl.f", cfg, a)
    out = {}
    for nm in ("state_trig_eval", "active_expr", "event_trig_expr"):
        ev = getattr(ti, nm)
        out[nm] = None if ev is None else ev.get_global_ctx_name()
    val = await ti.event_trig_expr.eval({})
    await shutdown()
    ok = all(v == "file.decl" for v in out.values()) and bool(val)
    return {"reproduced": not ok, "observed": {"evaluator contexts": out, "event filter `limit > 3` evaluates to": repr(val)},
            "expected": "all evaluators in file.decl; the filter sees file.decl's limit = 5, so it is true"}


async def c09_dm_stop_during_start(w):
    """Real DecoratorManager with three recording decorators; stop() runs while start() is suspended inside the second
    decorator's start().  Nothing may be started after the stop, and every decorator whose start began is stopped once."""
    from custom_components.pyscript.decorator_abc import DecoratorManager, DecoratorManagerStatus, Decorator
    await boot_full(legacy=False)
    log = []
    gate = asyncio.Event()

    class Dec:
        def __init__(self, i):
            self.i = i

        async def start(self):
            log.append(("start", self.i))
            if self.i == 1:
                await gate.wait()

        async def stop(self):
            log.append(("stop", self.i))

        def __repr__(self):
            return f"@dec{self.i}()"

    class DM(DecoratorManager):
        async def validate(self):
            pass

        async def dispatch(self, data):
            pass
    import logging
    actx = type("Ctx", (), {"get_logger": lambda self: logging.getLogger("custom_components.pyscript.file.c09dm")})()
    dm = DM(actx, "file.c09dm.f")
    dm._decorators.extend(Dec(i) for i in range(3))
    dm.status = DecoratorManagerStatus.VALIDATED
    t = asyncio.get_running_loop().create_task(dm.start())
    await settle(10)
    await dm.stop()
    gate.set()
    err = None
    try:
        await asyncio.wait_for(t, 10)
    except Exception as e:  # noqa
        err = repr(e)
    await shutdown()
    starts = [i for op, i in log if op == "start"]
    stops = [i for op, i in log if op == "stop"]
    ok = starts == [0, 1] and all(stops.count(i) == 1 for i in (0, 1)) and all(stops.count(i) <= 1 for i in range(3)) and err is None
    return {"reproduced": not ok, "observed": {"log": log, "error": err, "status": str(dm.status)},
            "expected": "starts [0, 1]; decorators 0 and 1 stopped exactly once; decorator 2 never started"}


async def c08_filter_scope(w):
    """Two events of one type through a real @event_trigger with a filter naming a key only the first event carries: the second
    event must be judged on its own data (the name is undefined there: error logged, no run), not on the first event's value."""
    from types import SimpleNamespace as NS
    out = {}
    for legacy in (False, True):
        hass = await boot_full(legacy=legacy)
        runs = []
        from custom_components.pyscript.global_ctx import GlobalContext, GlobalContextMgr
        name = f"file.c08s{int(legacy)}"
        gctx = GlobalContext(name, global_sym_table={"__name__": name, "ran": runs.append}, manager=GlobalContextMgr)
        GlobalContextMgr.set(name, gctx)
        gctx.set_auto_start(True)
        src = '@event_trigger("c08_scope_ev", "level == 3")\ndef f(**kw):\n    ran(kw.get("n"))\n'
        await run_source(name, src, global_ctx=gctx)
        await settle(20)
        for data in ({"n": 1, "level": 3}, {"n": 2}):
            for cb in list(hass.bus.listeners.get("c08_scope_ev", [])):
                r = cb(NS(event_type="c08_scope_ev", context=None, data=dict(data)))
                if asyncio.iscoroutine(r):
                    await r
            await settle(30)
        out["legacy" if legacy else "new"] = list(runs)
        gctx.stop()
        await shutdown()
    ok = all(v == [1] for v in out.values())
    return {"reproduced": not ok, "observed": {"runs (event numbers)": out}, "expected": "[1] in both subsystems: the second event has no `level`"}


async def c11_cross_context_closure(w):
    """A function imported from a pyscript module executes an inner def whose free name is a global of ITS module, while being
    called from a script function that keeps a same-named local in a closure cell: the closure must use the module's global."""
    from custom_components.pyscript.global_ctx import GlobalContext, GlobalContextMgr
    await boot_full()
    m = GlobalContext("modules.c11m", global_sym_table={"__name__": "modules.c11m"}, manager=GlobalContextMgr)
    GlobalContextMgr.set("modules.c11m", m)
    _, _, e1 = await run_source("modules.c11m", "factor = 10\ndef make():\n    def g(x):\n        return x * factor\n    return g\n", global_ctx=m)
    f = GlobalContext("file.c11f", global_sym_table={"__name__": "file.c11f", "make": m.global_sym_table.get("make")}, manager=GlobalContextMgr)
    GlobalContextMgr.set("file.c11f", f)
    src = ("def caller():\n    factor = 2\n    def inner():\n        return factor\n    h = make()\n    return [h(3), inner()]\n"
           "r = caller()\nr_top = make()(3)\n")
    _, _, e2 = await run_source("file.c11f", src, global_ctx=f)
    got = [f.global_sym_table.get("r"), f.global_sym_table.get("r_top")]
    await shutdown()
    want = [[30, 2], 30]
    return {"reproduced": got != want or e1 is not None or e2 is not None, "observed": {"r, r_top": got, "errors": [repr(e1), repr(e2)]},
            "expected": {"r, r_top": want}}


async def c10_yaml_options(w):
    """update_yaml_config on the real function, three calls: snapshot seeded; a global option changed (must say True); nothing
    changed (must say False - otherwise every later reload re-creates every context)."""
    from types import SimpleNamespace as NS
    import custom_components.pyscript as P
    hass = await boot()
    yaml = {"pyscript": {"allow_all_imports": True, "hass_is_global": False}}

    async def fake_yaml(h):
        return yaml
    orig = P.async_hass_config_yaml
    P.async_hass_config_yaml = fake_yaml
    entry = NS(data={"allow_all_imports": True, "hass_is_global": False})

    async def async_init(domain, context=None, data=None):
        entry.data = dict(data)        # the import flow updates the entry
    hass.config_entries = NS(flow=NS(async_init=async_init))
    hass.data.setdefault("pyscript", {}).pop("config_entry_old", None)
    out = []
    try:
        out.append(await P.update_yaml_config(hass, entry))          # first reload: seeds the snapshot
        yaml["pyscript"]["allow_all_imports"] = False
        out.append(await P.update_yaml_config(hass, entry))          # before the flow ran: entry still old
        entry.data = {"allow_all_imports": False, "hass_is_global": False}
        out.append(await P.update_yaml_config(hass, entry))          # option changed: widen
        out.append(await P.update_yaml_config(hass, entry))          # nothing changed: must not widen
        out.append(await P.update_yaml_config(hass, entry))
    finally:
        P.async_hass_config_yaml = orig
    await shutdown()
    want = [False, out[1], True, False, False] if not out[1] else [False, True, False, False, False]
    return {"reproduced": out != want, "observed": {"widen-the-reload verdicts": out}, "expected": {"widen-the-reload verdicts": want}}


async def c14_callback_edits_callbacks(w):
    """Bounded stand-in (fixed histories on the real Function class): a done-callback of the exiting task changes that task's own
    callback table while the callbacks are being run - removes one that has not run yet, re-adds one with new arguments, adds a
    new one.  Every callback still registered when its turn comes runs exactly once with its CURRENT arguments, a removed one
    does not run, the task's own outcome is kept and the task is forgotten afterwards."""
    from custom_components.pyscript.function import Function
    await boot()
    failures, cases = [], 0

    class Ctx:
        def __init__(self):
            self.logged = []

        async def call_func(self, cb, name, *a, **k):
            return await cb(*a, **k)

        def log_exception(self, e):
            self.logged.append(repr(e))

        def get_global_ctx_name(self):
            return "file.c14e"

    for edit in ("remove-later", "remove-earlier", "readd-later", "add-new", "remove-self"):
        cases += 1
        ctx = Ctx()
        calls = []
        holder = {}

        async def cb_a(*a, **k):
            calls.append(("a", a))
            t = holder["t"]
            if edit == "remove-later":
                Function.user_task_remove_done_callback(t, cb_b)
            elif edit == "remove-earlier":
                pass
            elif edit == "readd-later":
                Function.task_add_done_callback(t, ctx, cb_b, "new-args")
            elif edit == "add-new":
                Function.task_add_done_callback(t, ctx, cb_d, "d")
            elif edit == "remove-self":
                Function.user_task_remove_done_callback(t, cb_a)

        async def cb_b(*a, **k):
            calls.append(("b", a))
            if edit == "remove-earlier":
                Function.user_task_remove_done_callback(holder["t"], cb_a)

        async def cb_c(*a, **k):
            calls.append(("c", a))

        async def cb_d(*a, **k):
            calls.append(("d", a))

        async def body():
            await asyncio.sleep(0.01)
            return 7
        t = Function.create_task(body(), ast_ctx=ctx)
        holder["t"] = t
        await asyncio.sleep(0)
        Function.task_add_done_callback(t, ctx, cb_a, "a")
        Function.task_add_done_callback(t, ctx, cb_b, "b")
        Function.task_add_done_callback(t, ctx, cb_c, "c")
        await asyncio.wait([t], timeout=2)
        try:
            outcome = ("returned", t.result()) if t.done() else ("not-finished", None)
        except BaseException as e:  # noqa
            outcome = ("raised", repr(e))
        want = {"remove-later": [("a", ("a",)), ("c", ("c",))],
                "remove-earlier": [("a", ("a",)), ("b", ("b",)), ("c", ("c",))],
                "readd-later": [("a", ("a",)), ("b", ("new-args",)), ("c", ("c",))],
                "remove-self": [("a", ("a",)), ("b", ("b",)), ("c", ("c",))]}.get(edit)
        ok_calls = (calls == want) if want is not None else (calls[:3] == [("a", ("a",)), ("b", ("b",)), ("c", ("c",))] and calls.count(("d", ("d",))) <= 1)
        forgotten = t not in Function.task2cb and t not in Function.our_tasks
        if outcome != ("returned", 7) or not ok_calls or not forgotten or ctx.logged:
            failures.append({"signature": f"done-callback-edits-table:{edit}", "edit": edit, "task outcome": outcome, "calls": calls,
                             "expected calls": want or "a, b, c once each (d at most once)", "forgotten": forgotten, "logged": ctx.logged})
    await shutdown()
    return {"unit": "Function.run_coro exit with done-callbacks that edit the task's own callback table", "method": "fixed histories on the real class",
            "bound": "5 edits (remove a later / an earlier / itself, re-add a later one with new arguments, add a new one) x 3 callbacks",
            "cases": cases, "failures": failures[:5], "reproduced": bool(failures)}


async def c12_outgoing(w):
    """service.call / domain.service() with control-keyword look-alikes; data delivered must equal the given kwargs
    minus control keywords of the recognised type."""
    from homeassistant.core import Context
    from custom_components.pyscript.function import Function
    hass = await boot()
    seen = []

    async def async_call(domain, service, data=None, **hargs):
        seen.append((domain, service, dict(data), dict(hargs)))
        return None

    hass.services.async_call = async_call
    hass.services.has_service = lambda d, s: True
    hass.services.supports_response = lambda d, s: "none"
    kwargs = {"entity_id": "light.x", "brightness": 7}
    expect = dict(kwargs)
    for key, kind in w["kinds"].items():
        if kind == "right-type":
            kwargs[key] = Context() if key == "context" else True
        elif kind == "wrong-type":
            kwargs[key] = "a-string"
            expect[key] = "a-string"
    if w["entry"] == "service_call":
        await Function.service_call("light", "turn_on", **kwargs)
    else:
        await Function.get("light.turn_on")(**kwargs)
    await shutdown()
    got = seen[0][2] if seen else None
    return {"reproduced": got != expect, "observed": {"service_data": got}, "expected": {"service_data": expect}}


async def c09_mqtt_subscribe_window(w):
    """Mqtt.notify_add suspends in mqtt.async_subscribe after creating notify[topic] = set().
    mode 'cancel': the subscribing task is cancelled there (trigger stopped while starting);
    mode 'concurrent': another trigger adds and removes the same topic meanwhile."""
    import custom_components.pyscript.mqtt as pm
    from custom_components.pyscript.mqtt import Mqtt
    hass = await boot()
    Mqtt.init(hass)
    Mqtt.notify.clear()
    Mqtt.notify_remove.clear()
    subs = []

    async def fake_subscribe(hass_, topic, handler, encoding="utf-8", qos=0):
        await asyncio.sleep(0.05)
        subs.append(topic)
        return lambda: subs.remove(topic)

    pm.mqtt = SimpleNamespace(async_subscribe=fake_subscribe)
    q1, q2 = asyncio.Queue(), asyncio.Queue()
    obs = {}
    t = asyncio.get_running_loop().create_task(Mqtt.notify_add("a/b", q1))
    await asyncio.sleep(0.01)
    if w.get("mode") == "two-subscribers":
        # a second trigger subscribes to the same topic while the first is suspended; afterwards one message must reach each
        # queue exactly once through exactly one MQTT subscription
        t2 = asyncio.get_running_loop().create_task(Mqtt.notify_add("a/b", q2))
        await asyncio.gather(t, t2, return_exceptions=True)
        await Mqtt.update("a/b", {"trigger_type": "mqtt", "topic": "a/b", "payload": "x"}) if hasattr(Mqtt, "update") else None
        got = {"q1": q1.qsize(), "q2": q2.qsize()}
        obs = {"subscriptions": list(subs), "queues_registered": len(Mqtt.notify.get("a/b", ())), "messages_per_queue_for_one_update": got}
        rep = subs != ["a/b"] or got != {"q1": 1, "q2": 1}
        exp = "one MQTT subscription for the topic; both queues registered; one message each"
    elif w.get("mode") == "concurrent":
        err = None
        try:
            await Mqtt.notify_add("a/b", q2)
            Mqtt.notify_del("a/b", q2)
        except Exception as e:  # noqa
            err = repr(e)
        await asyncio.gather(t, return_exceptions=True)
        obs = {"error_in_other_trigger": err, "first_task": repr(t.exception()) if t.done() and not t.cancelled() else None}
        rep = err is not None or (t.done() and not t.cancelled() and t.exception() is not None)
        exp = "no exception: adding and removing another queue for the same topic is independent"
    else:
        t.cancel()
        await asyncio.gather(t, return_exceptions=True)
        obs = {"notify": {k: len(v) for k, v in Mqtt.notify.items()}, "notify_remove": list(Mqtt.notify_remove), "subscriptions": list(subs)}
        # the table now claims the topic is set up although nothing is subscribed
        await Mqtt.notify_add("a/b", q2)
        obs["after_new_subscriber"] = {"subscriptions": list(subs), "notify_remove": list(Mqtt.notify_remove)}
        rep = "a/b" in Mqtt.notify and "a/b" not in subs
        exp = "a topic present in Mqtt.notify has exactly one live MQTT subscription"
    await shutdown()
    return {"reproduced": rep, "observed": obs, "expected": exp}


class OrderedSet(set):
    """A real `set` whose iteration order is fixed (CPython's order depends on hashes; any order is possible)."""

    def __init__(self, items):
        super().__init__(items)
        self._order = list(items)

    def __iter__(self):
        return iter(self._order)


async def c09_dropped_before_start(w):
    """A file defines the same trigger function twice (or deletes it) while its global context is not started yet (that is how
    files are loaded); after the context starts, only the definition that is still referenced may react."""
    from types import SimpleNamespace as NS
    from custom_components.pyscript.global_ctx import GlobalContext, GlobalContextMgr
    from custom_components.pyscript.state import State, StateVal
    out = {}
    for sub in ("new", "legacy"):
        for how, want in (("redefine", ["new"]), ("delete", [])):
            hass = await boot_full(legacy=(sub == "legacy"))
            table = fake_states(hass)
            State.notify_var_last.clear()
            table["pyscript.door"] = ("closed", {})
            ran = []
            name = f"file.c09_{sub}_{how}"
            g = GlobalContext(name, global_sym_table={"__name__": name, "note": lambda v: ran.append(v)}, manager=GlobalContextMgr)
            GlobalContextMgr.set(name, g)
            g.set_auto_start(False)
            src = "@state_trigger(\"pyscript.door == 'open'\")\ndef guard(**kwargs):\n    note('old')\n\n"
            src += ("@state_trigger(\"pyscript.door == 'open'\")\ndef guard(**kwargs):\n    note('new')\n" if how == "redefine" else "del guard\n")
            _, _, exc = await run_source(name, src, global_ctx=g)
            await settle(30)
            g.set_auto_start(True)
            g.start()
            await settle(60)
            table["pyscript.door"] = ("open", {})
            nv = StateVal(NS(state="open", attributes={}, entity_id="pyscript.door", last_updated="u", last_changed="c", last_reported="r"))
            ov = StateVal(NS(state="closed", attributes={}, entity_id="pyscript.door", last_updated="u", last_changed="c", last_reported="r"))
            await State.update({"pyscript.door": nv, "pyscript.door.old": ov}, {"trigger_type": "state", "var_name": "pyscript.door", "value": nv, "old_value": ov, "context": None})
            await settle(60)
            out[f"{sub}:{how}"] = {"ran": sorted(ran), "expected": want, "error": repr(exc) if exc else None}
            g.stop()
            GlobalContextMgr.delete(name)
            await settle(60)
            await shutdown()
    bad = {k: v for k, v in out.items() if v["ran"] != v["expected"]}
    return {"reproduced": bool(bad), "observed": out, "expected": "only the definition still referenced reacts: ['new'] after a redefinition, [] after del"}


async def c09_legacy_stop_twice(w):
    """Legacy subsystem: a function with a shutdown time trigger and no @service is deleted (its shutdown occurrence runs, once),
    then its context is unloaded: the removed function must not run again."""
    from custom_components.pyscript.global_ctx import GlobalContext, GlobalContextMgr
    await boot_full(legacy=True)
    ran = []
    g = GlobalContext("file.c09s", global_sym_table={"__name__": "file.c09s", "note": lambda v: ran.append(v)}, manager=GlobalContextMgr)
    GlobalContextMgr.set("file.c09s", g)
    g.set_auto_start(True)
    _, _, e1 = await run_source("file.c09s", "@time_trigger('shutdown')\ndef bye():\n    note('bye')\n", global_ctx=g)
    await settle(40)
    _, _, e2 = await run_source("file.c09s", "del bye\n", global_ctx=g)
    await settle(60)
    after_del = list(ran)
    g.stop()
    GlobalContextMgr.delete("file.c09s")
    await settle(80)
    await shutdown()
    return {"reproduced": after_del != ["bye"] or ran != ["bye"], "observed": {"after_del": after_del, "after_unload": list(ran), "errors": [repr(e1), repr(e2)]},
            "expected": {"after_del": ["bye"], "after_unload": ["bye"]}}


async def c09_webhook_id_taken(w):
    """Webhook.notify_add for an id Home Assistant refuses (already registered by another integration), then - the other
    handler gone - a second subscriber of the same id: it must be registered with Home Assistant, and removable."""
    import custom_components.pyscript.webhook as pw
    from custom_components.pyscript.webhook import Webhook
    hass = await boot()
    Webhook.init(hass)
    Webhook.notify.clear()
    Webhook.notify_remove.clear()
    taken, regs = {"c09hook"}, []

    def reg(hass_, domain, name, wid, handler, local_only=None, allowed_methods=None):
        if wid in taken:
            raise ValueError("Handler is already defined!")
        taken.add(wid)
        regs.append(wid)
    saved = pw.webhook
    pw.webhook = SimpleNamespace(async_register=reg, async_unregister=lambda hass_, wid: taken.discard(wid))
    q1, q2 = asyncio.Queue(), asyncio.Queue()
    e1 = e2 = None
    try:
        try:
            Webhook.notify_add("c09hook", True, ["POST"], q1)
        except Exception as e:  # noqa
            e1 = repr(e)
        listed_after_refusal = "c09hook" in Webhook.notify
        taken.discard("c09hook")
        try:
            Webhook.notify_add("c09hook", True, ["POST"], q2)
            Webhook.notify_del("c09hook", q2)
        except Exception as e:  # noqa
            e2 = repr(e)
    finally:
        pw.webhook = saved
    obs = {"first_add": e1, "listed_after_refusal": listed_after_refusal, "registered_with_home_assistant": list(regs), "second_subscriber": e2,
           "left": sorted(Webhook.notify)}
    Webhook.notify.clear()
    Webhook.notify_remove.clear()
    await shutdown()
    return {"reproduced": listed_after_refusal or regs != ["c09hook"] or e2 is not None or bool(obs["left"]), "observed": obs,
            "expected": "nothing listed after the refusal; the second subscriber is registered once and removed without error"}


async def c04_watch_list(w):
    """@state_trigger("pyscript.a == '1'", "pyscript.b", watch=["pyscript.a"]): only changes of the watched name can trigger;
    a change of pyscript.b (an any-change name outside the watch list) does nothing.  Both subsystems."""
    from types import SimpleNamespace as NS
    from custom_components.pyscript.global_ctx import GlobalContext, GlobalContextMgr
    from custom_components.pyscript.state import State, StateVal
    out = {}
    for sub in ("new", "legacy"):
        hass = await boot_full(legacy=(sub == "legacy"))
        table = fake_states(hass)
        State.notify_var_last.clear()
        table["pyscript.a"] = ("0", {})
        table["pyscript.b"] = ("0", {})
        ran = []
        name = f"file.c04w_{sub}"
        g = GlobalContext(name, global_sym_table={"__name__": name, "note": lambda v: ran.append(v)}, manager=GlobalContextMgr)
        GlobalContextMgr.set(name, g)
        g.set_auto_start(True)
        _, _, exc = await run_source(name, "@state_trigger(\"pyscript.a == '1'\", 'pyscript.b', watch=['pyscript.a'])\ndef f(var_name=None, **kw):\n    note(var_name)\n", global_ctx=g)
        await settle(40)

        async def change(ent, old, new):
            table[ent] = (new, {})
            nv = StateVal(NS(state=new, attributes={}, entity_id=ent, last_updated="u", last_changed="c", last_reported="r"))
            ov = StateVal(NS(state=old, attributes={}, entity_id=ent, last_updated="u", last_changed="c", last_reported="r"))
            await State.update({ent: nv, f"{ent}.old": ov}, {"trigger_type": "state", "var_name": ent, "value": nv, "old_value": ov, "context": None})
            await settle(40)
        await change("pyscript.b", "0", "5")
        await change("pyscript.a", "0", "1")
        await change("pyscript.b", "5", "6")
        out[sub] = {"ran_for": list(ran), "expected": ["pyscript.a"], "error": repr(exc) if exc else None}
        g.stop()
        GlobalContextMgr.delete(name)
        await settle(40)
        await shutdown()
    bad = {k: v for k, v in out.items() if v["ran_for"] != v["expected"]}
    return {"reproduced": bool(bad), "observed": out, "expected": "one run, for the change of pyscript.a"}


async def c09_state_notify_del(w):
    """State.notify_add(names, q) then State.notify_del(names, q) with the iteration order of the model."""
    from custom_components.pyscript.state import State
    await boot()
    State.notify.clear()
    names = []
    seen = {}
    for i, (e, n, ident) in enumerate(zip(w["entity_of_name"], w["nparts"], w["name_identity"])):
        if ident in seen:
            continue
        parts = [f"d{e}", f"e{e}"] + [f"x{i}_{k}" for k in range(max(0, n - 2))]
        if n == 1:
            parts = [f"single{i}"]
        seen[ident] = ".".join(parts[:max(n, 1)])
        names.append(seen[ident])
    order = [names[i] for i in w["del_iteration_order"]] if len(w["del_iteration_order"]) == len(names) else names
    q = asyncio.Queue()
    await State.notify_add(OrderedSet(names), q)
    before = sorted(k for k, v in State.notify.items() if q in v)
    State.notify_del(OrderedSet(order), q)
    after = sorted(k for k, v in State.notify.items() if q in v)
    await shutdown()
    return {"reproduced": bool(after), "observed": {"names_in_deletion_order": order, "subscribed_after_add": before,
                                                     "still_subscribed_after_del": after},
            "expected": "no entity keeps the queue after notify_del with the same names"}


async def c14_run_coro_exit(w):
    """Exit of a pyscript task with done-callbacks. signature 'callback-raises': the first callback raises;
    'cancelled-inside-done-callback': the task is cancelled again while a done-callback is suspended."""
    from custom_components.pyscript.function import Function
    await boot()
    calls = []

    class Ctx:
        async def call_func(self, cb, name, *a, **k):
            return await cb(*a, **k)

        def log_exception(self, e):
            calls.append(("logged", repr(e)))

        def get_global_ctx_name(self):
            return "file.c14"

    ctx = Ctx()

    async def cb1(*a, **k):
        calls.append(("cb1", a, k))
        if w["signature"] == "callback-raises":
            raise ValueError("cb1 failed")
        await asyncio.sleep(0.2)
        calls.append(("cb1-finished",))

    async def cb2(*a, **k):
        calls.append(("cb2", a, k))

    unique = Function.task_unique_factory(ctx)

    async def body():
        await unique("name1")
        await asyncio.sleep(0.03)
        if w.get("coro") == "raise":
            raise RuntimeError("user error")
        if w.get("coro") == "cancel":
            await asyncio.sleep(10)
        return 1

    t = Function.create_task(body(), ast_ctx=ctx)
    await asyncio.sleep(0)
    Function.task_add_done_callback(t, ctx, cb1, 1, x=2)
    Function.task_add_done_callback(t, ctx, cb2, 3)
    await asyncio.sleep(0.08)
    if w.get("coro") == "cancel":
        t.cancel()
        await asyncio.sleep(0.05)
    if w["signature"] == "cancelled-inside-done-callback":
        t.cancel()  # e.g. a second task.cancel()/task.unique() while the callback is still running
    await asyncio.wait([t], timeout=2)
    await asyncio.sleep(0.3)
    left = {"our_tasks": t in Function.our_tasks, "task2cb": t in Function.task2cb,
            "unique_names": [n for n, tt in Function.unique_name2task.items() if tt is t]}
    await shutdown()
    if w["signature"] == "callback-raises":
        rep = not any(c[0] == "cb2" for c in calls)
        exp = "every done-callback runs exactly once (cb2 too)"
    else:
        rep = left["our_tasks"] or left["task2cb"] or bool(left["unique_names"])
        exp = "after the task ended nothing about it remains in the registries"
    return {"reproduced": rep, "observed": {"calls": [c[0] for c in calls], "left": left}, "expected": exp}


async def c08_event_fire(w):
    """event.fire(type, **kwargs): the emitted event carries exactly the given parameters."""
    from homeassistant.core import Context
    from custom_components.pyscript.function import Function
    hass = await boot()
    kwargs = {"x": 1, "y": "two"}
    expect = dict(kwargs)
    if w["context_kw"] == "Context":
        kwargs["context"] = Context()
    elif w["context_kw"] == "other-value":
        kwargs["context"] = "front_door"
        expect["context"] = "front_door"
    await Function.event_fire("my_event", **kwargs)
    await shutdown()
    got = hass.bus.fired[0][1] if hass.bus.fired else None
    return {"reproduced": got != expect, "observed": {"event_data": got}, "expected": {"event_data": expect}}


def fake_states(hass):
    from types import SimpleNamespace as NS
    table = {}

    def get(name):
        if name not in table:
            return None
        v, a = table[name]
        return NS(state=v, attributes=a, entity_id=name, last_updated="lu", last_changed="lc", last_reported="lr")

    def async_set(name, value, attrs=None, context=None, **kw):
        table[name] = (str(value) if value is not None else None, dict(attrs or {}))

    def async_remove(name, context=None):
        return table.pop(name, None) is not None

    hass.states = NS(get=get, async_set=async_set, async_remove=async_remove, table=table)
    return table


async def c16_virtual_field_shadow(w):
    """An entity that has ATTRIBUTES named like the virtual fields (a group's entity_id list, a last_changed attribute): the
    snapshot's entity_id / last_changed / last_updated / last_reported are still those of the state object."""
    from custom_components.pyscript.state import State
    hass = await boot_full()
    table = fake_states(hass)
    table["group.g"] = ("on", {"entity_id": ["light.a", "light.b"], "last_changed": "ATTR", "last_updated": "ATTR", "last_reported": "ATTR", "other": 1})
    v = State.get("group.g")
    got = {"entity_id": v.entity_id, "last_changed": v.last_changed, "last_updated": v.last_updated, "last_reported": v.last_reported, "other": v.other}
    want = {"entity_id": "group.g", "last_changed": "lc", "last_updated": "lu", "last_reported": "lr", "other": 1}
    await shutdown()
    return {"reproduced": got != want, "observed": got, "expected": want}


async def c16_state_set(w):
    """State.set on every argument-combination shape against a dictionary model of the state machine."""
    from homeassistant.core import Context
    from custom_components.pyscript.state import State, StateVal
    hass = await boot()
    table = fake_states(hass)
    State.notify.clear()
    State.notify_var_last.clear()
    out = []
    for existed in ([w["existed"]] if "existed" in w else [True, False]):
        for old_attrs in ({"a": 1, "b": 2}, {}):
            for given in ({"g": 7}, {}):
                table.clear()
                if existed:
                    table["d.e"] = ("old", dict(old_attrs))
                args, kwargs = ["d.e"], {}
                snap_attrs = {"s": 5}
                if w["value"] == "plain":
                    args.append("new")
                elif w["value"] == "snapshot":
                    from types import SimpleNamespace as NS
                    args.append(StateVal(NS(state="snapval", attributes=dict(snap_attrs), entity_id="x.y", last_updated=1, last_changed=2, last_reported=3)))
                if w["new_attributes"] == "given":
                    kwargs["new_attributes"] = dict(given)
                if w["kwargs"] == "attr":
                    kwargs["k"] = "kv"
                elif w["kwargs"] == "context-obj":
                    kwargs["context"] = Context()
                elif w["kwargs"] == "context-other":
                    kwargs["context"] = "ctxval"
                State.set(*args, **kwargs)
                # expected by the documented rules
                if w["new_attributes"] == "given":
                    base = dict(given)
                elif w["value"] == "snapshot":
                    base = dict(snap_attrs)
                else:
                    base = dict(old_attrs) if existed else {}
                if w["kwargs"] == "attr":
                    base["k"] = "kv"
                elif w["kwargs"] == "context-other":
                    base["context"] = "ctxval"
                exp_val = {"plain": "new", "snapshot": "snapval"}.get(w["value"], "old" if existed else None)
                got = table.get("d.e")
                if got != (exp_val, base):
                    out.append({"existed": existed, "old_attrs": old_attrs, "given": given, "got": got, "expected": (exp_val, base)})
    await shutdown()
    return {"reproduced": bool(out), "observed": out[:3], "expected": "state machine equals the documented effect of state.set"}


async def c16_getattr_snapshot(w):
    from types import SimpleNamespace as NS
    from custom_components.pyscript.state import State, StateVal
    await boot()
    snap = StateVal(NS(state="on", attributes={"a": 1}, entity_id="d.e", last_updated=1, last_changed=2, last_reported=3))
    before = dict(snap.__dict__)
    attrs = State.getattr(snap)
    after = dict(snap.__dict__)
    await shutdown()
    return {"reproduced": before != after, "observed": {"snapshot_dict_before": before, "after": after, "returned": attrs},
            "expected": "a captured snapshot never changes"}


def _run_requirements(lines_per_file):
    import os, tempfile
    from custom_components.pyscript.requirements import process_all_requirements
    from unittest.mock import patch
    with tempfile.TemporaryDirectory() as d:
        for i, lines in enumerate(lines_per_file):
            sub = os.path.join(d, "modules", f"m{i}")
            os.makedirs(sub)
            with open(os.path.join(sub, "requirements.txt"), "w") as f:
                f.write("\n".join(lines) + "\n")
        # the real get_installed_version runs too (none of the package names used here is installed in the sandbox): a line without
        # a package name is rejected through it (importlib.metadata refuses the empty name)
        r = process_all_requirements(d, ("", "modules/*"), "requirements.txt")
    return {k: v["version"] for k, v in r.items()}


async def c20_merge_order(w):
    """The selected version must not depend on the order of lines; malformed lines are ignored."""
    import itertools
    from packaging.version import Version
    batteries = [["pkg==notaversion!", "pkg==1.0"], ["pkg==1.9.0", "pkg==1.10.0"], ["pkg", "pkg==2.0", "pkg==10.0"],
                 ["pkg==1.0", "pkg==1.0.0", "pkg"], ["pkg==0.9", "pkg==0.10", "pkg==0.2"]]
    bad = {}
    for lines in batteries:
        pins = []
        for l in lines:
            if "==" in l:
                try:
                    pins.append(Version(l.split("==")[1]))
                except Exception:  # noqa
                    pass
        want = max(pins) if pins else None
        for perm in itertools.permutations(lines):
            for split in (1, len(perm)):
                got = _run_requirements([list(perm[:split]), list(perm[split:])] if split < len(perm) else [list(perm)])
                g = got.get("pkg")
                ok = (want is None and g == "_unpinned_version") or (want is not None and g not in (None, "_unpinned_version") and _ver(g) == want)
                if not ok:
                    bad[" | ".join(perm)] = got
    return {"reproduced": bool(bad), "observed": dict(list(bad.items())[:4]),
            "expected": "highest valid '==' pin for every order of lines and files (malformed pins ignored)"}


def _ver(s):
    from packaging.version import Version
    try:
        return Version(s)
    except Exception:  # noqa
        return None


async def _unused():
    return None


async def c20_scanner_bounded(w):
    """Bounded stand-in for the line scanner: every line form from a small grammar, run through the real
    process_all_requirements (one line per file) and compared with an independent parser."""
    import itertools, re
    names = ["pkg", "my-pkg_2", "a.b"]
    vers = ["1.0", "2.10.3", "1.0rc1"]
    pads = ["", " ", "\t"]
    comments = ["", "# c", " #x==1", "#"]
    cases = []
    for n, p1, p2, c in itertools.product(names, pads, pads, comments):
        cases.append(f"{p1}{n}{p2}{c}")
        for v in vers:
            cases.append(f"{p1}{n}=={v}{p2}{c}")
            cases.append(f"{p1}{n}>={v}{p2}{c}")
            cases.append(f"{p1}{n}<={v}{c}")
            cases.append(f"{p1}{n}=={v},<9{c}")
            cases.append(f"{p1}{n}=={v}=={v}{c}")
    cases += ["", "   ", "#only comment", "  # x", "==1.0", " == 2.5", "==1.0 # c"]
    cases = sorted(set(cases))

    def oracle(line):
        t = line.split("#", 1)[0].strip()
        if not t:
            return {}
        if any(ch in t for ch in ",<>") or t.count("==") > 1:
            return {}
        if "==" in t:
            n, v = t.split("==")
            return {n: v} if n else {}      # a requirement needs a package name
        return {t: "_unpinned_version"}
    failures = []
    for line in cases:
        got = _run_requirements([[line]])
        exp = oracle(line)
        if got != exp:
            failures.append({"signature": "scanner:" + repr(line)[:40], "line": line, "got": got, "expected": exp})
    return {"unit": "process_all_requirements line scanner", "method": "enumeration of line forms vs independent parser",
            "bound": f"{len(cases)} line forms (3 names x 3 versions x paddings x comment forms x specifier forms)",
            "cases": len(cases), "failures": failures[:5], "reproduced": bool(failures)}


class Tracer:
    """Native tracer value: every special method logs an event and answers from a script."""
    LOG = None
    SCRIPT = None  # dict: 'truth' -> list of bools per tracer id; 'fail_at' -> event index at which to raise

    def __init__(self, ident):
        object.__setattr__(self, "_id", ident)

    def _ev(self, what, *others):
        log = Tracer.LOG
        log.append((what, self._id) + tuple(_tid(o) for o in others))
        if len(log) > 300:
            raise RuntimeError("runaway program in replay")
        if Tracer.SCRIPT.get("fail_at") == len(log) - 1:
            raise TracerError(f"scripted failure at event {len(log) - 1}")

    def _new(self, tag):
        return Tracer(f"{tag}({self._id})")


class TracerError(Exception):
    pass


def _tid(o):
    """Identity of an operand for the log, without calling repr()/str() of tracers."""
    if isinstance(o, Tracer):
        return object.__getattribute__(o, "_id")
    if isinstance(o, (list, tuple)):
        return type(o).__name__ + "[" + ",".join(str(_tid(x)) for x in o) + "]"
    if isinstance(o, dict):
        return "dict{" + ",".join(f"{_tid(k)}:{_tid(v)}" for k, v in o.items()) + "}"
    if isinstance(o, (int, float, str, bool, type(None), slice)):
        return repr(o)
    return type(o).__name__


def _mk_tracer_methods():
    def binop(name):
        def f(self, other):
            self._ev(name, other)
            return Tracer(f"{name}({self._id},{_tid(other)})")
        return f
    for n in ["add", "sub", "mul", "truediv", "mod", "pow", "lshift", "rshift", "or", "xor", "and", "floordiv", "matmul",
              "iadd", "isub", "imul", "eq", "ne", "lt", "le", "gt", "ge", "getitem"]:
        setattr(Tracer, f"__{n}__", binop(n))
    for n in ["neg", "pos", "invert", "iter_dummy"]:
        def u(self, n=n):
            self._ev(n)
            return self._new(n)
        setattr(Tracer, f"__{n}__", u)

    def __bool__(self):
        self._ev("bool")
        if "truth_seed" in Tracer.SCRIPT:
            import zlib
            cnt = Tracer.SCRIPT.setdefault("_cnt", {})
            i = cnt.get(str(self._id), 0)
            cnt[str(self._id)] = i + 1
            return zlib.crc32(f"{Tracer.SCRIPT['truth_seed']}:{self._id}:{i}".encode()) % 3 != 0
        t = Tracer.SCRIPT.get("truth", {})
        v = t.get(str(self._id), True)
        if isinstance(v, list):
            cnt = Tracer.SCRIPT.setdefault("_cnt", {})
            i = cnt.get(str(self._id), 0)
            cnt[str(self._id)] = i + 1
            return bool(v[i]) if i < len(v) else False
        return bool(v)

    def __contains__(self, item):
        self._ev("contains", item)
        return bool(Tracer.SCRIPT.get("truth", {}).get("contains", True))

    def __hash__(self):
        self._ev("hash")
        return hash(str(self._id))

    def __str__(self):
        self._ev("str")
        return f"str({self._id})"

    def __repr__(self):
        self._ev("repr")
        return f"repr({self._id})"

    def __format__(self, spec):
        self._ev("format", spec)
        return f"fmt({self._id},{spec})"

    def __call__(self, *a, **k):
        self._ev("call", *a, *[f"{kk}={_tid(v)}" for kk, v in k.items()])
        return Tracer(f"call({self._id})")

    def __getattr__(self, name):
        if name.startswith("__") and name not in ("__name__",):
            raise AttributeError(name)
        self._ev("getattr:" + name)
        return Tracer(f"{self._id}.{name}")

    def __setattr__(self, name, value):
        self._ev("setattr:" + name, value)

    def __setitem__(self, k, v):
        self._ev("setitem", k, v)

    def __delitem__(self, k):
        self._ev("delitem", k)

    def __iter__(self):
        self._ev("iter")
        n = int(Tracer.SCRIPT.get("iter_len", 2))
        return iter([Tracer(f"{self._id}[{i}]") for i in range(n)])

    def keys(self):
        self._ev("keys")
        return ["kk"]

    def __enter__(self):
        self._ev("enter")
        return Tracer(f"enter({self._id})")

    def __exit__(self, et, ev, tb):
        self._ev("exit", "exc" if et is not None else "none")
        return bool(Tracer.SCRIPT.get("suppress", False))

    for f in (__bool__, __contains__, __hash__, __str__, __repr__, __format__, __call__, __getattr__, __setattr__,
              __setitem__, __delitem__, __iter__, keys, __enter__, __exit__):
        setattr(Tracer, f.__name__, f)
    Tracer.__getitem__ = binop("getitem")


_mk_tracer_methods()


def _snapshot_vars(d):
    out = {}
    for k, v in d.items():
        if k in ("t", "fn", "s", "f", "exc_cls", "__builtins__") or k.startswith("__"):
            continue
        tn = type(v).__name__
        if tn == "EvalLocalVar":
            # pyscript keeps a variable captured by an inner function in a cell object; look through it
            if not v.is_defined():
                continue
            v = v.get()
            tn = type(v).__name__
        if tn in ("function", "EvalFuncVar", "EvalFunc"):
            tn = "function"      # a def binds a function object (pyscript's own kind of function object)
            out[k] = (tn, "function")
            continue
        out[k] = (tn, _tid(v))
    return out


async def _run_both(source, mode, script, presets, extra=None):
    """Run source under CPython and under the real AstEval with the same tracer script; returns the two records."""
    import copy
    from custom_components.pyscript.eval import AstEval
    from custom_components.pyscript.function import Function
    from custom_components.pyscript.global_ctx import GlobalContext, GlobalContextMgr
    recs = []
    for which in ("cpython", "pyscript"):
        Tracer.LOG = []
        Tracer.SCRIPT = dict(script)
        Tracer.SCRIPT.pop("_cnt", None)
        t = lambda i: (Tracer.LOG.append(("Ev", i)), _maybe_fail(), Tracer(i))[2]

        def fn(i):
            # a plain (non-tracer) callee: a function that logs its call
            Tracer.LOG.append(("Ev", i))
            _maybe_fail()

            def callee(*a, **k):
                Tracer.LOG.append(("call", i) + tuple(_tid(x) for x in a) + tuple(f"{kk}={_tid(v)}" for kk, v in k.items()))
                _maybe_fail()
                return Tracer(f"call({i})")
            return callee
        g = {"t": t, "fn": fn}
        if extra and extra.get("s"):
            g["s"] = lambda i: (Tracer.LOG.append(("stmt", i)), _maybe_fail(), None)[2]

            def exc_cls(i):
                # the class named by an except clause: matches scripted failures when the operand is 'truthy'
                Tracer.LOG.append(("Ev", i))
                _maybe_fail()
                v = script.get("truth", {}).get(str(i), [True])
                return TracerError if (v[0] if isinstance(v, list) else v) else KeyError
            g["exc_cls"] = exc_cls
        g.update({k: (None if script.get("preset_none") else Tracer(f"var:{k}")) for k in presets})
        res, err = None, None
        try:
            if which == "cpython":
                if mode == "eval":
                    res = eval(compile(source, "<tpl>", "eval", dont_inherit=True), g)
                else:
                    exec(compile(source, "<tpl>", "exec", dont_inherit=True), g)
            else:
                gctx = GlobalContext("tpl", global_sym_table=g, manager=GlobalContextMgr)
                a = AstEval("tpl", global_ctx=gctx)
                Function.install_ast_funcs(a)
                a.parse(source, mode=mode)
                res = await a.eval()
                g = gctx.global_sym_table
        except BaseException as e:  # noqa
            err = type(e).__name__
            if err == "UnboundLocalError" and script.get("name_errors_alike"):
                err = "NameError"   # pyscript's closure cells raise the base class (see NOT_DECIDED of C01/C03)
        Tracer.SCRIPT = dict(script, fail_at=None)  # observing the outcome must not trigger scripted failures
        n_events = len(Tracer.LOG)
        rec = {"result": (type(res).__name__, _tid(res)) if mode == "eval" and err is None else None,
               "exception": err, "vars": _snapshot_vars(g)}
        rec["log"] = [list(map(str, e)) for e in Tracer.LOG[:n_events]]
        recs.append(rec)
    return recs


def _maybe_fail():
    if Tracer.SCRIPT.get("fail_at") == len(Tracer.LOG) - 1:
        raise TracerError(f"scripted failure at event {len(Tracer.LOG) - 1}")


async def c01_template(w):
    """Differential replay of one template: the real AstEval against CPython, with scripted tracer objects
    (all truthiness assignments of the operands x a failure injected at each event position)."""
    import itertools, re
    await boot_full()
    source, mode = w["source"], w["mode"]
    kids = sorted(set(int(x) for x in re.findall(r"t\((\d+)\)", source)))
    presets = [n for n in ("x", "y") if re.search(rf"\b{n}\b", source)] if w.get("preset_vars", True) else []
    diffs = []
    tried = 0
    for truth in itertools.product([True, False], repeat=min(len(kids), 3)):
        tmap = {str(k): v for k, v in zip(kids, truth)}
        for cont in (True, False):
            tmap2 = dict(tmap, contains=cont)
            for fail_at in [None] + list(range(0, 10)):
                for iter_len, preset_none in ((2, False), (0, False), (3, False), (2, True)):
                    if preset_none and not presets:
                        continue
                    script = {"truth": tmap2, "fail_at": fail_at, "iter_len": iter_len, "preset_none": preset_none}
                    tried += 1
                    c, p = await _run_both(source, mode, script, presets)
                    if c != p:
                        diffs.append({"script": script, "cpython": c, "pyscript": p})
                        if len(diffs) >= 2:
                            break
                if len(diffs) >= 2:
                    break
            if len(diffs) >= 2:
                break
        if len(diffs) >= 2:
            break
    await shutdown()
    return {"reproduced": bool(diffs), "observed": diffs[:1], "tried": tried, "source": source,
            "expected": "same result, same ordered tracer log, same exception type, same final variables as CPython"}


async def c02_template(w):
    """Differential replay of a statement template.  Child statements _sK become a logged call s(K) or one of
    break / continue / return; the template runs inside `def f(): for _o in [0]: <template>` so that every
    completion is legal.  All single-child completion variants x truthiness x failure positions are tried."""
    import itertools, re, textwrap
    await boot_full()
    src = w["source"]
    kids = sorted(set(int(x) for x in re.findall(r"_c(\d+)", src)))
    stmts = sorted(set(int(x) for x in re.findall(r"_s(\d+)", src)))
    variants = [dict()]
    for k in stmts:
        for comp in ("break", "continue", "return"):
            variants.append({k: comp})
    diffs, tried = [], 0
    for var in variants:
        body = re.sub(r"_c(\d+)", r"t(\1)", src)

        def rep(m):
            k = int(m.group(1))
            c = var.get(k, "normal")
            return {"normal": f"s({k})", "break": "break", "continue": "continue", "return": f"return t({100 + k})"}[c]
        body = re.sub(r"_s(\d+)", rep, body)
        if re.match(r"\s*return", body) or "\nreturn" in body:
            pass
        prog = "def f():\n    for _o in [0]:\n" + textwrap.indent(body, "        ") + "\n        s(99)\n    return t(98)\nresult = f()\n"
        presets = [n for n in ("x", "y", "e") if re.search(rf"\b{n}\b", src)]
        for truth in itertools.product([[True, True, False], [False], [True, False]], repeat=min(len(kids), 2)):
            tmap = {str(k): list(v) for k, v in zip(kids, truth)}
            for fail_at in [None] + list(range(0, 8)):
                for iter_len, suppress in ((2, False), (0, False), (2, True)):
                    script = {"truth": {k: list(v) for k, v in tmap.items()}, "fail_at": fail_at, "iter_len": iter_len,
                              "suppress": suppress}
                    tried += 1
                    c, p = await _run_both(prog, "exec", script, [], extra={"s": True})
                    if c != p:
                        diffs.append({"variant": {str(k): v for k, v in var.items()}, "script": script, "program": prog, "cpython": c, "pyscript": p})
                        break
                if diffs:
                    break
            if diffs:
                break
        if diffs:
            break
    await shutdown()
    return {"reproduced": bool(diffs), "observed": diffs[:1], "tried": tried, "source": src,
            "expected": "same statements in the same order, same result / exception type as CPython"}


async def c11_classdef_scope(w):
    """An exception in a class body: afterwards the caller must still see its own local variables."""
    await boot_full()
    src = ("def g():\n    mine = 41\n    try:\n        class K:\n            boom = 1 / 0\n"
           "    except ZeroDivisionError:\n        pass\n    return mine + 1\nresult = None\nerr = None\n"
           "try:\n    result = g()\nexcept Exception as e:\n    err = type(e).__name__\n")
    gctx, actx, exc = await run_source("file.c11", src)
    res, err = gctx.global_sym_table.get("result"), gctx.global_sym_table.get("err")
    await shutdown()
    return {"reproduced": res != 42, "observed": {"result": res, "error": err, "load_exception": repr(exc)},
            "expected": "g() returns 42: its local variable is still visible after the failed class definition"}


async def c17_imports(w):
    """Import restriction on real module names: every import form, allow_all_imports off.  Installed modules that are
    NOT on the allow-list must fail with ModuleNotFoundError and bind nothing; allow-listed ones must import."""
    from custom_components.pyscript.const import ALLOWED_IMPORTS
    await boot_full(allow_all_imports=False)
    forbidden = ["os", "asyncio", "reprlib", "timeit", "numbers", "json.decoder", "mathx_does_not_exist", "rex", "jsons", "subprocess"]
    allowed = ["math", "json", "re", "datetime"]
    bad = []
    forms = ["import {m}", "import {m} as zz", "from {m} import *", "import math, {m}", "import json, re, {m}",
             "exec('import {m}')", "exec('import math, {m}')"]
    for m in forbidden:
        for form in forms + (["from {m} import Repr"] if m == "reprlib" else []) + (["from {m} import JSONDecoder"] if m == "json.decoder" else []) \
                + (["from {m} import Number"] if m == "numbers" else []) + (["from {m} import timeit"] if m == "timeit" else []):
            src = form.format(m=m)
            gctx, actx, exc = await run_source("file.c17_" + str(len(bad)) + m.replace(".", "_") + str(forms.index(form) if form in forms else 9), src)
            leaked = [k for k in gctx.global_sym_table if k not in ("__name__", "math", "json", "re")]
            if m in ALLOWED_IMPORTS:
                continue
            if not isinstance(exc, ModuleNotFoundError) or leaked:
                bad.append({"source": src, "exception": repr(exc), "bound": leaked})
    for m in allowed:
        gctx, actx, exc = await run_source("file.c17ok_" + m, f"import {m}")
        if exc is not None or m not in gctx.global_sym_table:
            bad.append({"source": f"import {m}", "exception": repr(exc), "bound": list(gctx.global_sym_table)})
    await shutdown()
    return {"reproduced": bool(bad), "observed": bad[:4],
            "expected": "ModuleNotFoundError and nothing bound for modules off the allow-list; allow-listed modules import"}


async def c18_new_subsystem_function_error(w):
    """An @event_trigger function that raises (new subsystem): the error must be reported once on the SCRIPT's logger
    with the traceback, not on pyscript's own function logger."""
    hass = await boot_full(legacy=False)
    LOGS.clear()
    src = '@event_trigger("boom_event")\ndef f(**kw):\n    x = 1\n    raise ValueError("user error here")\n'
    gctx, actx, exc = await run_source("file.c18", src)
    await settle(10)
    cbs = hass.bus.listeners.get("boom_event", [])
    from types import SimpleNamespace as NS
    for cb in list(cbs):
        await cb(NS(event_type="boom_event", context=None, data={}))
    await settle(30)
    recs = [(r.name, r.getMessage()[:200]) for r in LOGS if r.levelno >= 40]
    on_script = [r for r in recs if ".file.c18" in r[0]]
    elsewhere = [r for r in recs if ".file.c18" not in r[0]]
    await shutdown()
    rep = len(on_script) != 1 or bool(elsewhere)
    return {"reproduced": rep, "observed": {"listeners": len(cbs), "error_records": recs[:4]},
            "expected": "exactly one error record on the script's logger custom_components.pyscript.file.c18[.f] (with traceback), none elsewhere"}


async def c18_expression_error(w):
    """An @event_trigger filter expression that raises the exception class named by the witness (new subsystem): reported once
    on the script's logger, nothing escapes into Home Assistant's listener, and the function does not run."""
    hass = await boot_full(legacy=False)
    LOGS.clear()
    cls = w.get("exception", "TimeoutError")
    if cls == "UserException":
        cls = "ValueError"
    ran = []
    src = ('def helper():\n    raise ' + cls + '("helper gave up")\n\n'
           '@event_trigger("boom_event", "helper()")\ndef f(**kw):\n    ran_append(1)\n')
    from custom_components.pyscript.global_ctx import GlobalContext, GlobalContextMgr
    gctx = GlobalContext("file.c18e", global_sym_table={"__name__": "file.c18e", "ran_append": ran.append}, manager=GlobalContextMgr)
    GlobalContextMgr.set("file.c18e", gctx)
    gctx.set_auto_start(True)
    _, actx, exc = await run_source("file.c18e", src, global_ctx=gctx)
    await settle(10)
    cbs = hass.bus.listeners.get("boom_event", [])
    from types import SimpleNamespace as NS
    escaped = []
    for cb in list(cbs):
        try:
            await cb(NS(event_type="boom_event", context=None, data={}))
        except BaseException as e:  # noqa
            escaped.append(repr(e))
    await settle(30)
    recs = [(r.name, r.getMessage()[:160]) for r in LOGS if r.levelno >= 40]
    on_script = [r for r in recs if ".file.c18e" in r[0]]
    await shutdown()
    rep = bool(escaped) or len(on_script) != 1 or bool(ran) or len(cbs) != 1
    return {"reproduced": rep, "observed": {"listeners": len(cbs), "escaped_into_home_assistant": escaped, "error_records": recs[:4], "function_ran": len(ran)},
            "expected": "one error record on the script's logger, nothing raised into the bus listener, function not run"}


def _gen_fault_programs():
    faults = {"zerodiv": "1 / 0", "name": "undefined_name_xyz", "raise": "raise ValueError('v')", "index": "[][1]"}
    wraps = {
        "plain": "{F}",
        "if": "if True:\n    {F}",
        "for": "for _i in [1]:\n    {F}",
        "tryfinally": "try:\n    {F}\nfinally:\n    z = 3",
        "while": "while True:\n    {F}\n    break",
    }
    import textwrap
    progs = []
    for depth in (1, 2, 3):
        for fk, fsrc in faults.items():
            for wk, wsrc in wraps.items():
                for pos in (0, 2):
                    body = ["a = 1", "b = 2", "c = 3"]
                    stmt = wsrc.replace("{F}", fsrc)
                    body.insert(pos, stmt)
                    src = ""
                    for d in range(depth - 1, -1, -1):
                        inner = "\n".join(body) if d == depth - 1 else f"q = 0\nreturn f{d + 1}(x) + 1"
                        if d == depth - 1:
                            inner += "\nreturn 0"
                        src += f"def f{d}(x):\n" + textwrap.indent(inner, "    ") + "\n\n"
                    src += "pre = 5\nresult = f0(1)\n"
                    progs.append((f"depth={depth},fault={fk},wrap={wk},pos={pos}", src))
    # natively compiled functions (@pyscript_compile) called from interpreted code: the frame CPython itself ran.  The
    # enclosing constructs matter here because the frame goes on executing clean-up code while the exception unwinds
    nwraps = dict(wraps)
    nwraps["tryexcept-other"] = "try:\n    {F}\nexcept KeyError:\n    z = 4"
    nwraps["nested-finally"] = "try:\n    try:\n        {F}\n    finally:\n        z = 3\nfinally:\n    z = 4\n    z = 5"
    for fk, fsrc in faults.items():
        for wk, wsrc in nwraps.items():
            body = ["a = 1", wsrc.replace("{F}", fsrc), "b = 2", "return 0"]
            src = "@pyscript_compile\ndef native(x):\n" + textwrap.indent("\n".join(body), "    ") + "\n\n"
            src += "def f0(x):\n    q = 0\n    return native(x) + 1\n\npre = 5\nresult = f0(1)\n"
            progs.append((f"native,fault={fk},wrap={wk}", src))
    return progs


async def c18_traceback_bounded(w):
    """Bounded stand-in: (function, line) of every script frame in pyscript's reconstructed traceback against
    CPython's own traceback for the same source."""
    import traceback
    from custom_components.pyscript.eval import AstEval, EvalExceptionFormatter
    from custom_components.pyscript.function import Function
    from custom_components.pyscript.global_ctx import GlobalContext, GlobalContextMgr
    await boot_full()
    failures, n = [], 0
    for label, src in _gen_fault_programs():
        n += 1
        fname = "/cfg/pyscript/tb.py"
        try:
            exec(compile(src, fname, "exec", dont_inherit=True), {"pyscript_compile": lambda f: f})
            cpy = None
        except Exception as e:  # noqa
            cpy = (type(e).__name__, [(fr.name, fr.lineno) for fr in traceback.extract_tb(e.__traceback__) if fr.filename == fname])
        gctx = GlobalContext("file.tb", global_sym_table={"__name__": "file.tb"}, manager=GlobalContextMgr)
        gctx.file_path = fname
        gctx.source = src
        a = AstEval("file.tb", global_ctx=gctx)
        Function.install_ast_funcs(a)
        a.parse(src, filename=fname)
        try:
            await a.eval()
            pys = None
        except Exception as e:  # noqa
            f = EvalExceptionFormatter(e)
            pys = (type(e).__name__, [(fr.name, fr.lineno) for fr in f.stack if fr.filename == fname])
        # module-level frame: CPython names it <module>, pyscript names it after the context
        norm = lambda t: None if t is None else (t[0], [("<module>" if nm in ("<module>", "file.tb", None) else nm, ln) for nm, ln in t[1]])
        if norm(cpy) != norm(pys):
            failures.append({"signature": "traceback:" + label, "program": src, "cpython": norm(cpy), "pyscript": norm(pys)})
    # chained exceptions: "raise X from Y", implicit context (raise inside except), "raise X from None" (context suppressed),
    # and nestings of them: the chain pyscript reports = the chain Python's own traceback reports
    chain_programs = {
        "from-cause": "def f():\n    try:\n        1 / 0\n    except ZeroDivisionError as e:\n        raise ValueError('v') from e\nf()\n",
        "implicit-context": "def f():\n    try:\n        1 / 0\n    except ZeroDivisionError:\n        raise ValueError('v')\nf()\n",
        "from-none": "def f():\n    try:\n        1 / 0\n    except ZeroDivisionError:\n        raise ValueError('v') from None\nf()\n",
        "from-none-after-context": "def f():\n    try:\n        try:\n            1 / 0\n        except ZeroDivisionError:\n            raise KeyError('k')\n    except KeyError:\n        raise ValueError('v') from None\nf()\n",
        "cause-with-own-context": "def f():\n    try:\n        try:\n            1 / 0\n        except ZeroDivisionError:\n            raise KeyError('k')\n    except KeyError as e:\n        raise ValueError('v') from e\nf()\n",
        "plain": "def f():\n    raise ValueError('v')\nf()\n",
    }
    for label, src in chain_programs.items():
        n += 1
        fname = "/cfg/pyscript/chain.py"

        def chain_py(e):
            out, te = [], traceback.TracebackException.from_exception(e)
            while te is not None:
                nxt, kind = (te.__cause__, "cause") if te.__cause__ is not None else ((te.__context__, "context") if te.__context__ is not None and not te.__suppress_context__ else (None, None))
                out.append((te.exc_type.__name__, kind))
                te = nxt
            return out
        try:
            exec(compile(src, fname, "exec", dont_inherit=True), {})
            cpy = None
        except Exception as e:  # noqa
            cpy = chain_py(e)
        gctx = GlobalContext("file.chain", global_sym_table={"__name__": "file.chain"}, manager=GlobalContextMgr)
        gctx.file_path, gctx.source = fname, src
        a = AstEval("file.chain", global_ctx=gctx)
        Function.install_ast_funcs(a)
        a.parse(src, filename=fname)
        try:
            await a.eval()
            pys = None
        except Exception as e:  # noqa
            f, pys = EvalExceptionFormatter(e), []
            while f is not None:
                nxt = getattr(f, "chained_exc", None)
                kind = None if nxt is None else ("cause" if getattr(f, "chained_msg", None) == traceback._cause_message else "context")
                pys.append((type(f.exc).__name__ if hasattr(f, "exc") else "?", kind))
                f = nxt
        if cpy != pys:
            failures.append({"signature": "chain:" + label, "program": src, "cpython": cpy, "pyscript": pys})
    # cross-file call chain: a function defined in one file, called from another (as after an import)
    n += 1
    ga = GlobalContext("modules.mymod", global_sym_table={"__name__": "mymod"}, manager=GlobalContextMgr)
    ga.file_path, ga.source = "/cfg/pyscript/modules/mymod.py", "k = 2\n\ndef scale(x):\n    y = x + k\n    return y / 0\n"
    aa = AstEval("modules.mymod", global_ctx=ga)
    Function.install_ast_funcs(aa)
    aa.parse(ga.source, filename=ga.file_path)
    await aa.eval()
    gb = GlobalContext("file.caller", global_sym_table={"__name__": "file.caller", "scale": ga.global_sym_table["scale"]}, manager=GlobalContextMgr)
    gb.file_path, gb.source = "/cfg/pyscript/caller.py", "def run():\n    z = 1\n    return scale(z)\n\nout = run()\n"
    ab = AstEval("file.caller", global_ctx=gb)
    Function.install_ast_funcs(ab)
    ab.parse(gb.source, filename=gb.file_path)
    try:
        await ab.eval()
        got = None
    except Exception as e:  # noqa
        got = [(fr.filename, fr.name, fr.lineno) for fr in EvalExceptionFormatter(e).stack if fr.filename.startswith("/cfg/")]
    want = [("/cfg/pyscript/caller.py", "file.caller", 5), ("/cfg/pyscript/caller.py", "run", 3), ("/cfg/pyscript/modules/mymod.py", "scale", 5)]
    if got != want:
        failures.append({"signature": "traceback:cross-file", "pyscript": got, "expected": want})
    # the report reaches the script's logger verbatim, whatever characters the message contains
    n += 1
    LOGS.clear()
    gc = GlobalContext("file.pct", global_sym_table={"__name__": "file.pct"}, manager=GlobalContextMgr)
    gc.file_path, gc.source = "/cfg/pyscript/pct.py", "raise ValueError('100% wrong %s %d')\n"
    ac = AstEval("file.pct", global_ctx=gc)
    Function.install_ast_funcs(ac)
    ac.parse(gc.source, filename=gc.file_path)
    try:
        await ac.eval()
    except Exception as e:  # noqa
        ac.log_exception(e)
    msgs = []
    for r in LOGS:
        try:
            msgs.append((r.name, r.getMessage()))
        except Exception as e2:  # noqa
            msgs.append((r.name, f"<unrenderable record: {e2!r}>"))
    if not any("ValueError: 100% wrong %s %d" in m for _, m in msgs):
        failures.append({"signature": "log:percent-in-message", "records": msgs[:3]})
    await shutdown()
    return {"unit": "EvalExceptionFormatter (file, function, line) attribution", "method": "generated faulty programs vs CPython traceback",
            "bound": "call depth 1-3 x 4 fault kinds x 5 enclosing constructs x 2 positions; a natively compiled (@pyscript_compile) callee x 4 fault kinds x 7 enclosing constructs; 6 exception-chaining programs (cause / context / from None)", "cases": n, "failures": failures[:5],
            "reproduced": bool(failures)}


async def c03_binding(w):
    """One call shape natively: the real pyscript function against CPython (same source)."""
    await boot_full()
    sig = w["sig"]
    import re
    sig_py = re.sub(r"(\w+)_default", r"'default:\1'", sig)
    args = ", ".join([f"'pos{i}'" for i in range(w["npos"])] + [f"{k}='kw:{k}'" for k in w["kws"]])
    src = f"def f({sig_py}):\n    return dict(locals())\nerr = None\nres = None\ntry:\n    res = f({args})\nexcept TypeError as e:\n    err = 'TypeError'\n"
    g = {}
    exec(compile(src, "<b>", "exec", dont_inherit=True), g)
    cpy = (g["err"], g["res"])
    gctx, actx, exc = await run_source("file.c03b", src)
    pys = (gctx.global_sym_table.get("err"), gctx.global_sym_table.get("res"))
    await shutdown()
    return {"reproduced": cpy != pys, "observed": {"source": src, "cpython": cpy, "pyscript": pys, "load_exception": repr(exc)},
            "expected": "same bound arguments or TypeError as CPython"}


async def c03_lookup_order(w):
    """Inside a function a user-defined GLOBAL must shadow pyscript's builtin-level functions (print)."""
    await boot_full()
    src = ("out = []\ndef print(*a):\n    out.append(a)\n\ndef f():\n    print('hi')\n    return len(out)\n\nr = f()\n"
           "def g():\n    v = print\n    print = 3\n    return v\ne2 = None\ntry:\n    g()\nexcept UnboundLocalError:\n    e2 = 'UnboundLocalError'\nexcept Exception as e:\n    e2 = type(e).__name__\n")
    g = {}
    exec(compile(src, "<l>", "exec", dont_inherit=True), g)
    cpy = (g["r"], g["e2"])
    gctx, actx, exc = await run_source("file.c03l", src)
    pys = (gctx.global_sym_table.get("r"), gctx.global_sym_table.get("e2"))
    await shutdown()
    return {"reproduced": cpy != pys, "observed": {"cpython (r, error)": cpy, "pyscript (r, error)": pys, "load_exception": repr(exc)},
            "expected": "a global named print defined by the script is the one called inside its functions"}


async def c03_definition_order(w):
    return await c01_template(w)


PROGRAMS_C03 = [
    ("comprehension-in-class-body-sees-class-variables", "b = 'B'\nc = 'C'\nclass K:\n    c = b\n    p = {c for x in [1]}\n    q = [c for x in [1]]\nr = [K.p, K.q]\n"),
    # (the next three were added after round-2 seeds C03-3 / C03-4 had shown the gap: not written blind)
    ("duplicate-keyword-after-mapping", "def f(a=0, **kw):\n    return (a, kw)\nd = {'a': 1}\ntry:\n    r = f(**d, a=2)\nexcept TypeError:\n    r = 'TypeError'\nr2 = f(**{'b': 1}, a=2)\n"),
    ("same-name-in-two-enclosing-functions-class-between", "def outer():\n    x = 'outer'\n    def middle():\n        x = 'middle'\n        class C:\n            def m(self):\n                return x\n        return C().m()\n    return [middle(), x]\nr = outer()\n"),
    ("nonlocal-write-through-class-between", "def outer():\n    x = 0\n    def middle():\n        x = 10\n        class C:\n            def bump(self):\n                nonlocal x\n                x += 1\n                return x\n        c = C()\n        return [c.bump(), c.bump(), x]\n    return [middle(), x]\nr = outer()\n"),
    ("lambda-closure", "def f():\n    x = 41\n    g = lambda y: x + y\n    return g(1)\nr = f()\n"),
    ("duplicate-keyword-via-mapping", "def f(p, k=None):\n    return (p, k)\ntry:\n    r = f(1, k=2, **{'k': 3})\nexcept TypeError:\n    r = 'TypeError'\n"),
    ("annotated-assignment-is-local", "x = 1\ndef f():\n    try:\n        return x\n    except NameError as e:\n        return 'unbound'\n    x: int = 2\nr = f()\n"),
    ("walrus-in-lambda-is-lambda-local", "c = 5\ndef h():\n    g = lambda z: (c := z)\n    return c\nr = h()\n"),
    ("del-attribute-of-object", "class K:\n    def __init__(self):\n        self.x = 1\n    def drop(self):\n        del self.x\nk = K()\nk.drop()\nr = hasattr(k, 'x')\n"),
    ("closure-counter", "def mk():\n    n = 0\n    def inc():\n        nonlocal n\n        n += 1\n        return n\n    return inc\nc = mk()\nr = [c(), c(), mk()()]\n"),
    ("closures-in-loop", "fs = []\nfor i in range(3):\n    def f(j=i):\n        return (i, j)\n    fs.append(f)\nr = [f() for f in fs]\n"),
    ("global-decl", "g = 1\ndef f():\n    global g\n    g = g + 1\n    return g\nr = [f(), f(), g]\n"),
    ("recursion", "def fact(n):\n    return 1 if n <= 1 else n * fact(n - 1)\nr = [fact(k) for k in range(6)]\n"),
    ("user-decorator", "log = []\ndef deco(tag):\n    log.append('eval ' + tag)\n    def w(fn):\n        log.append('apply ' + tag)\n        def inner(*a, **k):\n            return (tag, fn(*a, **k))\n        return inner\n    return w\n@deco('a')\n@deco('b')\ndef f(x):\n    return x + 1\nr = [f(1), log]\n"),
    ("defaults-once", "calls = []\ndef d():\n    calls.append(1)\n    return []\ndef f(x=d()):\n    x.append(1)\n    return len(x)\nr = [f(), f(), len(calls)]\n"),
    ("class-methods", "class K:\n    z = 10\n    def __init__(self, v):\n        self.v = v\n    def add(self, w):\n        return self.v + w + self.z\nk = K(1)\nr = [k.add(2), K(5).add(1), K.z]\n"),
    ("class-closure", "def mk(base):\n    class C:\n        def get(self):\n            return base * 2\n    return C\nr = mk(21)().get()\n"),
    ("unbound-local", "x = 1\ndef f():\n    try:\n        y = x\n    except UnboundLocalError:\n        return 'unbound'\n    x = 2\n    return y\nr = f()\n"),
    ("comprehension-scope", "x = 'outer'\ndef f():\n    return [x for _ in range(2)]\ndef g():\n    ys = [x for x in range(3)]\n    return ys\nr = [f(), g(), x]\n"),
    ("comprehension-does-not-make-local", "x = 1\ndef g():\n    ys = [x for x in range(2)]\n    return x\nr = None\ntry:\n    r = g()\nexcept Exception as e:\n    r = type(e).__name__\n"),
    ("kwonly-and-star", "def f(a, *rest, k=3, **kw):\n    return (a, rest, k, sorted(kw))\nr = [f(1), f(1, 2, 3, k=4, z=5), f(*[1, 2], **{'k': 9})]\n"),
    ("nested-def-in-else", "def outer(flag):\n    v = 7\n    if flag:\n        pass\n    else:\n        def inner():\n            return v\n        return inner()\n    return None\nr = outer(False)\n"),
    ("global-in-callee-that-raises", "helper = 'global'\ndef bad():\n    global helper\n    raise ValueError('x')\ndef caller():\n    helper = 'local'\n    try:\n        bad()\n    except ValueError:\n        pass\n    return helper\nr = [caller(), helper]\n"),
    ("lambda", "add = lambda a, b=2: a + b\nr = [add(1), add(1, 1), (lambda: 5)()]\n"),
    ("pyscript-compile", "@pyscript_compile\ndef native(a, b=1):\n    return [a + b for _ in range(2)]\nr = native(2)\n"),
    ("method-bound-later", "class A:\n    def m(self):\n        return 'm'\nf = A().m\nr = f()\n"),
    ("typeerror-missing", "def f(a, b):\n    return a\nr = None\ntry:\n    f(1)\nexcept TypeError:\n    r = 'TypeError'\n"),
]


PROGRAMS_C01 = [
    # one expression node evaluated several times: every evaluation of a display builds NEW containers
    ("tuple-of-lists-in-function", "def f():\n    return ([0], [1])\na = f()\na[0].append(9)\nb = f()\nr = [a, b, a[0] is b[0]]\n"),
    ("tuple-of-lists-in-loop", "r = []\nfor i in range(3):\n    t = ('k', [1, 2])\n    t[1].append(i)\n    r.append(t)\n"),
    ("list-of-lists-in-loop", "r = []\nfor i in range(3):\n    t = [[], [0]]\n    t[0].append(i)\n    r.append(t)\n"),
    ("nested-tuple-literal-identity", "def f():\n    return (1, (2, [3]))\nx = f()\ny = f()\nx[1][1].append(4)\nr = [x, y]\n"),
    ("dict-display-in-function", "def f():\n    return {'a': [1], 'b': (2, [3])}\nx = f()\nx['a'].append(5)\nx['b'][1].append(6)\nr = [x, f()]\n"),
    ("set-and-list-display-in-comprehension", "r = [([0], {1}) for _ in range(2)]\nr[0][0].append(7)\nr[0][1].add(8)\n"),
    ("default-vs-body-display", "def f(d=([0],)):\n    e = ([0],)\n    d[0].append(1)\n    e[0].append(1)\n    return [d, e]\nf()\nr = f()\n"),
    ("fstring-and-slice-reevaluated", "r = []\nfor i in range(3):\n    s = [10, 20, 30, 40][i:]\n    r.append(f'{i}:{s}')\n"),
    ("augmented-on-fresh-display", "r = []\nfor i in range(2):\n    t = ([1],)\n    t[0].extend([i])\n    u = [0] * 2\n    u[i] += 5\n    r.append((t, u))\n"),
    ("lambda-returning-display", "g = lambda: ('x', [1])\na = g()\na[1].append(2)\nr = [a, g()]\n"),
]


PROGRAMS_C02 = [
    # containers changed by the loop that walks them: Python's for statement asks the live container for the next element
    ("for-worklist-grows", "todo = [1]\nseen = []\nfor x in todo:\n    seen.append(x)\n    if x < 4:\n        todo.append(x + 1)\nelse:\n    seen.append('else')\nr = seen\n"),
    ("for-worklist-break", "todo = [1]\nr = 'no'\nfor x in todo:\n    if x == 3:\n        r = 'found'\n        break\n    todo.append(x + 1)\nelse:\n    r = 'else'\n"),
    ("for-remove-current", "a = [1, 2, 3, 4, 5]\nseen = []\nfor x in a:\n    seen.append(x)\n    a.remove(x)\nr = [seen, a]\n"),
    ("for-dict-grows", "d = {1: 1}\nr = []\ntry:\n    for k in d:\n        d[k + 1] = 1\n    else:\n        r.append('else')\nexcept RuntimeError:\n    r.append('RuntimeError')\nelse:\n    r.append('try-else')\nfinally:\n    r.append('finally')\n"),
    ("for-set-grows", "s = {1}\nr = 'none'\ntry:\n    for k in s:\n        s.add(k + 100)\nexcept RuntimeError:\n    r = 'RuntimeError'\n"),
    ("for-list-cleared", "a = [1, 2, 3]\nn = 0\nfor x in a:\n    n += 1\n    a.clear()\nr = n\n"),
    ("for-over-iterator-shared", "it = iter([1, 2, 3, 4])\nr = []\nfor x in it:\n    r.append(x)\n    next(it, None)\n"),
    ("with-exit-sees-loop-error", "class M:\n    def __init__(self):\n        self.got = None\n    def __enter__(self):\n        return self\n    def __exit__(self, t, v, tb):\n        self.got = t.__name__ if t else None\n        return True\nm = M()\nd = {1: 1}\nwith m:\n    for k in d:\n        d[k + 1] = 1\nr = m.got\n"),
    ("while-else-continue-finally", "r = []\ni = 0\nwhile i < 3:\n    i += 1\n    try:\n        if i == 2:\n            continue\n        r.append(i)\n    finally:\n        r.append('f')\nelse:\n    r.append('else')\n"),
    ("nested-break-inner-only", "r = []\nfor i in [1, 2]:\n    for j in [1, 2, 3]:\n        if j == 2:\n            break\n        r.append((i, j))\n    else:\n        r.append('inner-else')\nelse:\n    r.append('outer-else')\n"),
    ("return-in-finally-overrides", "def f():\n    try:\n        raise ValueError('x')\n    finally:\n        return 'finally'\nr = f()\n"),
    ("reraise-bare-in-nested-handler", "r = []\ntry:\n    try:\n        raise KeyError('k')\n    except KeyError:\n        try:\n            raise ValueError('v')\n        except ValueError:\n            pass\n        raise\nexcept KeyError as e:\n    r.append('KeyError')\n"),
]


async def c03_programs_bounded(w):
    """Bounded stand-in for closures / classes / decorators / recursion / scoping: fixed multi-function programs run
    by the real interpreter and by CPython; the value of `r` must agree."""
    await boot_full()
    failures = []
    which = w.get("set", "C03")
    programs = {"C01": PROGRAMS_C01, "C02": PROGRAMS_C02}.get(which, PROGRAMS_C03)
    for label, src in programs:
        g = {"pyscript_compile": lambda f: f}
        err = None
        try:
            exec(compile(src, "<p>", "exec", dont_inherit=True), g)
            cpy = repr(g.get("r"))
        except Exception as e:  # noqa
            cpy = "exception:" + type(e).__name__
        gctx, actx, exc = await run_source("file.prog_" + label.replace("-", "_"), src)
        pys = repr(gctx.global_sym_table.get("r")) if exc is None else "exception:" + type(exc).__name__
        if cpy != pys:
            failures.append({"signature": "program:" + label, "source": src, "cpython": cpy, "pyscript": pys})
    await shutdown()
    unit = {"C01": "expression nodes evaluated several times (displays build new containers each time)",
            "C02": "loops over containers the body changes, nested exits"}.get(which, "closures / classes / decorators / scoping")
    return {"unit": unit, "method": "fixed programs vs CPython",
            "bound": f"{len(programs)} programs (nesting depth <= 3)", "cases": len(programs), "failures": failures,
            "reproduced": bool(failures)}


async def c04_ident(w):
    """ident_any_values_changed / ident_values_changed on concrete values built from the solver model, against the
    statement's predicate computed independently."""
    from types import SimpleNamespace as NS
    from custom_components.pyscript.state import StateVal
    from custom_components.pyscript import trigger as T
    await boot()

    def mk(shape, s, tag):
        if shape is None:
            return None
        attrs = {a: f"{tag}-{a}" for a in shape}
        return StateVal(NS(state=s, attributes=attrs, entity_id="d.e", last_updated=tag + "lu", last_changed=tag + "lc", last_reported=tag + "lr"))
    new_s = "on"
    old_s = "on" if not w.get("value_changed") else "off"
    value, old = mk(w["value_shape"], new_s, "n"), mk(w["old_shape"], old_s, "o")
    idents = []
    for i in w["idents"]:
        base = "d.e" if i["same_entity"] else "x.y"
        attr = i["attr"].split(":", 1)[1] if ":" in i["attr"] else "zzz"
        n = i["nparts"]
        idents.append({1: "solo", 2: base, 3: f"{base}.{attr}", 4: f"{base}.{attr}.more"}.get(n, base))
    fa = {"trigger_type": "state", "var_name": "d.e", "value": value, "old_value": old}
    got = getattr(T, w["which"])(fa, set(idents))
    sv = lambda v: None if v is None else str(v)
    ga = lambda v, a: getattr(v, a, None)
    if w["which"] == "ident_any_values_changed":
        want = False
        for n in idents:
            p = n.split(".")
            if n == "d.e" and sv(value) != sv(old):
                want = True
            if len(p) == 3 and p[:2] == ["d", "e"]:
                if p[2] == "*":
                    names = set(value.__dict__ if value is not None else ()) | set(old.__dict__ if old is not None else ())
                    names -= {"entity_id", "last_changed", "last_updated", "last_reported"}
                    want = want or any(ga(value, a) != ga(old, a) for a in names)
                else:
                    want = want or ga(value, p[2]) != ga(old, p[2])
    else:
        want = False
        for n in idents:
            p = n.split(".")
            if len(p) in (2, 3) and p[:2] == ["d", "e"]:
                if len(p) == 2 or p[2] == "old":
                    want = want or sv(value) != sv(old)
                else:
                    want = want or ga(value, p[2]) != ga(old, p[2])
    await shutdown()
    return {"reproduced": bool(got) != bool(want), "observed": {"idents": idents, "returned": got, "specified": want},
            "expected": "the function equals the statement's qualifying predicate"}


# ---------------------------------------------------------------------------------------------------------
# C05: timed histories on a virtual clock, both subsystems, against the statement's automaton
# ---------------------------------------------------------------------------------------------------------
def install_virtual_time(loop, t0=1000.0):
    """Virtual clock on the running loop: whenever the loop would sleep, time jumps to the next deadline instead."""
    vt = [t0]

    def vtime():
        # every reading advances the clock by a nanosecond: code that spins until "a microsecond has passed" makes progress
        vt[0] += 1e-9
        return vt[0]
    loop.time = vtime
    sel = loop._selector
    orig = sel.select

    def select(timeout=None):
        ev = orig(0)
        if ev or timeout is None or timeout <= 0:
            return ev if (ev or timeout is not None) else orig(0.01)
        vt[0] += timeout
        return []
    sel.select = select
    return vt


def c05_reference(cfg, initial_truth, history):
    """The statement's automaton (DESIGN 4/C05).  history: [(t, kind, label)], kind in {'true','false','attr'}.
    Returns the runs [(t, label)] with label None for the definition-time check."""
    S, H, check_now = cfg["S"], cfg["H"], bool(cfg["check_now"])
    runs, pend, fsince = [], None, None

    def fire_due(until):
        nonlocal pend
        if pend is not None and pend[0] + S <= until:
            runs.append((pend[0] + S, pend[1]))
            pend = None

    def qualify(t, label):
        nonlocal pend
        if S is None:
            runs.append((t, label))
        elif pend is None:
            pend = (t, label)
    if check_now or H is not None:
        if H is not None:
            fsince = None if initial_truth else 0.0
        if check_now and initial_truth:
            qualify(0.0, None)
    for (t, kind, label) in history:
        if S is not None:
            fire_due(t)
        if kind == "attr":
            continue
        truth = kind == "true"
        if H is None:
            q = truth
        elif truth:
            q = fsince is not None and t - fsince >= H
            fsince = None
        else:
            q = False
            fsince = fsince if fsince is not None else t
        if q:
            qualify(t, label)
        if not truth:
            pend = None
    if S is not None:
        fire_due(float("inf"))
    return runs


async def c05_env(legacy):
    from types import SimpleNamespace as NS
    from custom_components.pyscript import trigger as T
    import datetime as dtm
    loop = asyncio.get_running_loop()
    hass = await boot_full(legacy=legacy)
    table = fake_states(hass)
    vt = getattr(loop, "_c05_vt", None) or install_virtual_time(loop)
    loop._c05_vt = vt
    base = dtm.datetime(2024, 1, 1, 12, 0, 0)
    T.time = NS(monotonic=lambda: vt[0])
    T.dt_now = lambda: base + dtm.timedelta(seconds=vt[0] - 1000.0)
    return NS(hass=hass, table=table, vt=vt, n=0)


async def c05_run_history(env, cfg, initial_truth, history, horizon):
    """Drive the REAL subsystem through the timed history; returns the observed runs [(t, label)]."""
    from types import SimpleNamespace as NS
    from custom_components.pyscript.state import State, StateVal
    from custom_components.pyscript.global_ctx import GlobalContext, GlobalContextMgr
    vt, table = env.vt, env.table
    t0 = vt[0]
    runs = []
    table["pyscript.v"] = (str(10 if initial_truth else -10), {"a": "0"})
    State.notify_var_last.clear()  # each history starts from a fresh state table (as a fresh process would)
    kw = []
    for k, name in (("S", "state_hold"), ("H", "state_hold_false")):
        if cfg[k] is not None:
            kw.append(f"{name}={cfg[k]!r}")
    if cfg["check_now"] is not None:
        kw.append(f"state_check_now={cfg['check_now']!r}")
    src = f'@state_trigger("int(pyscript.v) > 0"{"".join(", " + k for k in kw)})\ndef f(**kw):\n    record(kw)\n'
    env.n += 1
    name = f"file.c05_{env.n}"
    gctx = GlobalContext(name, global_sym_table={"__name__": name, "record": lambda kw_: runs.append((round(vt[0] - t0, 6), kw_.get("value")))},
                         manager=GlobalContextMgr)
    GlobalContextMgr.set(name, gctx)
    gctx.set_auto_start(True)
    _, _, exc = await run_source(name, src, global_ctx=gctx)
    await settle(30)

    def sv(val, attr):
        return StateVal(NS(state=val, attributes={"a": attr}, entity_id="pyscript.v", last_updated="u", last_changed="c", last_reported="r"))
    attr_n = 0
    for (t, kind, label) in history:
        await asyncio.sleep(max(0.0, t - (vt[0] - t0)))
        old_s, old_a = table["pyscript.v"]
        if kind == "attr":
            attr_n += 1
            new_s, new_a = old_s, {"a": str(attr_n)}
        else:
            mag = abs(int(old_s)) + 1
            new_s, new_a = str(mag if kind == "true" else -mag), dict(old_a)
        table["pyscript.v"] = (new_s, new_a)
        new_val, old_val = sv(new_s, new_a["a"]), sv(old_s, old_a["a"])
        new_val.label = label
        await State.update({"pyscript.v": new_val, "pyscript.v.old": old_val},
                           {"trigger_type": "state", "var_name": "pyscript.v", "value": new_val, "old_value": old_val, "context": None})
        await settle(30)
    await asyncio.sleep(max(0.0, horizon - (vt[0] - t0)))
    await settle(30)
    gctx.stop()
    GlobalContextMgr.delete(name)
    await settle(10)
    out = [(t, getattr(v, "label", None)) for (t, v) in runs]
    return out, exc


async def c05_run_wait_until(env, cfg, initial_truth, history, horizon):
    """task.wait_until(state_trigger=..., state_hold=, state_hold_false=, state_check_now=) on the REAL subsystem through the
    timed history; returns [(t, label)] of the (single) return, [] if it has not returned by the horizon."""
    from types import SimpleNamespace as NS
    from custom_components.pyscript.state import State, StateVal
    from custom_components.pyscript.global_ctx import GlobalContext, GlobalContextMgr
    vt, table = env.vt, env.table
    t0 = vt[0]
    runs = []
    table["pyscript.v"] = (str(10 if initial_truth else -10), {"a": "0"})
    State.notify_var_last.clear()
    kw = []
    for k, name in (("S", "state_hold"), ("H", "state_hold_false")):
        if cfg[k] is not None:
            kw.append(f"{name}={cfg[k]!r}")
    if cfg["check_now"] is not None:
        kw.append(f"state_check_now={cfg['check_now']!r}")
    src = ('@time_trigger("startup")\ndef f():\n    r = task.wait_until(state_trigger="int(pyscript.v) > 0"' + "".join(", " + k for k in kw) + ')\n    record(r)\n')
    env.n += 1
    name = f"file.c05w_{env.n}"
    gctx = GlobalContext(name, global_sym_table={"__name__": name, "record": lambda r: runs.append((round(vt[0] - t0, 6), (r or {}).get("value")))},
                         manager=GlobalContextMgr)
    GlobalContextMgr.set(name, gctx)
    gctx.set_auto_start(True)
    tasks_before = set(asyncio.all_tasks())
    _, _, exc = await run_source(name, src, global_ctx=gctx)
    await settle(40)

    def sv(val, attr):
        return StateVal(NS(state=val, attributes={"a": attr}, entity_id="pyscript.v", last_updated="u", last_changed="c", last_reported="r"))
    attr_n = 0
    for (t, kind, label) in history:
        await asyncio.sleep(max(0.0, t - (vt[0] - t0)))
        old_s, old_a = table["pyscript.v"]
        if kind == "attr":
            attr_n += 1
            new_s, new_a = old_s, {"a": str(attr_n)}
        else:
            mag = abs(int(old_s)) + 1
            new_s, new_a = str(mag if kind == "true" else -mag), dict(old_a)
        table["pyscript.v"] = (new_s, new_a)
        new_val, old_val = sv(new_s, new_a["a"]), sv(old_s, old_a["a"])
        new_val.label = label
        await State.update({"pyscript.v": new_val, "pyscript.v.old": old_val},
                           {"trigger_type": "state", "var_name": "pyscript.v", "value": new_val, "old_value": old_val, "context": None})
        await settle(30)
    await asyncio.sleep(max(0.0, horizon - (vt[0] - t0)))
    await settle(30)
    gctx.stop()
    GlobalContextMgr.delete(name)
    from custom_components.pyscript.function import Function
    for t in set(asyncio.all_tasks()) - tasks_before:
        if not t.done() and t is not asyncio.current_task() and t in Function.our_tasks:
            t.cancel()      # a call that never returned is still waiting: cancel its task (cleanup is C15's business)
    await settle(10)
    return [(t, getattr(v, "label", None)) for (t, v) in runs], exc


async def c05_wait_until_bounded(w):
    """Bounded stand-in for task.wait_until's own copy of the hold logic: the same grid of configurations x timed histories as
    c05_histories_bounded; the call must return exactly at the automaton's FIRST run (state_check_now defaults to True here),
    with that run's arguments, and not at all when the automaton never runs."""
    legacy = w["subsystem"] == "legacy"
    depth, shard, nshards = int(w.get("depth", 2)), int(w.get("shard", 0)), int(w.get("nshards", 1))
    env = await c05_env(legacy)
    cases = [c for i, c in enumerate(c05_grid(depth)) if i % nshards == shard]
    failures = []
    for cfg, init, hist in cases:
        eff = dict(cfg)
        if eff["check_now"] is None:
            eff["check_now"] = True       # documented default for task.wait_until
        want = c05_reference(eff, init, hist)[:1]
        got, exc = await c05_run_wait_until(env, cfg, init, hist, horizon=(hist[-1][0] if hist else 0.0) + 10.0)
        if [list(x) for x in got] != [list(x) for x in want] or exc is not None:
            if len(failures) < 3:
                failures.append({"signature": f"wait_until:{w['subsystem']}:{cfg}:{init}:{hist}", "subsystem": w["subsystem"], "config": cfg, "initially_true": init,
                                 "history": hist, "observed_return": got, "expected_return": want, "error": repr(exc) if exc else None})
    await shutdown()
    return {"unit": f"task.wait_until hold logic, {w['subsystem']} subsystem", "method": "real subsystem on a virtual clock vs the first run of the statement's automaton",
            "bound": f"<= {depth} events per history, gaps in {{1,6}} s, holds in {{None,0,4}} s, shard {shard + 1}/{nshards}", "cases": len(cases),
            "failures": failures, "reproduced": bool(failures)}


C05_WITNESS_HISTORIES = {
    # what -> (cfg, initial truth, history)
    "pending-hold-changed": ({"S": 10.0, "H": None, "check_now": None}, False, [(1.0, "true", "e1"), (3.0, "attr", "e2")]),
    "args-overwritten": ({"S": 10.0, "H": None, "check_now": None}, False, [(1.0, "true", "e1"), (3.0, "true", "e2")]),
    "false-timer-changed": ({"S": None, "H": 5.0, "check_now": None}, True, [(1.0, "attr", "e1"), (10.0, "true", "e2")]),
    "no-run-at-start": ({"S": None, "H": 5.0, "check_now": True}, True, []),
    "no-hold-at-start": ({"S": 10.0, "H": 5.0, "check_now": True}, True, []),
}


async def c05_holds(w):
    """A timed history chosen for the failed obligation, run on the real subsystem (virtual clock) and compared with the
    statement's automaton."""
    what = w.get("what")
    if what not in C05_WITNESS_HISTORIES:
        # no hand-picked history for this obligation: search the grid of timed histories (<= 3 events) on the real
        # subsystem for one that disagrees with the automaton, and report it as the failing input
        out = await c05_histories_bounded({"subsystem": w.get("subsystem"), "depth": 3})
        f = out["failures"][:1]
        return {"reproduced": bool(f), "observed": f[0] if f else {"searched": out["bound"], "cases": out["cases"]},
                "expected": "runs equal to the statement's automaton", "found_by": "grid search around the failed step obligation"}
    cfg, init, hist = C05_WITNESS_HISTORIES[what]
    legacy = w.get("subsystem") == "legacy"
    want = c05_reference(cfg, init, hist)
    env = await c05_env(legacy)
    got, exc = await c05_run_history(env, cfg, init, hist, horizon=40.0)
    await shutdown()
    return {"reproduced": got != want, "observed": {"subsystem": w.get("subsystem"), "config": cfg, "initially_true": init, "history": hist, "runs": got, "error": repr(exc) if exc else None},
            "expected": {"runs": want}}


async def c05_wait_holds(w):
    """Failing input for a refuted step obligation of task.wait_until's hold logic: grid search (<= 3 events) on the real
    subsystem for a timed history whose return disagrees with the first run of the statement's automaton."""
    out = await c05_wait_until_bounded({"subsystem": w.get("subsystem", "legacy"), "depth": 3})
    f = out["failures"][:1]
    return {"reproduced": bool(f), "observed": f[0] if f else {"searched": out["bound"], "cases": out["cases"]},
            "expected": "task.wait_until returns at the first run of the statement's automaton, with its arguments",
            "found_by": "grid search around the failed step obligation"}


def c05_grid(depth):
    import itertools
    cfgs = [{"S": S, "H": H, "check_now": c} for S in (None, 0, 4.0) for H in (None, 0, 4.0) for c in (None, False, True)]
    steps = [(g, k) for g in (1.0, 6.0) for k in ("true", "false", "attr")]
    hists = []
    for n in range(depth + 1):
        for combo in itertools.product(steps, repeat=n):
            t, h = 0.5, []   # offset: no event coincides with a deadline counted from the definition-time check
            for i, (g, k) in enumerate(combo):
                t += g
                h.append((t, k, f"e{i + 1}"))
            hists.append(h)
    return [(c, init, h) for c in cfgs for init in (False, True) for h in hists]


async def c05_histories_bounded(w):
    """Bounded stand-in for whole histories (the step proofs are per iteration): every configuration x initial truth x
    timed history up to `depth` <= 4 events on the grid (first event at 1.5 s or 6.5 s, gaps 1 s / 6 s, holds of 0 / 4 s: no ties), on the real
    subsystem with a virtual clock, against the statement's automaton."""
    legacy = w["subsystem"] == "legacy"
    depth, shard, nshards = int(w.get("depth", 2)), int(w.get("shard", 0)), int(w.get("nshards", 1))
    env = await c05_env(legacy)
    cases = [c for i, c in enumerate(c05_grid(depth)) if i % nshards == shard]
    failures = []
    for cfg, init, hist in cases:
        want = c05_reference(cfg, init, hist)
        got, exc = await c05_run_history(env, cfg, init, hist, horizon=(hist[-1][0] if hist else 0.0) + 10.0)
        if [list(x) for x in got] != [list(x) for x in want] or exc is not None:
            if len(failures) < 3:
                failures.append({"signature": f"{w['subsystem']}:{cfg}:{init}:{hist}", "subsystem": w["subsystem"], "config": cfg, "initially_true": init,
                                 "history": hist, "observed_runs": got, "expected_runs": want, "error": repr(exc) if exc else None})
    await shutdown()
    return {"unit": f"whole timed histories, {w['subsystem']} subsystem", "method": "real subsystem on a virtual clock vs the statement's automaton",
            "bound": f"<= {depth} events per history, gaps in {{1,6}} s, holds in {{None,0,4}} s, shard {shard + 1}/{nshards}", "cases": len(cases),
            "failures": failures, "reproduced": bool(failures)}


# ---------------------------------------------------------------------------------------------------------
# C07: @time_active windows
# ---------------------------------------------------------------------------------------------------------
async def c07_time_active(w):
    """@time_active("range(10:00, 14:00)", "not range(11:00, 13:00)") with an event at 12:00 (inside the negated window):
    the statement says no run; also 10:30 (run) and 15:00 (no run)."""
    import datetime as dtm
    from types import SimpleNamespace as NS
    from custom_components.pyscript import trigger as T
    from custom_components.pyscript.global_ctx import GlobalContext, GlobalContextMgr
    out = {}
    for legacy in (False, True):
        hass = await boot_full(legacy=legacy)
        runs = []
        clock = [dtm.datetime(2024, 3, 13, 9, 0, 0)]    # the function is defined outside the window: a stale clock reading would show
        saved = T.dt_now
        T.dt_now = lambda: clock[0]
        src = ('@time_active("range(10:00, 14:00)", "not range(11:00, 13:00)")\n@event_trigger("c07_go")\ndef f(**kw):\n    record(kw)\n')
        name = "file.c07_" + ("legacy" if legacy else "new")
        gctx = GlobalContext(name, global_sym_table={"__name__": name, "record": lambda kw_: runs.append(clock[0].strftime("%H:%M"))}, manager=GlobalContextMgr)
        GlobalContextMgr.set(name, gctx)
        gctx.set_auto_start(True)
        _, _, exc = await run_source(name, src, global_ctx=gctx)
        await settle(30)
        for hh, mm in ((10, 30), (12, 0), (15, 0)):
            clock[0] = dtm.datetime(2024, 3, 13, hh, mm, 0)
            for cb in list(hass.bus.listeners.get("c07_go", [])):
                await cb(NS(event_type="c07_go", context=None, data={}))
            await settle(30)
        gctx.stop()
        GlobalContextMgr.delete(name)
        await settle(10)
        T.dt_now = saved
        out["legacy" if legacy else "new"] = {"runs": runs, "error": repr(exc) if exc else None}
        await shutdown()
    want = ["10:30"]
    sub = w.get("subsystem")
    bad = {k: v for k, v in out.items() if v["runs"] != want and (sub is None or sub == k)}
    return {"reproduced": bool(bad), "observed": out, "expected": {"runs": want, "why": "12:00 lies inside the negated window; 15:00 in no positive window"}}


async def c07_hold_off_order(w):
    """@time_active(hold_off=10) together with @state_active: an occurrence that @state_active rejects (t=100) must not start
    the hold_off window, so the occurrence at t=105 runs; 108 is inside the window of 105; 116 runs."""
    from types import SimpleNamespace as NS
    from custom_components.pyscript import trigger as T
    from custom_components.pyscript.decorators import timing as TM
    from custom_components.pyscript.global_ctx import GlobalContext, GlobalContextMgr
    out = {}
    saved = (T.time, TM.time)
    for legacy in (False, True):
        for order in ("time_active-declared-first", "other-guard-declared-first"):
            hass = await boot_full(legacy=legacy)
            table = fake_states(hass)
            mono = [100.0]
            T.time = NS(monotonic=lambda: mono[0])
            TM.time = NS(monotonic=lambda: mono[0])
            runs = []
            decs = ['@time_active(hold_off=10)', '@state_active("pyscript.x == \'1\'")']
            if order.startswith("other"):
                decs.reverse()
            src = "\n".join(decs) + '\n@event_trigger("c07_go")\ndef f(**kw):\n    record(kw)\n'
            name = f"file.c07h_{'l' if legacy else 'n'}_{order[0]}"
            gctx = GlobalContext(name, global_sym_table={"__name__": name, "record": lambda kw_: runs.append(mono[0])}, manager=GlobalContextMgr)
            GlobalContextMgr.set(name, gctx)
            gctx.set_auto_start(True)
            _, _, exc = await run_source(name, src, global_ctx=gctx)
            await settle(30)
            for t, x in ((100.0, "0"), (105.0, "1"), (108.0, "1"), (116.0, "1")):
                mono[0] = t
                table["pyscript.x"] = (x, {})
                for cb in list(hass.bus.listeners.get("c07_go", [])):
                    await cb(NS(event_type="c07_go", context=None, data={}))
                await settle(30)
            gctx.stop()
            GlobalContextMgr.delete(name)
            await settle(10)
            out[f"{'legacy' if legacy else 'new'}:{order}"] = {"runs": runs, "error": repr(exc) if exc else None}
            await shutdown()
    T.time, TM.time = saved
    want = [105.0, 116.0]
    bad = {k: v for k, v in out.items() if v["runs"] != want}
    return {"reproduced": bool(bad), "observed": out, "expected": {"runs": want}}


def _c07_gen(rng):
    """structured time-of-day / date specs rendered to text, with their denotation computed from the STRUCTURE"""
    import datetime as dtm
    DOW = ["sun", "mon", "tue", "wed", "thu", "fri", "sat"]

    def gen_point():
        date = rng.choice([("none",), ("none",), ("dow", rng.randrange(7)), ("full", 2024, rng.choice([2, 3, 12]), rng.choice([1, 15, 28, 29])), ("md", rng.choice([3, 4]), rng.choice([1, 10, 31 if False else 30]))])
        tod = rng.choice([("hms", rng.randrange(24), rng.randrange(60), None), ("hms", rng.randrange(24), rng.choice([0, 30]), rng.choice([0, 59])), ("noon",), ("midnight",)])
        off = rng.choice([None, None, ("+", 30, "min"), ("-", 1, "h"), ("+", 90, "s"), ("-", 15, "m")])
        return (date, tod, off)

    def render(p):
        date, tod, off = p
        s = ""
        if date[0] == "dow":
            s += DOW[date[1]] + " "
        elif date[0] == "full":
            s += f"{date[1]}/{date[2]:02d}/{date[3]:02d} "
        elif date[0] == "md":
            s += f"{date[1]}/{date[2]} "
        if tod[0] == "hms":
            s += f"{tod[1]}:{tod[2]:02d}" + (f":{tod[3]:02d}" if tod[3] is not None else "")
        else:
            s += tod[0]
        if off:
            s += f" {off[0]} {off[1]}{off[2]}"
        return s

    def denote(p, base):
        """documented meaning: the date (default: base's date; weekday: the next such day on or after base's date), at the
        time of day, plus the offset"""
        date, tod, off = p
        d = base.date()
        if date[0] == "dow":
            today = base.isoweekday() % 7
            d = d + dtm.timedelta(days=(date[1] - today) % 7)
        elif date[0] == "full":
            d = dtm.date(date[1], date[2], date[3])
        elif date[0] == "md":
            d = dtm.date(base.year, date[1], date[2])
        if tod[0] == "hms":
            secs = tod[1] * 3600 + tod[2] * 60 + (tod[3] or 0)
        else:
            secs = 12 * 3600 if tod[0] == "noon" else 0
        t = dtm.datetime(d.year, d.month, d.day) + dtm.timedelta(seconds=secs)
        if off:
            scale = {"min": 60, "m": 60, "h": 3600, "s": 1}[off[2]]
            t += dtm.timedelta(seconds=(1 if off[0] == "+" else -1) * off[1] * scale)
        return t
    return gen_point, render, denote


async def c07_windows_bounded(w):
    """Bounded stand-in for the text level of @time_active: random lists of <= 4 positive / negated range() entries from
    a structured grammar (daily, dated, weekday, wrapping, offsets), evaluated by the REAL timer_active_check /
    parse_date_time at the exact end points and +/- 1 microsecond, against the denotation computed from the structure."""
    import random
    import datetime as dtm
    from custom_components.pyscript.trigger import TrigTime
    await boot_full()
    rng = random.Random(20240313 + int(w.get("seed", 0)))
    gen_point, render, denote = _c07_gen(rng)
    failures, cases = [], 0
    startup = dtm.datetime(2024, 3, 1, 8, 0, 0)
    us = dtm.timedelta(microseconds=1)
    n_lists = int(w.get("lists", 400))
    for _ in range(n_lists):
        n = rng.randrange(1, 5)
        entries = []
        for _i in range(n):
            a, b = gen_point(), gen_point()
            if rng.random() < 0.5:
                b = (("none",), b[1], b[2])  # the common daily form
                a = (a[0] if rng.random() < 0.3 else ("none",), a[1], a[2])
            entries.append((rng.random() < 0.4, a, b))
        texts = [("not " if neg else "") + f"range({render(a)}, {render(b)})" for neg, a, b in entries]
        base_days = [dtm.datetime(2024, 3, 13), dtm.datetime(2024, 2, 29), dtm.datetime(2024, 12, 31)]
        probe = []
        for day in base_days[: 1 + rng.randrange(3)]:
            for neg, a, b in entries:
                s0 = denote(a, day)
                e0 = denote(b, s0)
                for x in (s0, e0):
                    if x.date() == day.date():
                        probe += [x - us, x, x + us]
            probe += [day + dtm.timedelta(seconds=rng.randrange(86400)) for _k in range(3)]
        for now in probe:
            def matches(a, b):
                s0 = denote(a, now)
                e0 = denote(b, s0)
                return (s0 <= now <= e0) if s0 <= e0 else (now >= s0 or now <= e0)
            pos = [matches(a, b) for neg, a, b in entries if not neg]
            negs = [matches(a, b) for neg, a, b in entries if neg]
            want = (any(pos) if pos else True) and not any(negs)
            try:
                got = await TrigTime.timer_active_check(list(texts) if (len(texts) > 1 or rng.random() < 0.5) else texts[0], now, startup)
            except Exception as e:  # noqa
                got = "exception:" + repr(e)
            cases += 1
            if got != want and len(failures) < 3:
                failures.append({"signature": f"windows:{texts}@{now.isoformat()}", "entries": texts, "now": now.isoformat(), "observed": got, "expected": want})
    await shutdown()
    return {"unit": "TrigTime.timer_active_check + parse_date_time on real text", "method": "structured random specs vs denotation computed from the structure",
            "bound": f"{n_lists} lists of <= 4 range() entries x end points +/- 1us on up to 3 days (seeded)", "cases": cases, "failures": failures, "reproduced": bool(failures)}


# ---------------------------------------------------------------------------------------------------------
# C06: time specifications: structured generator, denotation from the STRUCTURE, real functions on the TEXT
# ---------------------------------------------------------------------------------------------------------
C06_DOW = ["sun", "mon", "tue", "wed", "thu", "fri", "sat"]
C06_DOW_FULL = ["sunday", "monday", "tuesday", "wednesday", "thursday", "friday", "saturday"]
C06_UNITS = {1: ["", "s", "sec", "second", "seconds"], 60: ["m", "min", "mins", "minute", "minutes"], 3600: ["h", "hr", "hour", "hours"],
             86400: ["d", "day", "days"], 604800: ["w", "week", "weeks"]}


def c06_render_num(rng, x):
    if isinstance(x, int):
        return rng.choice([str(x), f"0{x}" if rng.random() < 0.2 else str(x), f"{x}.0" if rng.random() < 0.2 else str(x)])
    return repr(x)


def c06_render_offset(rng, off):
    sign, num, scale = off
    unit = rng.choice(C06_UNITS[scale])
    return f"{sign}{rng.choice(['', ' '])}{c06_render_num(rng, num)}{rng.choice(['', ' ']) if unit else ''}{unit}"


def c06_offset_secs(off):
    if off is None:
        return 0.0
    sign, num, scale = off
    return (1 if sign == "+" else -1) * num * scale


def c06_gen_dt(rng, allow_now=True, dates=("none", "dow", "full", "md")):
    dk = rng.choice(dates)
    if dk == "dow":
        date = ("dow", rng.randrange(7))
    elif dk == "full":
        date = ("full", rng.choice([2023, 2024, 2025]), rng.choice([1, 2, 3, 11, 12]), rng.choice([1, 9, 10, 28]))
    elif dk == "md":
        date = ("md", rng.choice([1, 2, 3, 11, 12]), rng.choice([1, 9, 10, 28, 31]))
        if date[2] == 31 and date[1] in (2, 11):
            date = ("md", 12, 31)
    else:
        date = ("none",)
    r = rng.random()
    if r < 0.55:
        tod = ("hms", rng.choice([0, 1, 9, 10, 12, 23]), rng.choice([0, 1, 9, 30, 59]), rng.choice([None, None, 0, 1, 59, 30.5]))
    elif r < 0.7:
        tod = ("noon",)
    elif r < 0.85:
        tod = ("midnight",)
    elif r < 0.93 or not allow_now or date[0] != "none":
        tod = ("omitted",) if date[0] != "none" else ("hms", rng.randrange(24), 0, None)
    else:
        tod = ("now",)
    off = rng.choice([None, None, None, ("+", 30, 60), ("-", 1, 3600), ("+", 90, 1), ("-", 15, 60), ("+", 1.5, 3600), ("+", 1, 86400)])
    return (date, tod, off)


def c06_render_dt(rng, p):
    date, tod, off = p
    s = ""
    if date[0] == "dow":
        s += rng.choice([C06_DOW, C06_DOW_FULL])[date[1]]
    elif date[0] == "full":
        sep = rng.choice(["/", "-"])
        s += f"{date[1]}{sep}{date[2]:02d}{sep}{date[3]:02d}" if rng.random() < 0.7 else f"{date[1]}{sep}{date[2]}{sep}{date[3]}"
    elif date[0] == "md":
        s += f"{date[1]}/{date[2]}" if rng.random() < 0.5 else f"{date[1]:02d}/{date[2]:02d}"
    if tod[0] == "hms":
        t = f"{tod[1]}:{tod[2]:02d}" if rng.random() < 0.5 else f"{tod[1]:02d}:{tod[2]:02d}"
        if tod[3] is not None:
            t += f":{tod[3]:02d}" if isinstance(tod[3], int) else f":{tod[3]}"
        s += (" " if s else "") + t
    elif tod[0] != "omitted":
        s += (" " if s else "") + tod[0]
    if off:
        s += " " + c06_render_offset(rng, off)
    return s


def c06_tod_secs(tod):
    if tod[0] == "hms":
        return tod[1] * 3600 + tod[2] * 60 + (tod[3] or 0)
    return 12 * 3600 if tod[0] == "noon" else 0


def c06_instants_once(p, lo, hi, startup):
    """all instants the once() datetime denotes inside [lo, hi] (documented meaning)"""
    import datetime as dtm
    date, tod, off = p
    delta = dtm.timedelta(seconds=c06_tod_secs(tod) + c06_offset_secs(off))
    if tod[0] == "now":
        return [startup + dtm.timedelta(seconds=c06_offset_secs(off))]
    out = []
    if date[0] == "full":
        out.append(dtm.datetime(date[1], date[2], date[3]) + delta)
    elif date[0] == "md":
        for y in range(lo.year - 1, hi.year + 2):
            out.append(dtm.datetime(y, date[1], date[2]) + delta)
    else:
        d = (lo - dtm.timedelta(days=12)).date()
        while d <= (hi + dtm.timedelta(days=12)).date():
            if date[0] == "none" or d.isoweekday() % 7 == date[1]:
                out.append(dtm.datetime(d.year, d.month, d.day) + delta)
            d += dtm.timedelta(days=1)
    return [t for t in out if lo <= t <= hi]


def c06_cron_fields(expr):
    def field(txt, lo, hi):
        if txt == "*":
            return None
        vals = set()
        for part in txt.split(","):
            step = 1
            if "/" in part:
                part, st = part.split("/")
                step = int(st)
            if part == "*":
                a, b = lo, hi
            elif "-" in part:
                a, b = map(int, part.split("-"))
            else:
                a = b = int(part)
                if step != 1:
                    b = hi
            vals |= set(range(a, b + 1, step))
        return vals
    m, h, dom, mon, dow = expr.split()
    return field(m, 0, 59), field(h, 0, 23), field(dom, 1, 31), field(mon, 1, 12), field(dow, 0, 6)


def c06_cron_next(expr, now, limit_days=3000):
    """next wall-clock instant strictly after `now` matching a 5-field crontab expression (dom/dow OR rule)"""
    import datetime as dtm
    M, H, DOM, MON, DOW = c06_cron_fields(expr)
    d = now.date()
    for _ in range(limit_days):
        ok_mon = MON is None or d.month in MON
        dom_ok = DOM is None or d.day in DOM
        dow_ok = DOW is None or (d.isoweekday() % 7) in DOW
        day_ok = (dom_ok or dow_ok) if (DOM is not None and DOW is not None) else (dom_ok and dow_ok)
        if ok_mon and day_ok:
            for hh in sorted(H) if H is not None else range(24):
                for mm in sorted(M) if M is not None else range(60):
                    t = dtm.datetime(d.year, d.month, d.day, hh, mm)
                    if t > now:
                        return t
        d += dtm.timedelta(days=1)
    return None


def c06_gen_spec(rng):
    """(kind, structure, text)"""
    r = rng.random()
    if r < 0.5:
        p = c06_gen_dt(rng)
        return ("once", p, f"once({c06_render_dt(rng, p)})")
    if r < 0.8:
        # period: dated / now-based start (any interval), or time-only start with start < interval and interval | 24h
        if rng.random() < 0.5:
            start = c06_gen_dt(rng, dates=("full",))
            start = (start[0], start[1] if start[1][0] != "now" else ("noon",), start[2])
            interval = rng.choice([(7, 60), (1, 3600), (90, 1), (1, 86400), (2.5, 3600), (1, 604800)])
        else:
            interval = rng.choice([(30, 60), (1, 3600), (6, 3600), (20, 60)])
            secs = interval[0] * interval[1]
            st = rng.randrange(0, int(secs), 60)
            start = (("none",), ("hms", st // 3600, (st % 3600) // 60, None), None)
        num, scale = interval
        itxt = f"{c06_render_num(rng, num)}{rng.choice(['', ' '])}{rng.choice([u for u in C06_UNITS[scale] if u])}"
        end = None
        if rng.random() < 0.4:
            if start[0][0] == "full":
                e = c06_gen_dt(rng, dates=("full",))
                end = (e[0], e[1] if e[1][0] != "now" else ("noon",), e[2])
            else:
                end = (("none",), ("hms", rng.randrange(24), rng.choice([0, 30]), None), None)
        txt = f"period({c06_render_dt(rng, start)}, {itxt}" + (f", {c06_render_dt(rng, end)})" if end else ")")
        return ("period", (start, num * scale, end), txt)
    expr = rng.choice(["0 18 * * *", "*/15 * * * *", "30 6 * * 1-5", "0 0 1 * *", "1 1-4 * * *", "5,35 9-17 * * 0,6", "0 12 29 2 *", "15 10 13 * 5", "59 23 31 12 *"])
    return ("cron", expr, f"cron({expr})")


def c06_next_reference(spec, now, startup):
    """min{t in denote(spec): t > now} (or = now when now is the startup instant and denoted); None if empty"""
    import datetime as dtm
    kind, st, _ = spec
    if kind == "cron":
        return c06_cron_next(st, now)
    if kind == "once":
        lo, hi = now - dtm.timedelta(days=3), now + dtm.timedelta(days=800)
        cands = c06_instants_once(st, lo, hi, startup)
    else:
        start, per, end = st
        cands = []
        if start[0][0] == "full" or start[1][0] == "now":
            s0 = c06_instants_once(start, dtm.datetime(1990, 1, 1), dtm.datetime(2100, 1, 1), startup)[0]
            e0 = c06_instants_once(end, dtm.datetime(1990, 1, 1), dtm.datetime(2100, 1, 1), startup)[0] if end else None
            import math
            k = max(0, math.floor((now - s0).total_seconds() / per) - 1)
            for j in range(k, k + 4):
                t = s0 + dtm.timedelta(seconds=per * j)
                if e0 is None or t <= e0:
                    cands.append(t)
        else:
            # daily re-anchored: each day D has start D+s and (optionally) end D+e (next day when e < s)
            for dd in range(-2, 3):
                D = dtm.datetime(now.year, now.month, now.day) + dtm.timedelta(days=dd)
                s0 = D + dtm.timedelta(seconds=c06_tod_secs(start[1]))
                if end is None:
                    e0 = s0 + dtm.timedelta(days=1) - dtm.timedelta(microseconds=1)
                else:
                    e0 = D + dtm.timedelta(seconds=c06_tod_secs(end[1]))
                    if e0 < s0:
                        e0 += dtm.timedelta(days=1)
                j = 0
                while True:
                    t = s0 + dtm.timedelta(seconds=per * j)
                    if t > e0:
                        break
                    cands.append(t)
                    j += 1
    good = [t for t in cands if t > now or (t == now and now == startup)]
    return min(good) if good else None


async def c06_next_bounded(w):
    """Bounded stand-in for the text level of time specifications (scanners + calendar arithmetic): random specifications
    from the documented grammar, rendered to text in several spellings; the REAL timer_trigger_next on the text is compared
    with min{t in denote(spec), t > now} computed from the structure, at the denoted instants +/- 1 us, on leap days,
    month / year ends, and for lists of up to 3 specifications."""
    import random
    import datetime as dtm
    from custom_components.pyscript.trigger import TrigTime
    await boot_full()
    rng = random.Random(60606 + int(w.get("seed", 0)))
    n = int(w.get("specs", 500))
    us = dtm.timedelta(microseconds=1)
    startup = dtm.datetime(2024, 2, 27, 7, 30, 15)
    anchors = [dtm.datetime(2024, 2, 28, 23, 59, 59), dtm.datetime(2024, 2, 29, 12, 0, 0), dtm.datetime(2024, 12, 31, 23, 59, 59, 999999),
               dtm.datetime(2023, 12, 31, 12, 0), dtm.datetime(2024, 3, 10, 1, 30), dtm.datetime(2024, 11, 3, 1, 30), startup]
    failures, cases, by_kind = [], 0, {}
    only = w.get("only")
    for _ in range(n):
        specs = [c06_gen_spec(rng) for _k in range(rng.choice([1, 1, 1, 2, 3]))]
        if only and any(s[0] != only for s in specs):
            continue
        texts = [s[2] for s in specs]
        nows = list(rng.sample(anchors, 2)) + [dtm.datetime(2024, rng.randrange(1, 13), rng.randrange(1, 29), rng.randrange(24), rng.randrange(60), rng.randrange(60))]
        for base in list(nows):
            for sp in specs:
                r = c06_next_reference(sp, base, startup)
                if r is not None and abs((r - base).total_seconds()) < 400 * 86400:
                    nows += [r - us, r, r + us]
        for now in nows[:14]:
            refs = [c06_next_reference(sp, now, startup) for sp in specs]
            want = min([r for r in refs if r is not None], default=None)
            try:
                got, got_adj = await TrigTime.timer_trigger_next(texts if len(texts) > 1 else (texts[0] if rng.random() < 0.5 else texts), now, startup)
            except Exception as e:  # noqa
                got, got_adj = "exception:" + repr(e), None
            cases += 1
            for sp in specs:
                by_kind[sp[0]] = by_kind.get(sp[0], 0) + 1
            if got != want and len(failures) < int(w.get("max_failures", 3)):
                failures.append({"signature": f"next:{texts}@{now.isoformat()}", "specs": texts, "now": now.isoformat(), "startup": startup.isoformat(),
                                 "observed": str(got), "expected": str(want)})
            elif got is not None and all(sp[0] != "cron" for sp in specs) and got_adj != got and len(failures) < int(w.get("max_failures", 3)):
                failures.append({"signature": f"adj:{texts}@{now.isoformat()}", "specs": texts, "now": now.isoformat(), "observed": f"wait until {got_adj}",
                                 "expected": f"once/period instants are naive local arithmetic: wait until {got}"})
    # year ends, exhaustively on a small grid: year-less dates near the end / start of the year, with offsets that carry the
    # instant across the year end in either direction, looked at from current times on both sides of it
    grid_dates = [("md", 12, 31), ("md", 12, 30), ("md", 1, 1), ("md", 1, 2)]
    grid_tods = [("omitted",), ("hms", 12, 0, None), ("hms", 23, 0, None)]
    grid_offs = [None, ("+", 1, 86400), ("+", 2, 86400), ("-", 1, 86400), ("-", 2, 86400), ("+", 36, 3600), ("-", 36, 3600), ("+", 1, 604800)]
    grid_nows = [dtm.datetime(y, m, d, hh, mi) for (y, m, d) in ((2024, 12, 29), (2024, 12, 30), (2024, 12, 31), (2025, 1, 1), (2025, 1, 2), (2025, 1, 3), (2024, 1, 1), (2023, 12, 31))
                 for (hh, mi) in ((0, 0), (6, 30), (12, 0), (23, 30))]
    if not only or only == "once":
        for date in grid_dates:
            for tod in grid_tods:
                for off in grid_offs:
                    sp = ("once", (date, tod, off), f"once({c06_render_dt(rng, (date, tod, off))})")
                    extra = []
                    for base in grid_nows[::5]:
                        r = c06_next_reference(sp, base, startup)
                        if r is not None:
                            extra += [r - us, r]
                    for now in grid_nows + extra:
                        want = c06_next_reference(sp, now, startup)
                        try:
                            got, _adj = await TrigTime.timer_trigger_next(sp[2], now, startup)
                        except Exception as e:  # noqa
                            got = "exception:" + repr(e)
                        cases += 1
                        by_kind["once@year-end"] = by_kind.get("once@year-end", 0) + 1
                        if got != want and len(failures) < int(w.get("max_failures", 3)):
                            failures.append({"signature": f"next:{[sp[2]]}@{now.isoformat()}", "specs": [sp[2]], "now": now.isoformat(), "startup": startup.isoformat(),
                                             "observed": str(got), "expected": str(want)})
    # daylight saving: cron follows the wall clock (the WAIT is 23 h / 25 h across a change), period stays equally spaced
    import zoneinfo
    from homeassistant.util import dt as dt_util
    saved_tz = dt_util.DEFAULT_TIME_ZONE
    tz = zoneinfo.ZoneInfo("America/Los_Angeles")
    dt_util.set_default_time_zone(tz)
    try:
        for expr in ("0 18 * * *", "30 6 * * *", "0 0 * * *", "15 12 * * 0"):
            for day in (dtm.datetime(2024, 3, 9), dtm.datetime(2024, 3, 10), dtm.datetime(2024, 11, 2), dtm.datetime(2024, 11, 3), dtm.datetime(2024, 6, 1)):
                for hh in (0, 5, 12, 19, 23):
                    now = day + dtm.timedelta(hours=hh, minutes=7)
                    want = c06_cron_next(expr, now)
                    real_wait = (want.replace(tzinfo=tz).astimezone(dtm.timezone.utc) - now.replace(tzinfo=tz).astimezone(dtm.timezone.utc)).total_seconds()
                    got, got_adj = await TrigTime.timer_trigger_next(f"cron({expr})", now, startup)
                    cases += 1
                    if (got != want or abs((got_adj - now).total_seconds() - real_wait) > 1e-6) and len(failures) < int(w.get("max_failures", 3)):
                        failures.append({"signature": f"dst:cron({expr})@{now.isoformat()}", "specs": [f"cron({expr})"], "now": now.isoformat(),
                                         "observed": f"next {got}, wait {(got_adj - now).total_seconds()} s", "expected": f"next {want}, wait {real_wait} s"})
        for now in (dtm.datetime(2024, 3, 9, 19, 0), dtm.datetime(2024, 11, 2, 19, 0)):
            got, got_adj = await TrigTime.timer_trigger_next("period(2024/01/01 18:00, 1 day)", now, startup)
            cases += 1
            want = dtm.datetime(now.year, now.month, now.day + 1, 18, 0)
            if (got != want or got_adj != want) and len(failures) < int(w.get("max_failures", 3)):
                failures.append({"signature": f"dst:period@{now.isoformat()}", "specs": ["period(2024/01/01 18:00, 1 day)"], "now": now.isoformat(),
                                 "observed": f"{got} / {got_adj}", "expected": f"{want} (equally spaced, no adjustment)"})
    finally:
        dt_util.set_default_time_zone(saved_tz)
    await shutdown()
    return {"unit": "TrigTime.timer_trigger_next + parse_date_time + parse_time_offset on real text", "method": "structured random specs vs denotation computed from the structure",
            "bound": f"{n} specification lists (<= 3 specs) x <= 14 current times (denoted instants +/- 1us, leap day, year end, DST days); year-end grid: 4 year-less dates x 3 times of day x 8 offsets x 32+ current times", "cases": cases,
            "specs_by_kind": by_kind, "failures": failures, "reproduced": bool(failures)}


async def c06_next_witness(w):
    """Concrete instances of the failed timer_trigger_next obligation on the real function (real parse_date_time)."""
    import datetime as dtm
    from custom_components.pyscript.trigger import TrigTime
    await boot_full()
    startup = dtm.datetime(2024, 3, 13, 8, 0, 0)   # a Wednesday
    cases = {
        # what -> (spec, now, startup, expected)
        "none-for-recurring": [("once(8:00)", dtm.datetime(2024, 3, 13, 8, 0, 1), startup, dtm.datetime(2024, 3, 14, 8, 0)),
                               ("once(wed 8:00)", dtm.datetime(2024, 3, 13, 9, 0, 0), startup, dtm.datetime(2024, 3, 20, 8, 0)),
                               ("once(wed 8:00)", dtm.datetime(2024, 3, 13, 9, 0, 0), dtm.datetime(2024, 3, 1, 7, 0), dtm.datetime(2024, 3, 20, 8, 0)),
                               ("once(8:00)", dtm.datetime(2024, 3, 13, 9, 0, 0), dtm.datetime(2024, 3, 1, 7, 0), dtm.datetime(2024, 3, 14, 8, 0))],
        "skipped": [("once(tue 23:00 + 2h)", dtm.datetime(2024, 3, 13, 0, 30), dtm.datetime(2024, 3, 1, 7, 0), dtm.datetime(2024, 3, 13, 1, 0)),
                    ("once(23:00 + 2h)", dtm.datetime(2024, 3, 13, 0, 30), dtm.datetime(2024, 3, 1, 7, 0), dtm.datetime(2024, 3, 13, 1, 0)),
                    ("period(2024/03/01 00:00, 7 min)", dtm.datetime(2024, 3, 13, 0, 30), dtm.datetime(2024, 3, 1, 7, 0), dtm.datetime(2024, 3, 13, 0, 31))],
        "not-after-now": [("once(8:00)", dtm.datetime(2024, 3, 13, 8, 0, 0), dtm.datetime(2024, 3, 1, 7, 0), dtm.datetime(2024, 3, 14, 8, 0)),
                          ("period(2024/03/13 08:00, 1h)", dtm.datetime(2024, 3, 13, 9, 0, 0), dtm.datetime(2024, 3, 1, 7, 0), dtm.datetime(2024, 3, 13, 10, 0))],
        "none-for-period": [("period(2024/03/13 08:00, 1h)", dtm.datetime(2024, 3, 13, 9, 0, 0), dtm.datetime(2024, 3, 1, 7, 0), dtm.datetime(2024, 3, 13, 10, 0)),
                            ("period(2024/03/01 00:00, 7 min)", dtm.datetime(2024, 3, 13, 0, 30), dtm.datetime(2024, 3, 1, 7, 0), dtm.datetime(2024, 3, 13, 0, 31))],
    }
    todo = cases.get(w.get("what")) or [c for v in cases.values() for c in v]
    bad = []
    for spec, now, st, want in todo:
        got, _ = await TrigTime.timer_trigger_next(spec, now, st)
        if got != want:
            bad.append({"spec": spec, "now": now.isoformat(), "startup": st.isoformat(), "observed": str(got), "expected": str(want)})
    await shutdown()
    return {"reproduced": bool(bad), "observed": bad[:4], "expected": "the earliest denoted instant strictly after now"}


async def c06_offset_unit(w):
    """parse_time_offset on every documented unit spelling and on the counterexample unit"""
    from custom_components.pyscript.trigger import parse_time_offset
    bad = []
    table = {1: ["", "s", "sec", "second", "seconds"], 60: ["m", "min", "mins", "minute", "minutes"], 3600: ["h", "hr", "hour", "hours"],
             86400: ["d", "day", "days"], 604800: ["w", "week", "weeks"]}
    for scale, names in table.items():
        for n in names:
            for txt in (f"+ 3{n}", f"-1.5 {n}", f"2e1{(' ' + n) if n else ''}"):
                val = float(txt.replace(" ", "").rstrip("abcdefghijklmnopqrstuvwxyz")) if n else float(txt.replace(" ", ""))
                got = parse_time_offset(txt)
                if abs(got - val * scale) > 1e-9:
                    bad.append({"text": txt, "observed": got, "expected": val * scale})
    return {"reproduced": bool(bad), "observed": bad[:5], "expected": "value x documented scale"}


C06_RUN_PROGRAMS = [
    # (decorator arguments, horizon seconds)
    (['period(now, 10s, now + 35s)'], 60),
    (['once(now + 12s)', 'period(now + 5s, 20 sec)'], 70),
    (['once(now)'], 20),
    (['startup', 'once(now + 3s)'], 20),
    (['startup', 'shutdown'], 10),
    (['period(now + 10m, 5min, now + 30min)'], 2400),
    (['once(12:00:30)', 'once(12:01:00 - 15s)', 'cron(* * * * *)'], 150),
    (['period(12:00, 30 sec, 12:02)'], 200),
    ([], 10),
]


async def c06_runs_bounded(w):
    """Bounded stand-in for the wait-and-fire loops as a whole: fixed @time_trigger programs run by the REAL subsystem on a
    virtual clock; the recorded (time, trigger_time) pairs must be exactly the denoted instants, once each, in increasing
    order, with startup / shutdown entries once at definition / removal."""
    import datetime as dtm
    from types import SimpleNamespace as NS
    from custom_components.pyscript import trigger as T
    from custom_components.pyscript.global_ctx import GlobalContext, GlobalContextMgr
    loop = asyncio.get_running_loop()
    failures, cases = [], 0
    base = dtm.datetime(2024, 3, 13, 12, 0, 0)
    for legacy in (False, True):
        hass = await boot_full(legacy=legacy)
        vt = getattr(loop, "_c05_vt", None) or install_virtual_time(loop)
        loop._c05_vt = vt
        for pi, (args, horizon) in enumerate(C06_RUN_PROGRAMS):
            t0 = vt[0]
            T.time = NS(monotonic=lambda: vt[0])
            last_now = [None]

            def dt_now_virtual():
                # strictly increasing readings (a real clock never returns the same microsecond to a loop that awaited in between)
                v = base + dtm.timedelta(seconds=round(vt[0] - t0, 6))
                if last_now[0] is not None and v <= last_now[0]:
                    v = last_now[0] + dtm.timedelta(microseconds=1)
                last_now[0] = v
                return v
            T.dt_now = dt_now_virtual
            runs = []
            argtxt = ", ".join(repr(a) for a in args)
            src = (f"@time_trigger({argtxt})\n" if args else "@time_trigger\n") + "def f(**kw):\n    record(kw)\n"
            name = f"file.c06_{'l' if legacy else 'n'}_{pi}"
            gctx = GlobalContext(name, global_sym_table={"__name__": name, "record": lambda kw_: runs.append((round(vt[0] - t0, 3), kw_.get("trigger_time")))},
                                 manager=GlobalContextMgr)
            GlobalContextMgr.set(name, gctx)
            gctx.set_auto_start(True)
            _, _, exc = await run_source(name, src, global_ctx=gctx)
            await settle(30)
            await asyncio.sleep(horizon)
            await settle(30)
            n_before_stop = len(runs)
            gctx.stop()
            GlobalContextMgr.delete(name)
            await settle(30)
            # reference: startup entry, then iterate the denotation, then the shutdown entry
            specs_txt = [a for a in args if a not in ("startup", "shutdown")]
            want = []
            if not args or "startup" in args:
                want.append((0.0, "startup"))
            structs = []
            for a in specs_txt:
                structs.append(c06_parse_program_spec(a))
            now = base
            first = True
            while structs:
                refs = [c06_next_reference(sp, now, base) for sp in structs]
                if first:
                    refs = [r for r in refs]
                nxt = min([r for r in refs if r is not None], default=None)
                first = False
                if nxt is None or (nxt - base).total_seconds() > horizon:
                    break
                want.append((round((nxt - base).total_seconds(), 3), nxt))
                now = nxt if nxt > now else now + dtm.timedelta(microseconds=1)
            if "shutdown" in args:
                want.append(("at-removal", "shutdown"))
            got = [(t, tt) for (t, tt) in runs[:n_before_stop]] + [("at-removal", tt) for (t, tt) in runs[n_before_stop:]]
            cases += 1

            def close(a, b):
                if isinstance(a, dtm.datetime) and isinstance(b, dtm.datetime):
                    return abs((a - b).total_seconds()) < 0.001
                if isinstance(a, float) and isinstance(b, float):
                    return abs(a - b) < 0.002
                return a == b
            same = len(got) == len(want) and all(close(g[0], x[0]) and close(g[1], x[1]) for g, x in zip(got, want))
            if not same or exc is not None:
                failures.append({"signature": f"runs:{'legacy' if legacy else 'new'}:{args}", "subsystem": "legacy" if legacy else "new", "time_trigger": args,
                                 "observed": [(t, str(x)) for t, x in got][:12], "expected": [(t, str(x)) for t, x in want][:12], "error": repr(exc) if exc else None})
        await shutdown()
    return {"unit": "trigger_watch time branch / TimeTriggerDecorator._cycle + stop", "method": "fixed @time_trigger programs on a virtual clock vs iterated denotation",
            "bound": f"{len(C06_RUN_PROGRAMS)} programs x 2 subsystems", "cases": cases, "failures": failures[:4], "reproduced": bool(failures)}


def c06_parse_program_spec(txt):
    """structure of the fixed programs' specs (hand-written here, independent of the code under test)"""
    table = {
        'period(now, 10s, now + 35s)': ("period", ((("none",), ("now",), None), 10, (("none",), ("now",), ("+", 35, 1))), txt),
        'once(now + 12s)': ("once", (("none",), ("now",), ("+", 12, 1)), txt),
        'period(now + 5s, 20 sec)': ("period", ((("none",), ("now",), ("+", 5, 1)), 20, None), txt),
        'once(now)': ("once", (("none",), ("now",), None), txt),
        'once(now + 3s)': ("once", (("none",), ("now",), ("+", 3, 1)), txt),
        'period(now + 10m, 5min, now + 30min)': ("period", ((("none",), ("now",), ("+", 10, 60)), 300, (("none",), ("now",), ("+", 30, 60))), txt),
        'once(12:00:30)': ("once", (("none",), ("hms", 12, 0, 30), None), txt),
        'once(12:01:00 - 15s)': ("once", (("none",), ("hms", 12, 1, 0), ("-", 15, 1)), txt),
        'cron(* * * * *)': ("cron", "* * * * *", txt),
        'period(12:00, 30 sec, 12:02)': ("period", ((("none",), ("hms", 12, 0, None), None), 30, (("none",), ("hms", 12, 2, None), None)), txt),
    }
    return table[txt]


# ---------------------------------------------------------------------------------------------------------
# C19: kernel framing / signing / replies on real objects
# ---------------------------------------------------------------------------------------------------------
class _FragReader:
    """StreamReader stand-in: serves the byte stream in the given fragment sizes (then byte by byte)."""

    def __init__(self, data, frags):
        self.data, self.pos, self.frags = bytes(data), 0, list(frags)

    async def read(self, n):
        if self.pos >= len(self.data):
            return b""
        k = self.frags.pop(0) if self.frags else 1
        k = max(1, min(k, n, len(self.data) - self.pos))
        out = self.data[self.pos:self.pos + k]
        self.pos += k
        return out


class _CapWriter:
    def __init__(self):
        self.buf = bytearray()

    def write(self, b):
        self.buf += bytes(b)

    async def drain(self):
        pass

    def close(self):
        pass


def _compositions(n):
    """all ways to cut n bytes into fragments"""
    if n == 0:
        yield []
        return
    for mask in range(1 << (n - 1)):
        out, cur = [], 1
        for i in range(n - 1):
            if mask >> i & 1:
                out.append(cur)
                cur = 1
            else:
                cur += 1
        out.append(cur)
        yield out


async def c19_framing_bounded(w):
    """Bounded stand-in on real bytes: frame lists with lengths around 0/255/256/65535 (+ random contents) written by the real
    send routines and read back by the real receive routines under exhaustive (small messages) or random fragmentation;
    bit-flipped / wrongly keyed requests; request sequences against a real Kernel."""
    import random, hmac, hashlib, json as js
    from custom_components.pyscript.jupyter_kernel import ZmqSocket, Kernel, DELIM
    rng = random.Random(1919 + int(w.get("seed", 0)))
    failures, cases = [], 0

    def fail(sig, **kw):
        if len(failures) < 3:
            failures.append({"signature": sig, **{k: (v if isinstance(v, (int, str, list, type(None))) else repr(v)[:300]) for k, v in kw.items()}})

    async def roundtrip(parts, frags, single=False, with_cmd=False):
        wr = _CapWriter()
        tx = ZmqSocket(None, wr, "ROUTER")
        if with_cmd:
            await tx.send_cmd("READY", [["Socket-Type", "ROUTER"], ["Identity", ""]])
        if single:
            await tx.send(parts[0])
        else:
            await tx.send_multipart(parts)
        marker = b"\x00\x03END"       # a following message must stay unread
        rx = ZmqSocket(_FragReader(bytes(wr.buf) + marker, frags), None, "ROUTER")
        try:
            got = await asyncio.wait_for(rx.recv() if single else rx.recv_multipart(), timeout=20)
        except BaseException as e:  # noqa
            return "exception:" + repr(e), False, len(wr.buf)
        rest = rx.reader.data[rx.reader.pos:]
        return got, rest == marker, len(wr.buf)

    lens = [0, 1, 2, 254, 255, 256, 257, 65535, 65536]
    small = [0, 1, 2]
    # exhaustive fragmentation for small messages
    for n in (1, 2, 3):
        for combo in __import__("itertools").product(small, repeat=n):
            parts = [bytes(rng.randrange(256) for _ in range(k)) for k in combo]
            total = sum(combo) + 2 * n
            for frags in _compositions(total + 5):
                got, clean, _ = await roundtrip(parts, frags)
                cases += 1
                if got != parts or not clean:
                    fail(f"framing:{combo}:{frags}", lengths=list(combo), fragments=frags, observed=got, expected=parts)
    # boundary lengths, random fragmentation
    n_rand = 60 if w.get("quick") else 400
    for _ in range(n_rand):
        n = rng.choice([1, 1, 2, 3, 4, 7])
        combo = [rng.choice(lens) for _i in range(n)]
        parts = [rng.randbytes(k) for k in combo]
        total = sum(combo) + 9 * n
        for frags in ([total + 20], [], [rng.choice([1, 2, 3, 7, 100, 255, 256, 4096]) for _k in range(200)]):
            single = n == 1 and rng.random() < 0.5
            with_cmd = rng.random() < 0.3
            got, clean, _ = await roundtrip(parts, list(frags), single=single, with_cmd=with_cmd)
            cases += 1
            want = parts[0] if single else parts
            if got != want or not clean:
                fail(f"framing:{combo}:{'single' if single else 'multi'}", lengths=combo, fragments=frags[:10],
                     observed=(got if isinstance(got, str) else [len(g) for g in (got if isinstance(got, list) else [got])]))
    # ---- signing and replies
    hass = await boot_full()
    hass.states.async_all = lambda: []
    hass.states.get = lambda name: None
    from custom_components.pyscript.eval import AstEval
    from custom_components.pyscript.function import Function
    from custom_components.pyscript.global_ctx import GlobalContext, GlobalContextMgr
    key = "secret-key-c19"
    gctx = GlobalContext("jupyter_c19", global_sym_table={"__name__": "jupyter_c19"}, manager=GlobalContextMgr)
    GlobalContextMgr.set("jupyter_c19", gctx)
    actx = AstEval("jupyter_c19", gctx)
    Function.install_ast_funcs(actx)
    kernel = Kernel({"key": key, "signature_scheme": "hmac-sha256"}, actx, gctx, "jupyter_c19")
    hk = asyncio.get_running_loop().create_task(kernel.housekeep_run())
    evals = []
    orig_eval = actx.eval

    async def counted_eval(*a, **k):
        evals.append(1)
        return await orig_eval(*a, **k)
    actx.eval = counted_eval

    def sign(frames, k=key):
        h = hmac.new(k.encode(), digestmod=hashlib.sha256)
        for f in frames:
            h.update(f)
        return h.hexdigest().encode()

    def request(msg_type, content, ids=(b"client-1", b"route-2"), k=key, n=[0]):
        n[0] += 1
        header = {"msg_id": f"m{n[0]}", "username": "u", "session": "s", "msg_type": msg_type, "version": "5.3", "date": "d"}
        frames = [js.dumps(header).encode(), b"{}", b"{}", js.dumps(content).encode()]
        return header, list(ids) + [DELIM, sign(frames, k)] + frames

    async def handle(wire):
        shell_w, pub_w = _CapWriter(), _CapWriter()
        shell, pub = ZmqSocket(None, shell_w, "ROUTER"), ZmqSocket(None, pub_w, "PUB")
        kernel.iopub_socket = {pub}
        err = None
        try:
            await kernel.shell_handler(shell, wire)
        except Exception as e:  # noqa
            err = e
        await settle(20)

        async def decode(buf):
            rx = ZmqSocket(_FragReader(bytes(buf), [len(buf) + 1] * 1000), None, "ROUTER")
            out = []
            while rx.reader.pos < len(rx.reader.data):
                out.append(await rx.recv_multipart())
            return out
        return await decode(shell_w.buf), await decode(pub_w.buf), err

    def parse(wire_msg):
        i = wire_msg.index(DELIM)
        frames = wire_msg[i + 2:]
        return {"ids": wire_msg[:i], "sig_ok": wire_msg[i + 1] == sign(frames), "header": js.loads(frames[0]), "parent": js.loads(frames[1]),
                "metadata": js.loads(frames[2]), "content": js.loads(frames[3])}
    cells = [("1+1", "2"), ("x = 3", None), ("x * 2", "6"), ("1/0", "error"), ("x", "3"), ("x - 3", "0"), ("''", "''"), ("[]", "[]"), ("x == 4", "False"), ("None", None)]
    count = kernel.execution_count
    script = [("kernel_info_request", {}, "kernel_info_reply")]
    for code, _ in cells:
        script.append(("execute_request", {"code": code, "silent": False, "store_history": True}, "execute_reply"))
    script += [("is_complete_request", {"code": "if x:"}, "is_complete_reply"), ("complete_request", {"code": "x", "cursor_pos": 1}, "complete_reply")]
    ci = 0
    for msg_type, content, reply_type in script:
        header, wire = request(msg_type, content)
        n_ev = len(evals)
        shell_msgs, pub_msgs, err = await handle(wire)
        cases += 1
        sm, pm = [parse(m) for m in shell_msgs], [parse(m) for m in pub_msgs]
        ok = err is None and len(sm) == 1 and sm[0]["sig_ok"] and sm[0]["ids"] == [b"client-1", b"route-2"] and sm[0]["parent"] == header \
            and sm[0]["header"]["msg_type"] == reply_type and len(pm) >= 2 and all(m["sig_ok"] and m["parent"] == header for m in pm) \
            and pm[0]["header"]["msg_type"] == "status" and pm[0]["content"] == {"execution_state": "busy"} \
            and pm[-1]["header"]["msg_type"] == "status" and pm[-1]["content"] == {"execution_state": "idle"} \
            and sum(1 for m in pm if m["header"]["msg_type"] == "status") == 2
        if msg_type == "execute_request":
            code, want = cells[ci]
            ci += 1
            ok = ok and len(evals) == n_ev + 1 and sm[0]["content"]["execution_count"] == count
            res = [m for m in pm if m["header"]["msg_type"] == "execute_result"]
            errs = [m for m in pm if m["header"]["msg_type"] == "error"]
            if want == "error":
                ok = ok and sm[0]["content"]["status"] == "error" and len(errs) == 1 and not res and errs[0]["content"]["ename"] == "ZeroDivisionError"
            elif want is None:
                ok = ok and sm[0]["content"]["status"] == "ok" and not res and not errs
            else:
                ok = ok and sm[0]["content"]["status"] == "ok" and len(res) == 1 and res[0]["content"]["data"]["text/plain"] == want and res[0]["content"]["execution_count"] == count
            count += 1
        if not ok:
            fail(f"reply:{msg_type}:{content}", request=msg_type, content=str(content), error=repr(err), shell=[(m['header']['msg_type'], m['sig_ok'], m['ids']) for m in sm],
                 iopub=[(m['header']['msg_type'], m['content']) for m in pm][:6])
    # unauthenticated: wrong key, and every single-bit flip of the signature / a sample of bit flips in the frames
    header, wire = request("execute_request", {"code": "hacked = 1", "silent": False})
    bad = [request("execute_request", {"code": "hacked = 1"}, k="other-key")[1]]
    sig_i = wire.index(DELIM) + 1
    for byte_i in range(len(wire[sig_i])):
        for bit in range(8):
            m = list(wire)
            b = bytearray(m[sig_i])
            b[byte_i] ^= 1 << bit
            m[sig_i] = bytes(b)
            bad.append(m)
    for fi in range(sig_i + 1, len(wire)):
        for _ in range(12):
            m = list(wire)
            b = bytearray(m[fi])
            if not b:
                continue
            b[rng.randrange(len(b))] ^= 1 << rng.randrange(8)
            m[fi] = bytes(b)
            bad.append(m)
    for m in bad:
        n_ev = len(evals)
        shell_msgs, pub_msgs, err = await handle(m)
        cases += 1
        if shell_msgs or pub_msgs or len(evals) != n_ev or "hacked" in gctx.global_sym_table:
            fail("unauthenticated-request-processed", shell=len(shell_msgs), iopub=len(pub_msgs), evaluated=len(evals) - n_ev, error=repr(err))
    hk.cancel()
    await shutdown()
    return {"unit": "ZmqSocket framing, Kernel.deserialize_wire_msg / send / shell_handler on real bytes", "method": "real objects over in-memory streams",
            "bound": f"exhaustive fragmentation for <= 3 frames of <= 2 bytes; {n_rand} random frame lists with lengths in {lens}; {len(script)} requests; {len(bad)} corrupted requests",
            "cases": cases, "failures": failures, "reproduced": bool(failures)}


async def c19_two_senders(w):
    """Two coroutines send multi-frame messages on ONE ZmqSocket whose transport really suspends in drain() (a slow reader):
    the peer must read two intact messages (in either order)."""
    from custom_components.pyscript.jupyter_kernel import ZmqSocket
    buf = bytearray()

    class Writer:
        def write(self, b):
            buf.extend(b)

        async def drain(self):
            await asyncio.sleep(0)
    sock = ZmqSocket(None, Writer(), "PUB")
    m1 = [b"A" * 3, b"a" * 300, b"", b"1"]
    m2 = [b"B" * 5, b"b" * 2, b"2" * 260]
    await asyncio.gather(sock.send_multipart(m1), sock.send_multipart(m2))
    reader = asyncio.StreamReader()
    reader.feed_data(bytes(buf))
    reader.feed_eof()
    peer = ZmqSocket(reader, None, "SUB")
    got, err = [], None
    try:
        for _ in range(2):
            got.append(await asyncio.wait_for(peer.recv_multipart(), 5))
    except Exception as e:  # noqa
        err = repr(e)
    ok = err is None and sorted(got) == sorted([m1, m2])
    return {"reproduced": not ok, "observed": {"messages_read": [[len(f) for f in m] for m in got], "error": err}, "expected": {"messages": [[len(f) for f in m1], [len(f) for f in m2]]}}


async def c19_send_text(w):
    """Every reply text must reach the wire: a cell whose exception message (or output) holds a lone surrogate - what Python
    produces for undecodable bytes (os.fsdecode, surrogateescape) - still gets its reply and the closing idle status."""
    import hmac, hashlib, json as js
    from custom_components.pyscript.jupyter_kernel import Kernel, DELIM
    from custom_components.pyscript.eval import AstEval
    from custom_components.pyscript.function import Function
    from custom_components.pyscript.global_ctx import GlobalContext, GlobalContextMgr
    hass = await boot_full()
    key = "k19"
    gctx = GlobalContext("jupyter_c19c", global_sym_table={"__name__": "jupyter_c19c"}, manager=GlobalContextMgr)
    GlobalContextMgr.set("jupyter_c19c", gctx)
    actx = AstEval("jupyter_c19c", gctx)
    Function.install_ast_funcs(actx)
    kernel = Kernel({"key": key, "signature_scheme": "hmac-sha256"}, actx, gctx, "jupyter_c19c")
    hk = asyncio.get_running_loop().create_task(kernel.housekeep_run())
    sent = []

    class Cap:
        def __init__(self, name):
            self.name = name

        async def send_multipart(self, parts):
            i = parts.index(DELIM)
            sent.append((self.name, js.loads(parts[i + 2])["msg_type"], js.loads(parts[i + 5])))
    kernel.iopub_socket = {Cap("iopub")}

    def request(mid, msg_type, content):
        header = {"msg_id": mid, "username": "u", "session": "s", "msg_type": msg_type, "version": "5.3", "date": "d"}
        frames = [js.dumps(header).encode(), b"{}", b"{}", js.dumps(content).encode()]
        h = hmac.new(key.encode(), digestmod=hashlib.sha256)
        for f in frames:
            h.update(f)
        return [b"id", DELIM, h.hexdigest().encode()] + frames
    err = None
    try:
        await asyncio.wait_for(kernel.shell_handler(Cap("shell"), request("A", "execute_request",
                               {"code": "raise ValueError('bad name ' + chr(0xdcff))", "silent": False})), 10)
    except Exception as e:  # noqa
        err = repr(e)
    await settle(20)
    hk.cancel()
    await shutdown()
    kinds = [(n, t) for n, t, c in sent]
    ok = err is None and ("shell", "execute_reply") in kinds and any(t == "status" and c.get("execution_state") == "idle" for n, t, c in sent)
    return {"reproduced": not ok, "observed": {"messages": kinds, "error": err},
            "expected": "an execute_reply on the shell stream and a closing idle status; no exception out of the handler"}


async def c19_interleaved_parent(w):
    """Two shell connections: request A (a cell that awaits) is suspended while request B is handled; every message caused by A -
    in particular its closing idle status - must carry A's header as parent."""
    import hmac, hashlib, json as js
    from custom_components.pyscript.jupyter_kernel import ZmqSocket, Kernel, DELIM
    from custom_components.pyscript.eval import AstEval
    from custom_components.pyscript.function import Function
    from custom_components.pyscript.global_ctx import GlobalContext, GlobalContextMgr
    hass = await boot_full()
    key = "k19"
    gctx = GlobalContext("jupyter_c19b", global_sym_table={"__name__": "jupyter_c19b"}, manager=GlobalContextMgr)
    GlobalContextMgr.set("jupyter_c19b", gctx)
    actx = AstEval("jupyter_c19b", gctx)
    Function.install_ast_funcs(actx)
    kernel = Kernel({"key": key, "signature_scheme": "hmac-sha256"}, actx, gctx, "jupyter_c19b")
    hk = asyncio.get_running_loop().create_task(kernel.housekeep_run())
    sent = []

    class Cap:
        def __init__(self, name):
            self.name = name

        async def send_multipart(self, parts):
            i = parts.index(DELIM)
            sent.append((self.name, js.loads(parts[i + 2])["msg_type"], js.loads(parts[i + 3]).get("msg_id"), js.loads(parts[i + 5])))
    kernel.iopub_socket = {Cap("iopub")}

    def request(mid, msg_type, content):
        header = {"msg_id": mid, "username": "u", "session": "s", "msg_type": msg_type, "version": "5.3", "date": "d"}
        frames = [js.dumps(header).encode(), b"{}", b"{}", js.dumps(content).encode()]
        h = hmac.new(key.encode(), digestmod=hashlib.sha256)
        for f in frames:
            h.update(f)
        return [b"id", DELIM, h.hexdigest().encode()] + frames
    gate = asyncio.Event()

    async def wait_gate():
        await gate.wait()
        return 5
    gctx.global_sym_table["wait_gate"] = wait_gate
    ta = asyncio.get_running_loop().create_task(kernel.shell_handler(Cap("shellA"), request("A", "execute_request", {"code": "wait_gate()", "silent": False})))
    await settle(30)
    await kernel.shell_handler(Cap("shellB"), request("B", "kernel_info_request", {}))
    gate.set()
    await asyncio.wait_for(ta, 10)
    await settle(20)
    hk.cancel()
    await shutdown()
    idle = [(n, parent) for (n, t, parent, c) in sent if t == "status" and c.get("execution_state") == "idle"]
    want = sorted(["A", "B"])
    got = sorted(p for _, p in idle)
    return {"reproduced": got != want, "observed": {"idle_status_parents": got, "all": [(n, t, p) for n, t, p, c in sent]}, "expected": {"idle_status_parents": want}}


# ---------------------------------------------------------------------------------------------------------
# C15: task.wait_until on the real subsystems
# ---------------------------------------------------------------------------------------------------------
def _c15_held(hass):
    from custom_components.pyscript.state import State
    from custom_components.pyscript.event import Event
    held = {"state": sum(len(v) for v in State.notify.values()), "event": sum(len(v) for v in Event.notify.values()),
            "bus_listeners": sum(len(v) for k, v in hass.bus.listeners.items() if k.startswith("c15_"))}
    return held


async def c15_wait_until(w):
    """task.wait_until on the real subsystem: the scenario named by w['what'] for both subsystems (or w['subsystem'])."""
    from types import SimpleNamespace as NS
    from custom_components.pyscript.global_ctx import GlobalContext, GlobalContextMgr
    from custom_components.pyscript.function import Function
    from custom_components.pyscript.event import Event
    what = w.get("what", "cancel")
    out = {}
    for legacy in (False, True):
        sub = "legacy" if legacy else "new"
        if w.get("subsystem") not in (None, sub):
            continue
        if what == "timeout-with-traffic":
            env5 = await c05_env(legacy)     # virtual clock for the loop, time.monotonic and dt_now
            hass, table = env5.hass, env5.table
        else:
            hass = await boot_full(legacy=legacy)
            table = fake_states(hass)
        table["pyscript.c15v"] = ("0", {})
        table["pyscript.c15bad"] = ("unavailable", {})
        base = _c15_held(hass)
        result = {}
        name = f"file.c15_{sub}_{what}"
        gctx = GlobalContext(name, global_sym_table={"__name__": name, "report": lambda k, v: result.__setitem__(k, v)}, manager=GlobalContextMgr)
        GlobalContextMgr.set(name, gctx)
        gctx.set_auto_start(True)
        calls = {
            "cancel": 'task.wait_until(state_trigger="pyscript.c15v == \'1\'", event_trigger="c15_ev")',
            "timeout-zero": 'task.wait_until(timeout=0)',
            "timeout-zero-with-trigger": 'task.wait_until(event_trigger="c15_ev", timeout=0)',
            "filter-parse-error": 'task.wait_until(state_trigger="pyscript.c15v == \'1\'", event_trigger="c15_ev", mqtt_trigger=["c15/topic", "1 +"])',
            "expression-error": 'task.wait_until(event_trigger=["c15_ev", "undefined_name_c15 > 1"])',
            "event": 'task.wait_until(event_trigger="c15_ev", timeout=30)',
            "initial-check-error": 'task.wait_until(state_trigger="int(pyscript.c15bad) > 25", timeout=5)',
            "timeout-with-traffic": 'task.wait_until(event_trigger=["c15_ev", "a == 2"], timeout=2.5)',
        }
        src = ("@time_trigger('startup')\ndef f():\n    report('started', True)\n    try:\n        r = " + calls[what] +
               "\n        report('ret', r)\n    except Exception as e:\n        report('exc', type(e).__name__)\n")
        tasks_before = set(asyncio.all_tasks())
        _, _, exc = await run_source(name, src, global_ctx=gctx)
        await settle(40)
        during = _c15_held(hass)
        if what == "cancel":
            # cancel the task that runs f (as task.cancel / task.unique / reload would)
            for t in set(asyncio.all_tasks()) - tasks_before:
                if not t.done() and t in Function.our_tasks and "_cycle" not in repr(t.get_coro()) and "trigger_watch" not in repr(t.get_coro()):
                    t.cancel()
            await settle(40)
        elif what == "timeout-with-traffic":
            # non-qualifying events keep arriving once per (virtual) second; the timeout counts from the call
            vt = env5.vt
            t0 = vt[0]
            for _i in range(6):
                await asyncio.sleep(1.0)
                for cb in list(hass.bus.listeners.get("c15_ev", [])):
                    await cb(NS(event_type="c15_ev", context=None, data={"a": 1}))
                await settle(30)
                if "ret" in result and "t_ret" not in result:
                    result["t_ret"] = str(round(vt[0] - t0, 1))
        elif what in ("expression-error", "event"):
            for cb in list(hass.bus.listeners.get("c15_ev", [])):
                await cb(NS(event_type="c15_ev", context=None, data={"a": 1}))
            await settle(40)
        else:
            try:
                await asyncio.wait_for(settle(200), 2)
            except Exception:  # noqa
                pass
        after = _c15_held(hass)
        gctx.stop()
        GlobalContextMgr.delete(name)
        await settle(20)
        out[sub] = {"held_before": base, "held_while_waiting": during, "held_after_exit": after, "result": {k: (v if isinstance(v, (str, bool, type(None))) else repr(v)) for k, v in result.items()},
                    "error": repr(exc) if exc else None}
        await shutdown()
    bad = {}
    for sub, o in out.items():
        leak = o["held_after_exit"] != o["held_before"]
        wrong = False
        if what.startswith("timeout-zero"):
            wrong = o["result"].get("ret") != repr({"trigger_type": "timeout"})
        if what == "event":
            wrong = "'trigger_type': 'event'" not in str(o["result"].get("ret"))
        if what in ("expression-error", "initial-check-error"):
            wrong = o["result"].get("exc") is None
        if what == "timeout-with-traffic":
            wrong = o["result"].get("ret") != repr({"trigger_type": "timeout"}) or o["result"].get("t_ret") not in ("3.0",)
        if leak or wrong:
            bad[sub] = {"leak": leak, "wrong_result": wrong}
    return {"reproduced": bool(bad), "observed": out, "expected": "subscriptions and listeners as before the call; " + {"timeout-zero": "returns {'trigger_type': 'timeout'}",
            "timeout-zero-with-trigger": "returns {'trigger_type': 'timeout'}", "event": "returns the event dictionary", "expression-error": "the exception reaches the caller", "initial-check-error": "the exception reaches the caller",
            "cancel": "CancelledError", "filter-parse-error": "the syntax error reaches the caller",
            "timeout-with-traffic": "returns {'trigger_type': 'timeout'} 2.5 s after the call although non-qualifying events keep arriving"}[what], "failing": bad}


# ---------------------------------------------------------------------------------------------------------
# C10: reload on a real directory tree against the statement's changed-set rules
# ---------------------------------------------------------------------------------------------------------
C10_FILES = {
    # relative path -> (context name, autoload, imports written into the file)
    "a.py": ("file.a", True, ["import m1"]),
    "b.py": ("file.b", True, []),
    "scripts/s1.py": ("scripts.s1", True, ["import m2"]),
    "scripts/sub/s2.py": ("scripts.sub.s2", True, []),
    "apps/app1.py": ("apps.app1", True, []),
    "apps/app2/__init__.py": ("apps.app2", True, ["from .helper import hv"]),
    "apps/app2/helper.py": ("apps.app2.helper", False, []),
    "modules/m1.py": ("modules.m1", False, ["import m3"]),
    "modules/m2/__init__.py": ("modules.m2", False, ["from .util import uv"]),
    "modules/m2/util.py": ("modules.m2.util", False, []),
    "modules/m3.py": ("modules.m3", False, []),
}
C10_IMPORT_TARGET = {"import m1": "modules.m1", "import m2": "modules.m2", "import m3": "modules.m3", "from .helper import hv": "apps.app2.helper", "from .util import uv": "modules.m2.util"}


def c10_root(name):
    p = name.split(".")
    return ".".join(p[:2]) if p[0] in ("apps", "modules") else name


async def c10_reload_bounded(w):
    """Bounded stand-in for reload: random histories of modify / touch / create / delete / '#'-rename / app-config changes on
    a real directory tree, each followed by the REAL load_scripts; the loaded contexts, their sources and which context
    objects survived are compared with the statement's rules computed independently."""
    import os, random, shutil, tempfile
    from custom_components.pyscript import load_scripts, start_global_contexts
    from custom_components.pyscript.global_ctx import GlobalContextMgr
    rng = random.Random(1010 + int(w.get("seed", 0)))
    n_hist = int(w.get("histories", 40))
    failures, cases = [], 0
    nontrivial, samples = set(), []
    hass = await boot_full()
    tmp = tempfile.mkdtemp(prefix="c10_")
    hass.config.path = lambda *a: os.path.join(tmp, *a)
    root = os.path.join(tmp, "pyscript")

    def body(rel, version):
        ctx, auto, imps = C10_FILES[rel]
        lines = list(imps) + [f"version = {version}"]
        if "from .helper import hv" in imps or rel.endswith("helper.py"):
            lines.append("hv = 1")
        if rel.endswith("util.py") or "from .util import uv" in imps:
            lines.append("uv = 1")
        return "\n".join(lines) + "\n"
    try:
        for h in range(n_hist):
            # fresh world
            for name, _ in list(GlobalContextMgr.items()):
                if name.split(".")[0] in ("file", "apps", "modules", "scripts"):
                    GlobalContextMgr.delete(name)
            shutil.rmtree(root, ignore_errors=True)
            os.makedirs(root)
            tree = {}       # rel -> (version, mtime) for files that exist un-commented
            hidden = set()  # rel paths currently renamed with '#'
            clock = [1000.0]
            apps_cfg = {"app1": {"k": 1}, "app2": {"k": 1}}

            def write(rel, version):
                path = os.path.join(root, rel)
                os.makedirs(os.path.dirname(path), exist_ok=True)
                with open(path, "w", encoding="utf-8") as f:
                    f.write(body(rel, version))
                clock[0] += 10
                os.utime(path, (clock[0], clock[0]))
                tree[rel] = (version, clock[0])
            for rel in C10_FILES:
                if rng.random() < 0.85:
                    write(rel, 1)
            model = {}   # ctx name -> {"obj": id, "imports": set, "src": str, "mtime":, "cfg":}
            log = []
            for step in range(int(w.get("steps", 5))):
                # a few edits, then a reload
                for _e in range(rng.choice([0, 1, 1, 2])):
                    op = rng.choice(["modify", "touch", "create", "delete", "hash", "unhash", "cfg"])
                    rels = sorted(C10_FILES)
                    rel = rng.choice(rels)
                    path = os.path.join(root, rel)
                    if op == "modify" and rel in tree:
                        write(rel, tree[rel][0] + 1)
                    elif op == "touch" and rel in tree:
                        clock[0] += 10
                        os.utime(path, (clock[0], clock[0]))
                        tree[rel] = (tree[rel][0], clock[0])
                    elif op == "create" and rel not in tree and rel not in hidden:
                        write(rel, 1)
                    elif op == "delete" and rel in tree:
                        os.remove(path)
                        del tree[rel]
                    elif op == "hash" and rel in tree:
                        os.rename(path, os.path.join(os.path.dirname(path), "#" + os.path.basename(path)))
                        hidden.add(rel)
                        tree.pop(rel)
                    elif op == "unhash" and hidden:
                        rel = rng.choice(sorted(hidden))
                        path = os.path.join(root, rel)
                        hp = os.path.join(os.path.dirname(path), "#" + os.path.basename(path))
                        if not os.path.exists(path):
                            os.rename(hp, path)
                            hidden.discard(rel)
                            tree[rel] = (int(open(path).read().split("version = ")[1].split()[0]), os.path.getmtime(path))
                    elif op == "cfg":
                        app = rng.choice(["app1", "app2"])
                        if app in apps_cfg and rng.random() < 0.5:
                            del apps_cfg[app]
                        else:
                            apps_cfg[app] = {"k": rng.randrange(3)}
                    log.append((op, rel))
                arg = rng.choice([None, None, None, "*", "file.a", "modules.m1"])
                # ---------------- reference
                files = {}
                for rel, (ver, mt) in tree.items():
                    ctx, auto, imps = C10_FILES[rel]
                    if ctx.startswith("apps."):
                        app = ctx.split(".")[1]
                        if app not in apps_cfg:
                            continue     # apps (all their files) count only when configured
                    files[ctx] = {"rel": rel, "auto": auto, "src": body(rel, ver), "mtime": mt,
                                  "cfg": apps_cfg.get(ctx.split(".")[1]) if ctx.startswith("apps.") and len(ctx.split(".")) == 2 else None}
                before = dict(model)
                if arg == "*":
                    discard = set(before)
                    force = set(files)
                elif arg is not None:
                    if arg not in before and arg not in files:
                        log.append(("reload-unknown", arg))
                        continue
                    discard = {arg}      # the named context is re-executed (or unloaded when its file is gone)
                    force = {arg} if arg in files else set()
                else:
                    discard = {c for c in before if c not in files}
                    force = set()
                    for c, f in files.items():
                        if c in before:
                            if f["src"] != before[c]["src"] or f["mtime"] != before[c]["mtime"] or f["cfg"] != before[c]["cfg"]:
                                discard.add(c)
                                force.add(c)
                        elif f["auto"]:
                            force.add(c)
                # importers of reloaded module roots (recorded imports, transitively)
                roots = {c10_root(c) for c in files if c.startswith("modules.") and (c in discard or c in force)}

                def closure(c, seen):
                    out = set()
                    for i in before.get(c, {}).get("imports", ()):
                        if i not in seen:
                            seen.add(i)
                            out.add(i)
                            out |= closure(i, seen)
                    return out
                if roots:
                    for c in before:
                        if any(c10_root(i) in roots for i in closure(c, set())):
                            discard.add(c)
                            if c in files:
                                force.add(c)
                # package widening
                for r in {c10_root(c) for c in force if c.split(".")[0] in ("apps", "modules")}:
                    for c in files:
                        if c == r or c.startswith(r + "."):
                            discard.add(c)
                            force.discard(c)
                            if files[c]["rel"] in (r.replace(".", "/") + "/__init__.py", r.replace(".", "/") + ".py"):
                                force.add(c)
                kept = {c for c in before if c not in discard}
                load_now = sorted(c for c in force if files[c]["auto"])
                # expected loaded set: kept + loaded now + the modules those import that are not loaded (lazily, transitively)
                expect = set(kept)
                new_imports = {}

                def do_load(c):
                    expect.add(c)
                    imps = set()
                    for stmt in C10_FILES[files[c]["rel"]][2]:
                        tgt = C10_IMPORT_TARGET[stmt]
                        if tgt in expect:
                            imps.add(tgt)
                        elif tgt in files:
                            do_load(tgt)
                            imps.add(tgt)
                        else:
                            new_imports[c] = "IMPORT-FAILS"
                            return False
                    if new_imports.get(c) != "IMPORT-FAILS":
                        new_imports[c] = imps
                    return True
                failed_loads = set()
                for c in load_now:
                    if c in expect and c not in kept:
                        continue
                    if not do_load(c):
                        failed_loads.add(c)
                # ---------------- real
                objs_before = {name: ctx for name, ctx in GlobalContextMgr.items()}
                await load_scripts(hass, {"apps": dict(apps_cfg), "allow_all_imports": False, "hass_is_global": False}, global_ctx_only=arg)
                start_global_contexts(global_ctx_only=arg)
                await settle(10)
                got = {name: ctx for name, ctx in GlobalContextMgr.items() if name.split(".")[0] in ("file", "apps", "modules", "scripts")}
                cases += 1
                sig = (arg, tuple(sorted(discard & set(before))), tuple(load_now))
                if (discard & set(before)) or load_now:
                    nontrivial.add(sig)
                    if len(samples) < 3:
                        samples.append({"edits_since_last_reload": [list(x) for x in log[-3:]], "reload": arg, "expected_discard": sorted(discard & set(before)),
                                        "expected_load": load_now, "loaded_before": sorted(before)})
                if failed_loads or any(v == "IMPORT-FAILS" for v in new_imports.values()):
                    # an import of a missing module: error handling of partially loaded scripts is C18's business; resync the model
                    model = {n: {"obj": c, "imports": set(c.get_imports()), "src": c.get_source(), "mtime": c.get_mtime(), "cfg": c.get_app_config()} for n, c in got.items()}
                    continue
                problems = []
                if set(got) != expect:
                    problems.append({"loaded": sorted(got), "expected_loaded": sorted(expect)})
                for c in kept & set(got):
                    if got[c] is not before[c]["obj"]:
                        problems.append({"re-created-although-untouched": c})
                for c in (set(got) & set(before)) - kept:
                    if got[c] is before[c]["obj"]:
                        problems.append({"kept-although-changed": c})
                for c, ctx in got.items():
                    if arg not in (None, "*") and c != arg:
                        continue    # a named reload leaves other changed files for the next default reload (documented)
                    if c in files and ctx.get_source() is not None and ctx.get_source() != files[c]["src"]:
                        problems.append({"stale-source": c})
                    if c in files and ctx.global_sym_table.get("version") != int(files[c]["src"].split("version = ")[1].split()[0]):
                        problems.append({"stale-variables": c, "version": ctx.global_sym_table.get("version")})
                if problems and len(failures) < 3:
                    failures.append({"signature": f"reload:{h}:{step}:{arg}", "history": log[-8:], "reload": arg, "problems": problems[:4]})
                model = {n: {"obj": c, "imports": set(c.get_imports()), "src": c.get_source() if c.get_source() is not None else files.get(n, {}).get("src"),
                             "mtime": c.get_mtime() if c.get_mtime() is not None else files.get(n, {}).get("mtime"), "cfg": c.get_app_config()} for n, c in got.items()}
    finally:
        shutil.rmtree(tmp, ignore_errors=True)
    await shutdown()
    return {"unit": "load_scripts + GlobalContext.module_import + start_global_contexts on a real tree", "method": "random edit/reload histories vs the statement's changed-set rules",
            "bound": f"{n_hist} histories x <= {w.get('steps', 5)} reloads over {len(C10_FILES)} files", "cases": cases, "failures": failures, "reproduced": bool(failures),
            "distinct_nontrivial": len(nontrivial), "samples": samples}


C04_TRIGGERS = [
    # (decorator argument strings, extra decorator kwargs text, reference predicate name)
    (["pyscript.v == '1'"], "", "expr_v_is_1"),
    (["pyscript.v"], "", "any_value"),
    (["pyscript.v.a"], "", "any_attr_a"),
    (["pyscript.v.*"], "", "any_attr"),
    (["pyscript.v.old == '0' and pyscript.v == '1'"], "", "expr_0_to_1"),
    (["pyscript.v.a == 'x'"], "", "expr_attr_a_is_x"),
    (["pyscript.v == '1'", "pyscript.u"], "", "expr_v_is_1_or_any_u"),
    (["pyscript.v == '1'"], ", kwargs={'extra': 7, 'value': 'overridden'}", "expr_v_is_1"),
    (["pyscript.v == '1' and pyscript.v.a == 'x'"], "", "expr_v1_and_ax"),
    (["pyscript.v.a == 'x' and pyscript.v.old == '1'"], "", "expr_ax_and_old1"),
]


def c04_reference(pred, ent, new, old):
    """does the change (entity, new (value, attrs) or None, old ...) qualify?  written from the property statement"""
    nv, na = (new if new is not None else (None, {}))
    ov, oa = (old if old is not None else (None, {}))
    value_changed = nv != ov
    if pred == "any_value":
        return ent == "pyscript.v" and value_changed
    if pred == "any_attr_a":
        return ent == "pyscript.v" and na.get("a") != oa.get("a")
    if pred == "any_attr":
        return ent == "pyscript.v" and any(na.get(k) != oa.get(k) for k in set(na) | set(oa))
    if pred == "expr_v_is_1":
        return ent == "pyscript.v" and value_changed and nv == "1"
    if pred == "expr_0_to_1":
        return ent == "pyscript.v" and value_changed and ov == "0" and nv == "1"
    if pred == "expr_attr_a_is_x":
        return ent == "pyscript.v" and na.get("a") != oa.get("a") and na.get("a") == "x"
    if pred == "expr_v1_and_ax":
        return ent == "pyscript.v" and (value_changed or na.get("a") != oa.get("a")) and nv == "1" and na.get("a") == "x"
    if pred == "expr_ax_and_old1":
        return ent == "pyscript.v" and (value_changed or na.get("a") != oa.get("a")) and na.get("a") == "x" and ov == "1"
    if pred == "expr_v_is_1_or_any_u":
        return (ent == "pyscript.u" and value_changed) or (ent == "pyscript.v" and value_changed and nv == "1")
    raise KeyError(pred)


async def c04_triggers_bounded(w):
    """Bounded stand-in for the whole chain state change -> State.update -> trigger loop -> function call, both subsystems:
    every history of <= depth changes (value / attribute a / attribute b / other entity / delete / create) for a set of
    @state_trigger forms; the function must run exactly for the qualifying changes, in order, with that change's var_name,
    value and old_value (decorator kwargs overriding)."""
    import itertools
    from types import SimpleNamespace as NS
    from custom_components.pyscript.state import State, StateVal
    from custom_components.pyscript.global_ctx import GlobalContext, GlobalContextMgr
    depth = int(w.get("depth", 2))
    steps = ["v=1", "v=0", "v.a=x", "v.a=y", "v.b=z", "u=1", "u=0", "del v", "v=1,a=x"]
    failures, cases, nontriv = [], 0, 0
    samples = []
    for legacy in (False, True):
        sub = "legacy" if legacy else "new"
        if w.get("subsystem") not in (None, sub):
            continue
        hass = await boot_full(legacy=legacy)
        table = fake_states(hass)
        n = 0
        for args, kwtxt, pred in C04_TRIGGERS:
            for hist in itertools.chain.from_iterable(itertools.product(steps, repeat=k) for k in range(1, depth + 1)):
                n += 1
                table.clear()
                State.notify_var_last.clear()
                world = {"pyscript.v": ("0", {"a": "p", "b": "q"}), "pyscript.u": ("0", {})}
                for e, (val, at) in world.items():
                    table[e] = (val, dict(at))
                runs = []
                name = f"file.c04_{sub}_{n}"
                gctx = GlobalContext(name, global_sym_table={"__name__": name, "record": lambda kw_: runs.append({k: (str(v) if v is not None else None) for k, v in kw_.items() if k in ("var_name", "value", "old_value", "extra", "trigger_type")})},
                                     manager=GlobalContextMgr)
                GlobalContextMgr.set(name, gctx)
                gctx.set_auto_start(True)
                src = f"@state_trigger({', '.join(repr(a) for a in args)}{kwtxt})\ndef f(**kw):\n    record(kw)\n"
                _, _, exc = await run_source(name, src, global_ctx=gctx)
                await settle(20)
                want = []

                def sv(ent, st):
                    if st is None:
                        return None
                    return StateVal(NS(state=st[0], attributes=dict(st[1]), entity_id=ent, last_updated="u", last_changed="c", last_reported="r"))
                for stp in hist:
                    ent = "pyscript.u" if stp.startswith("u") else "pyscript.v"
                    old = world.get(ent)
                    if stp == "del v":
                        new = None
                    else:
                        val, at = old if old is not None else ("0", {})
                        at = dict(at)
                        for piece in stp.split(","):
                            k, vv = piece.split("=")
                            k = k.replace("v.", "").replace("u.", "")
                            if k in ("v", "u"):
                                val = vv
                            else:
                                at[k] = vv
                        new = (val, at)
                    if new == old:
                        continue    # Home Assistant reports no change
                    world[ent] = new
                    if new is None:
                        table.pop(ent, None)
                    else:
                        table[ent] = (new[0], dict(new[1]))
                    nvv, ovv = sv(ent, new), sv(ent, old)
                    if c04_reference(pred, ent, new, old):
                        exp = {"trigger_type": "state", "var_name": ent, "value": None if new is None else new[0], "old_value": None if old is None else old[0]}
                        if kwtxt:
                            exp.update({"extra": "7", "value": "overridden"})
                        want.append(exp)
                    await State.update({ent: nvv, f"{ent}.old": ovv}, {"trigger_type": "state", "var_name": ent, "value": nvv, "old_value": ovv, "context": None})
                    await settle(25)
                gctx.stop()
                GlobalContextMgr.delete(name)
                await settle(5)
                cases += 1
                nontriv += 1 if want else 0
                if len(samples) < 3 and want:
                    samples.append({"subsystem": sub, "state_trigger": args, "history": list(hist), "expected_runs": want})
                if runs != want or exc is not None:
                    if len(failures) < 3:
                        failures.append({"signature": f"triggers:{sub}:{args}:{list(hist)}", "subsystem": sub, "state_trigger": args + ([kwtxt] if kwtxt else []), "history": list(hist),
                                         "observed_runs": runs, "expected_runs": want, "error": repr(exc) if exc else None})
        await shutdown()
    return {"unit": "state change -> State.update -> trigger loop -> function call", "method": "real subsystems vs the statement's qualifying predicate",
            "bound": f"{len(C04_TRIGGERS)} trigger forms x histories of <= {depth} changes from {steps}", "cases": cases, "distinct_nontrivial": nontriv,
            "samples": samples, "failures": failures, "reproduced": bool(failures)}


# ---------------------------------------------------------------------------------------------------------
# C01 / C02: random programs over tracer values, real interpreter vs CPython
# ---------------------------------------------------------------------------------------------------------
class _Gen:
    def __init__(self, rng):
        self.rng = rng
        self.n = 0
        self.vars = ["a", "b", "c"]

    def tid(self):
        self.n += 1
        return self.n

    def atom(self):
        r = self.rng.random()
        if r < 0.55:
            return f"t({self.tid()})"
        if r < 0.85:
            return self.rng.choice(self.vars)
        return self.rng.choice(["1", "'s'", "None", "True"])

    def expr(self, d):
        rng = self.rng
        if d <= 0 or rng.random() < 0.25:
            return self.atom()
        k = rng.choice(["bin", "bin", "unary", "cmp", "cmp2", "bool", "bool3", "ifexp", "list", "tuple", "dict", "set", "sub", "slice", "attr", "call", "call2",
                        "fstr", "walrus", "lcomp", "dcomp", "scomp", "not", "star", "lambda"])
        e = lambda: self.expr(d - 1)
        if k == "bin":
            return f"({e()} {rng.choice(['+', '-', '*', '/', '%', '**', '<<', '>>', '|', '^', '&', '//', '@'])} {e()})"
        if k == "unary":
            return f"({rng.choice(['-', '+', '~'])}{e()})"
        if k == "not":
            return f"(not {e()})"
        if k == "cmp":
            return f"({e()} {rng.choice(['==', '!=', '<', '<=', '>', '>=', 'in', 'not in', 'is', 'is not'])} {e()})"
        if k == "cmp2":
            return f"({e()} {rng.choice(['<', '==', 'in'])} {e()} {rng.choice(['<=', '!=', 'is'])} {e()})"
        if k == "bool":
            return f"({e()} {rng.choice(['and', 'or'])} {e()})"
        if k == "bool3":
            op = rng.choice(['and', 'or'])
            return f"({e()} {op} {e()} {op} {e()})"
        if k == "ifexp":
            return f"({e()} if {e()} else {e()})"
        if k == "list":
            return "[" + ", ".join(e() for _ in range(rng.randrange(0, 3))) + "]"
        if k == "tuple":
            return "(" + "".join(e() + ", " for _ in range(rng.randrange(1, 3))) + ")"
        if k == "dict":
            return "{" + ", ".join(f"{e()}: {e()}" for _ in range(rng.randrange(0, 2))) + "}"
        if k == "set":
            return "{" + ", ".join(e() for _ in range(rng.randrange(1, 3))) + "}"
        if k == "sub":
            return f"{e()}[{e()}]"
        if k == "slice":
            return f"{e()}[{e()}:{e()}]"
        if k == "attr":
            return f"{e()}.{rng.choice(['x', 'y'])}"
        if k == "call":
            # callees are plain functions: calling an arbitrary object makes the interpreter probe it (asyncio.iscoroutinefunction),
            # which only an instrumented __getattr__ can observe
            return f"fn({self.tid()})({e()})"
        if k == "call2":
            return f"fn({self.tid()})({e()}, k={e()}, *[{e()}], **{{'m': {e()}}})"
        if k == "fstr":
            return "f\"" + "p{" + e().replace('"', "'") + rng.choice(["", "!r", "!s"]) + "}q\""
        if k == "walrus":
            return f"({rng.choice(self.vars)} := {e()})"
        if k == "lcomp":
            return f"[{e()} for {rng.choice(['x', 'y'])} in {e()}" + (f" if {e()}" if rng.random() < 0.4 else "") + "]"
        if k == "dcomp":
            return f"{{x: {e()} for x in {e()}}}"
        if k == "scomp":
            return f"{{{e()} for x in {e()}}}"
        if k == "star":
            return f"[*{e()}, {e()}]"
        if k == "lambda":
            # lambda bodies stay within their own parameters: a lambda is compiled natively against the GLOBAL symbol table
            # (documented design; recorded once as the known finding C03-lambda-cannot-read-enclosing-locals)
            return f"fn({self.tid()})((lambda z: {self.lam_expr(d - 1)}))"
        return self.atom()

    def lam_expr(self, d):
        rng = self.rng
        atom = lambda: rng.choice([f"t({self.tid()})", "z", "1", "'s'", "None"])
        if d <= 0 or rng.random() < 0.4:
            return atom()
        k = rng.choice(["bin", "cmp", "bool", "ifexp", "tuple", "attr", "not"])
        e = lambda: self.lam_expr(d - 1)
        return {"bin": f"({e()} {rng.choice(['+', '-', '*', '|'])} {e()})", "cmp": f"({e()} {rng.choice(['==', '<', 'in', 'is'])} {e()})",
                "bool": f"({e()} {rng.choice(['and', 'or'])} {e()})", "ifexp": f"({e()} if {e()} else {e()})", "tuple": f"({e()}, {e()}, )",
                "attr": f"{e()}.x", "not": f"(not {e()})"}[k]

    def target(self, d):
        r = self.rng.random()
        if r < 0.5:
            return self.rng.choice(self.vars)
        if r < 0.7:
            return f"{self.expr(d - 1)}.x"
        if r < 0.9:
            return f"{self.expr(d - 1)}[{self.expr(d - 1)}]"
        return f"{self.rng.choice(self.vars)}, {self.rng.choice(self.vars)}"

    def block(self, d, ind, in_loop):
        n = self.rng.randrange(1, 3)
        return "".join(self.stmt(d, ind, in_loop) for _ in range(n))

    def stmt(self, d, ind, in_loop=False):
        rng = self.rng
        pad = "    " * ind
        kinds = ["assign", "assign", "aug", "expr", "expr", "del", "assert", "pass"]
        if d > 0:
            kinds += ["if", "while", "for", "try", "try2", "with", "def", "ann"]
        if in_loop:
            kinds += ["break", "continue"]
        k = rng.choice(kinds)
        if k == "assign":
            return f"{pad}{self.target(2)} = {self.expr(2)}\n"
        if k == "aug":
            t = rng.choice([rng.choice(self.vars), f"{self.atom()}.x", f"{self.atom()}[{self.atom()}]"])
            return f"{pad}{t} {rng.choice(['+=', '-=', '*='])} {self.expr(1)}\n"
        if k == "ann":
            return f"{pad}{rng.choice(self.vars)}: {self.expr(1)} = {self.expr(1)}\n"
        if k == "expr":
            return f"{pad}{self.expr(2)}\n"
        if k == "del":
            return f"{pad}del {self.atom()}[{self.atom()}]\n" if rng.random() < 0.7 else f"{pad}del {self.atom()}.x\n"
        if k == "assert":
            return f"{pad}assert {self.expr(1)}, {self.expr(1)}\n"
        if k == "pass":
            return f"{pad}s({self.tid()})\n"
        if k == "break":
            return f"{pad}break\n"
        if k == "continue":
            return f"{pad}continue\n"
        if k == "if":
            out = f"{pad}if {self.expr(1)}:\n" + self.block(d - 1, ind + 1, in_loop)
            if rng.random() < 0.5:
                out += f"{pad}elif {self.expr(1)}:\n" + self.block(d - 1, ind + 1, in_loop)
            if rng.random() < 0.5:
                out += f"{pad}else:\n" + self.block(d - 1, ind + 1, in_loop)
            return out
        if k == "while":
            # the loop test always involves a fresh tracer, so every iteration logs an event and the runaway guard can stop it
            out = f"{pad}while t({self.tid()}) and {self.expr(1)}:\n" + self.block(d - 1, ind + 1, True)
            if rng.random() < 0.4:
                out += f"{pad}else:\n" + self.block(d - 1, ind + 1, in_loop)
            return out
        if k == "for":
            out = f"{pad}for {rng.choice(['x', 'a', 'x, y'])} in {self.expr(1)}:\n" + self.block(d - 1, ind + 1, True)
            if rng.random() < 0.4:
                out += f"{pad}else:\n" + self.block(d - 1, ind + 1, in_loop)
            return out
        if k == "try":
            out = f"{pad}try:\n" + self.block(d - 1, ind + 1, in_loop)
            out += f"{pad}except {rng.choice(['Exception', 'TracerError', 'KeyError', '(KeyError, TracerError)'])}" + rng.choice(["", " as e"]) + ":\n" + self.block(d - 1, ind + 1, in_loop)
            if rng.random() < 0.4:
                out += f"{pad}else:\n" + self.block(d - 1, ind + 1, in_loop)
            if rng.random() < 0.5:
                out += f"{pad}finally:\n" + self.block(d - 1, ind + 1, False)
            return out
        if k == "try2":
            return f"{pad}try:\n" + self.block(d - 1, ind + 1, in_loop) + f"{pad}finally:\n" + self.block(d - 1, ind + 1, False)
        if k == "with":
            import random as _random
            head = self.expr(1)
            # (second generator seeded from the text: the programs of the fixed seeds stay what they were, one in four gets a
            # target whose ASSIGNMENT can fail - unpacking, subscript of a non-container - which must still reach __exit__)
            r2 = _random.Random(head)
            tail = rng.choice(["", " as c", f" as c, {self.atom()}"])
            if tail == " as c" and r2.random() < 0.5:
                tail = r2.choice([" as (a, b)", " as [a]", " as a[0]", " as (a, *b)"])
            return f"{pad}with {head}" + tail + ":\n" + self.block(d - 1, ind + 1, in_loop)
        if k == "def":
            nm = rng.choice(["g", "h"])
            body = self.block(d - 1, ind + 1, False) + "    " * (ind + 1) + f"return {self.expr(1)}\n"
            return f"{pad}def {nm}(p, q={self.expr(1)}):\n" + body + f"{pad}{rng.choice(self.vars)} = {nm}({self.expr(1)})\n"
        return f"{pad}pass\n"


class _GenF(_Gen):
    """programs about functions, scoping, classes and control flow inside functions"""

    def params(self):
        rng = self.rng
        ps, call = [], []
        n_pos = rng.randrange(0, 3)
        names = ["p", "q", "r"][:n_pos]
        for i, nm in enumerate(names):
            if rng.random() < 0.4:
                ps.append(f"{nm}={self.expr(1)}")
            else:
                ps.append(nm)
        if rng.random() < 0.3:
            ps.append("*rest")
        elif rng.random() < 0.3:
            ps.append("*")
        if ps and ps[-1].startswith("*") and rng.random() < 0.7:
            ps.append(rng.choice(["k", f"k={self.expr(1)}"]))
        if ps and ps[-1] == "*":
            ps.append("k=None")
        if rng.random() < 0.3:
            ps.append("**kw")
        # a call with a random (possibly wrong) shape
        n_args = rng.randrange(0, 4)
        call = [self.expr(1) for _ in range(n_args)]
        if rng.random() < 0.4:
            call.append(f"{rng.choice(['p', 'q', 'k', 'zz'])}={self.expr(1)}")
        if rng.random() < 0.2:
            call.append(f"*[{self.expr(1)}]")
        if rng.random() < 0.2:
            call.append("**{'k': " + self.expr(1) + "}")
        # keyword arguments must follow positional ones
        pos = [c for c in call if "=" not in c and not c.startswith("**")]
        kws = [c for c in call if "=" in c or c.startswith("**")]
        # (a second generator, seeded from the call text, so that the programs of the fixed seeds stay what they were)
        import random as _random
        r2 = _random.Random(repr(call))
        if len(kws) == 2 and r2.random() < 0.5:
            kws.reverse()           # f(**{'k': ..}, k=..): an explicit keyword AFTER a mapping that may hold the same key
        if kws and r2.random() < 0.15:
            kws.insert(r2.randrange(len(kws) + 1), "**{" + repr(r2.choice(["p", "q", "k", "zz"])) + ": " + repr(r2.randrange(3)) + "}")
        return ", ".join(ps), ", ".join(pos + kws)

    def fbody(self, d, ind, names):
        rng = self.rng
        pad = "    " * ind
        out = ""
        if rng.random() < 0.3:
            out += f"{pad}global {rng.choice(self.vars)}\n"
        elif ind >= 2 and rng.random() < 0.4:
            out += f"{pad}nonlocal w\n"
        for _ in range(rng.randrange(1, 4)):
            r = rng.random()
            if r < 0.25:
                out += f"{pad}{rng.choice(self.vars + ['w', 'v'])} = {self.expr(2)}\n"
            elif r < 0.35:
                out += f"{pad}{rng.choice(self.vars + ['w'])} {rng.choice(['+=', '-='])} {self.expr(1)}\n"
            elif r < 0.45 and d > 0:
                out += f"{pad}for x in {self.expr(1)}:\n{pad}    if {self.expr(1)}:\n{pad}        return {self.expr(1)}\n{pad}    {rng.choice(['continue', 'break', 's(' + str(self.tid()) + ')'])}\n"
            elif r < 0.55 and d > 0:
                out += (f"{pad}try:\n{pad}    {rng.choice(['return ' + self.expr(1), 'raise KeyError(' + self.expr(1) + ')', self.expr(2)])}\n"
                        f"{pad}except {rng.choice(['KeyError', 'TracerError', 'Exception'])} as e:\n{pad}    {rng.choice(['raise', 'return ' + self.expr(1), 'w = ' + self.expr(1), 'pass'])}\n"
                        + (f"{pad}finally:\n{pad}    {rng.choice(['s(' + str(self.tid()) + ')', 'return ' + self.expr(1), 'v = ' + self.expr(1)])}\n" if rng.random() < 0.5 else ""))
            elif r < 0.65 and d > 0 and ind < 3:
                ps, call = self.params()
                out += f"{pad}def inner({ps}):\n" + self.fbody(d - 1, ind + 1, names) + f"{pad}{rng.choice(['v', 'w'])} = inner({call})\n"
            elif r < 0.72:
                out += f"{pad}{rng.choice(['w', 'v'])} = (lambda z, y={self.lam_expr(1)}: {self.lam_expr(1)})({self.expr(1)})\n"
            elif r < 0.8:
                out += f"{pad}{self.expr(2)}\n"
            elif r < 0.86:
                out += f"{pad}del {rng.choice(['w', 'v'] + self.vars)}\n"
            else:
                out += f"{pad}{rng.choice(['w', 'v'])} = [{self.expr(1)} for x in {self.expr(1)} if {self.expr(1)}]\n"
        out += f"{pad}return {rng.choice(['w', 'v', self.expr(1), '(w, v)'])}\n" if rng.random() < 0.8 else ""
        return out

    def program(self):
        rng = self.rng
        out = ""
        if rng.random() < 0.35:
            # a class with an attribute, a method and instance use
            ps, call = self.params()
            out += "class K:\n    attr = " + self.expr(1) + "\n"
            out += f"    def __init__(self, v0={self.expr(1)}):\n        self.v0 = v0\n"
            out += f"    def m(self{', ' if ps else ''}{ps}):\n        w = self.v0\n        v = K.attr\n" + self.fbody(1, 2, [])
            out += f"k = K({self.expr(1) if rng.random() < 0.5 else ''})\n"
            out += f"a = k.m({call})\n"
            out += rng.choice(["b = k.v0\n", "del k.v0\n", "k.v0 = " + self.expr(1) + "\n", "c = K.attr\n"])
            return out
        ps, call = self.params()
        out += f"def f({ps}):\n    w = {self.expr(1)}\n    v = None\n" + self.fbody(2, 1, [])
        out += f"a = f({call})\n"
        if rng.random() < 0.4:
            out += f"b = f({self.params()[1]})\n"
        return out


async def c01_random_bounded(w):
    """Bounded stand-in beyond the templates: random programs (expressions and statements of the subset, over tracer values whose
    special methods log every call; truth values, iteration lengths and one scripted failure point chosen at random) run by the real
    interpreter and by CPython; outcome kind, exception type, final variables and the ORDER of effects must agree."""
    import random
    await boot_full()
    rng = random.Random(7000 + int(w.get("seed", 0)))
    n = int(w.get("programs", 300))
    mode_stmt = w.get("what", "both")
    failures, cases, seen, skipped = [], 0, set(), []
    for i in range(n):
        g = _Gen(rng)
        if mode_stmt == "func":
            src, mode = _GenF(rng).program(), "exec"
        elif mode_stmt == "expr" or (mode_stmt == "both" and rng.random() < 0.4):
            src, mode = g.expr(3), "eval"
        else:
            src, mode = "".join(g.stmt(2, 0) for _ in range(rng.randrange(1, 4))), "exec"
        try:
            compile(src, "<r>", mode, dont_inherit=True)
        except SyntaxError:
            continue
        script = {"truth_seed": rng.randrange(10 ** 6), "iter_len": rng.randrange(0, 3), "suppress": rng.random() < 0.3, "name_errors_alike": True}
        if rng.random() < 0.5:
            script["fail_at"] = rng.randrange(0, 12)
        try:
            cp, ps = await asyncio.wait_for(_run_both(src, mode, script, ["a", "b", "c"], {"s": True}), 60)
        except Exception as e:  # noqa
            # a program that could not be run to the end (time-out on a loaded machine, harness error) decides nothing
            skipped.append(repr(e)[:80])
            continue
        cases += 1
        if cp != ps:
            diff = [k for k in cp if cp.get(k) != ps.get(k)]
            sig = (tuple(diff), cp.get("exception"), ps.get("exception"))
            if len(failures) < int(w.get("max_failures", 3)):
                failures.append({"signature": f"random:{src!r}:{script}", "source": src, "mode": mode, "script": {k: v for k, v in script.items() if not k.startswith("_")},
                                 "differs_in": diff, "cpython": {k: cp.get(k) for k in diff}, "pyscript": {k: ps.get(k) for k in diff}})
    await shutdown()
    return {"unit": "AstEval on random programs", "method": "real interpreter vs CPython on tracer values", "bound": f"{n} random programs (expression depth <= 3, statement depth <= 2), seeded",
            "cases": cases, "skipped": len(skipped), "skipped_why": skipped[:3], "failures": failures, "reproduced": bool(failures)}


# ---------------------------------------------------------------------------------------------------------
# both subsystems as each other's oracle: random decorator stacks x timed histories on a virtual clock
# ---------------------------------------------------------------------------------------------------------
async def cx_dual_bounded(w):
    """Random stacks of trigger / guard decorators on one function, driven through a random timed history of state changes
    and events on a virtual clock, once per decorator subsystem.  The two implementations are independent, so a
    disagreement on which occurrences run the function, when, and with which arguments means one of them breaks the
    property concerned (C04, C05, C06, C07, C08); agreement is evidence only up to the stated bound."""
    import random
    from types import SimpleNamespace as NS
    from custom_components.pyscript.state import State, StateVal
    from custom_components.pyscript.global_ctx import GlobalContext, GlobalContextMgr
    rng = random.Random(31337 + int(w.get("seed", 0)))
    n = int(w.get("programs", 100))
    failures, cases, samples = [], 0, []
    nontrivial = set()

    def gen_program():
        decs = []
        kinds = rng.sample(["state", "event", "time"], k=rng.choice([1, 1, 2]))
        if "state" in kinds:
            expr = rng.choice(["int(pyscript.v) > 0", "pyscript.v == '3'", "pyscript.v", "pyscript.v.a", "pyscript.v.*", "pyscript.v.a == 'x' and int(pyscript.v) > 0",
                               "int(pyscript.v) > int(pyscript.v.old or 0)"])
            kw = []
            if "==" in expr or ">" in expr:
                if rng.random() < 0.4:
                    kw.append(f"state_hold={rng.choice([0, 1.9, 3.9])}")     # off the 0.25 s grid: no ties with events / windows
                if rng.random() < 0.4:
                    kw.append(f"state_hold_false={rng.choice([0, 1.9, 3.9])}")
                if rng.random() < 0.4:
                    kw.append(f"state_check_now={rng.choice([True, False])}")
            if rng.random() < 0.3:
                kw.append("kwargs={'tag': 'st'}")
            decs.append(f"@state_trigger({expr!r}{''.join(', ' + k for k in kw)})")
        if "event" in kinds:
            filt = rng.choice([None, "n > 1", "n == 2 or src == 'a'"])
            decs.append(f"@event_trigger('dual_ev'" + (f", {filt!r}" if filt else "") + (", kwargs={'tag': 'ev'}" if rng.random() < 0.3 else "") + ")")
        if "time" in kinds:
            decs.append("@time_trigger(" + rng.choice(["'period(now + 1.25s, 3s)'", "'once(now + 2.25s)'", "'startup'", "'once(now + 0.75s)', 'once(now + 5.25s)'"]) + ")")
        if rng.random() < 0.4:
            decs.append("@state_active(" + repr(rng.choice(["pyscript.g == '1'", "int(pyscript.v) != 2", "pyscript.v.old != '1'"])) + ")")
        if rng.random() < 0.4:
            # windows relative to the (virtual) wall clock that starts at 12:00:00
            spec = rng.choice(["'range(12:00:02.3, 12:00:05.8)'", "'not range(12:00:02.8, 12:00:04.6)'", "'range(12:00:00, 12:00:04.3)', 'not range(12:00:01.1, 12:00:02.2)'"])
            ho = rng.choice(["", "", ", hold_off=1.4", ", hold_off=2.9"])   # no ties with the 0.25 s event grid / 3 s period
            decs.append(f"@time_active({spec}{ho})")
        elif rng.random() < 0.2:
            decs.append(f"@time_active(hold_off={rng.choice([1.4, 2.9])})")
        body = "    record(kw)\n"
        if rng.random() < 0.35:
            # overlapping runs: the function sleeps; optionally only one run per name may be alive (C13 / C14)
            if rng.random() < 0.6:
                decs.append(f"@task_unique('dual_u'{rng.choice(['', ', kill_me=True', ', kill_me=False'])})")
            body = f"    record(kw)\n    task.sleep({rng.choice([1.1, 2.3])})\n    record({{'trigger_type': 'finished'}})\n"
        rng.shuffle(decs)
        decs.append(body)
        hist = []
        t = 0.0
        for _ in range(rng.randrange(2, 7)):
            t += rng.choice([0.5, 1.0, 1.5, 2.5])
            k = rng.random()
            if k < 0.45:
                hist.append((t, "v", str(rng.choice([0, 1, 2, 3, -1]))))
            elif k < 0.6:
                hist.append((t, "v.a", rng.choice(["x", "y"])))
            elif k < 0.7:
                hist.append((t, "g", rng.choice(["0", "1"])))
            else:
                hist.append((t, "ev", {"n": rng.choice([1, 2, 3]), "src": rng.choice(["a", "b"])}))
        return decs, hist

    async def run(legacy, decs, hist, idx):
        import datetime as dtm
        from custom_components.pyscript import trigger as T
        from custom_components.pyscript.decorators import timing as TM
        env = await c05_env(legacy)
        hass, table, vt = env.hass, env.table, env.vt
        t0 = vt[0]
        base = dtm.datetime(2024, 3, 13, 12, 0, 0)
        last = [None]

        def now():
            v = base + dtm.timedelta(seconds=round(vt[0] - t0, 6))
            if last[0] is not None and v <= last[0]:
                v = last[0] + dtm.timedelta(microseconds=1)
            last[0] = v
            return v
        T.dt_now = now
        T.time = NS(monotonic=lambda: vt[0])
        TM.time = NS(monotonic=lambda: vt[0])
        table.clear()
        State.notify_var_last.clear()
        table["pyscript.v"] = ("0", {"a": "p"})
        table["pyscript.g"] = ("1", {})
        runs = []
        name = f"file.dual_{'l' if legacy else 'n'}_{idx}"

        def record(kw_):
            d = {k: (str(v) if not isinstance(v, (int, type(None))) else v) for k, v in kw_.items() if k in ("trigger_type", "var_name", "value", "old_value", "tag", "n", "src", "event_type")}
            tt = kw_.get("trigger_time")
            if tt is not None:
                d["trigger_time"] = tt if isinstance(tt, str) else round((tt - base).total_seconds(), 2)
            runs.append((round(vt[0] - t0, 2), d))
        gctx = GlobalContext(name, global_sym_table={"__name__": name, "record": record}, manager=GlobalContextMgr)
        GlobalContextMgr.set(name, gctx)
        gctx.set_auto_start(True)
        src = "\n".join(decs[:-1]) + "\ndef f(**kw):\n" + decs[-1]
        _, _, exc = await run_source(name, src, global_ctx=gctx)
        await settle(40)

        def sv(ent, st):
            return StateVal(NS(state=st[0], attributes=dict(st[1]), entity_id=ent, last_updated="u", last_changed="c", last_reported="r"))
        for (t, what, val) in hist:
            await asyncio.sleep(max(0.0, t - (vt[0] - t0)))
            if what == "ev":
                for cb in list(hass.bus.listeners.get("dual_ev", [])):
                    await cb(NS(event_type="dual_ev", context=None, data=dict(val)))
            else:
                ent = "pyscript.g" if what == "g" else "pyscript.v"
                old = table[ent]
                new = (val, dict(old[1])) if what in ("v", "g") else (old[0], {**old[1], "a": val})
                if new == old:
                    continue
                table[ent] = new
                nvv, ovv = sv(ent, new), sv(ent, old)
                await State.update({ent: nvv, f"{ent}.old": ovv}, {"trigger_type": "state", "var_name": ent, "value": nvv, "old_value": ovv, "context": None})
            await settle(40)
        horizon = (hist[-1][0] if hist else 0) + 8.0
        await asyncio.sleep(max(0.0, horizon - (vt[0] - t0)))
        await settle(40)
        # what happened up to the horizon (a run that is still sleeping then finishes later, at a moment that depends on how
        # the subsystem is torn down; the log is frozen here)
        seen = [r for r in list(runs) if r[0] <= horizon - 0.02]
        gctx.stop()
        GlobalContextMgr.delete(name)
        await settle(40)
        # nothing left behind once the function's context is gone (C09): subscriptions, bus listeners, unique-task names
        from custom_components.pyscript.event import Event
        from custom_components.pyscript.function import Function as _F
        left = {"state_subscriptions": sum(len(v) for v in State.notify.values()), "event_subscriptions": sum(len(v) for v in Event.notify.values()),
                "bus_listeners": len(hass.bus.listeners.get("dual_ev", []))}
        if any(left.values()):
            seen.append(("left-behind", left))
        await shutdown()
        return seen, repr(exc) if exc else None
    import threading, os as _os, time as _time
    progress = [0, _time.time()]

    def _watchdog():
        # a program that makes no progress for 60 s of real time is a hang of the harness or of the code: abort loudly
        while True:
            _time.sleep(5)
            if _time.time() - progress[1] > 60:
                print(json.dumps({"error": f"no progress for 60 s in program {progress[0]}", "cases": 0}))
                sys.stdout.flush()
                _os._exit(4)
    threading.Thread(target=_watchdog, daemon=True).start()
    for i in range(n):
        decs, hist = gen_program()
        progress[0], progress[1] = i, _time.time()
        try:
            new_runs, new_exc = await run(False, decs, hist, i)
            old_runs, old_exc = await run(True, decs, hist, i)
        except Exception as e:  # noqa
            new_runs, new_exc, old_runs, old_exc = "harness", repr(e), "harness", None
        cases += 1
        if new_runs or old_runs:
            nontrivial.add((tuple(decs), len(new_runs) if isinstance(new_runs, list) else -1))
        if len(samples) < 2:
            samples.append({"decorators": decs, "history": [list(map(str, h)) for h in hist], "runs": [list(r) for r in new_runs][:4] if isinstance(new_runs, list) else new_runs})
        leaks = [r for r in (new_runs if isinstance(new_runs, list) else []) + (old_runs if isinstance(old_runs, list) else []) if r[0] == "left-behind"]
        if new_runs != old_runs or bool(new_exc) != bool(old_exc) or leaks:
            if len(failures) < int(w.get("max_failures", 3)):
                first = next(((repr(x), repr(y)) for x, y in zip(new_runs, old_runs) if x != y), None) if isinstance(new_runs, list) and isinstance(old_runs, list) else None
                failures.append({"signature": f"dual:{decs}:{hist}", "decorators": decs, "history": [list(map(str, h)) for h in hist], "first_difference": first,
                                 "new_subsystem_runs": new_runs, "legacy_subsystem_runs": old_runs, "new_error": new_exc, "legacy_error": old_exc})
    return {"unit": "both decorator subsystems end to end", "method": "random decorator stacks x timed histories; legacy vs new subsystem on a virtual clock",
            "bound": f"{n} random programs (<= 5 decorators, <= 6 history steps), seeded", "cases": cases, "distinct_nontrivial": len(nontrivial), "samples": samples,
            "failures": failures, "reproduced": bool(failures)}


# ---------------------------------------------------------------------------------------------------------
# C16: random sequences of state-variable statements through the real interpreter against a map model
# ---------------------------------------------------------------------------------------------------------
async def c16_random_bounded(w):
    """Bounded stand-in for the routing of state variables through the interpreter: random sequences of the documented ways
    to read, write and delete state variables and attributes (assignment, attribute assignment, del, state.set with
    new_attributes / keywords / value omitted, state.setattr, state.delete, state.get, state.getattr, state.exist, snapshots in
    local variables) run as pyscript source against a fake Home Assistant state table; after every statement the table and the
    recorded results must equal those of a map model written from the documentation."""
    import random
    await boot_full()
    hass = (await boot())  # fresh tables
    hass = await boot_full()
    table = fake_states(hass)
    rng = random.Random(1616 + int(w.get("seed", 0)))
    n = int(w.get("programs", 150))
    failures, cases, nontriv, samples = [], 0, set(), []
    ents = ["pyscript.x", "pyscript.y"]
    attrs = ["a", "b"]
    for pi in range(n):
        table.clear()
        model = {}
        lines, expect = [], []

        def val():
            return rng.choice([1, 7, "on", "off", 3.5])

        for k in range(rng.randrange(3, 9)):
            e, at = rng.choice(ents), rng.choice(attrs)
            op = rng.choice(["assign", "assign", "attr-assign", "set-new", "set-kw", "set-attrs-only", "setattr", "del", "del-attr", "delete", "delete-attr",
                             "get", "get-attr", "read", "read-attr", "getattr", "exist", "exist-attr", "snapshot"])
            i = len(lines)
            if op == "assign":
                v = val()
                lines.append(f"{e} = {v!r}")
                model[e] = (str(v), dict(model.get(e, (None, {}))[1]))
                expect.append(None)
            elif op == "attr-assign":
                v = val()
                lines.append(f"try:\n    {e}.{at} = {v!r}\n    r{i} = 'ok'\nexcept Exception as ex:\n    r{i} = type(ex).__name__")
                if e in model:
                    model[e][1][at] = v
                    expect.append("ok")
                else:
                    expect.append("NameError")
            elif op == "set-new":
                v, na = val(), {at: val()}
                lines.append(f"state.set({e!r}, {v!r}, new_attributes={na!r})")
                model[e] = (str(v), dict(na))
                expect.append(None)
            elif op == "set-kw":
                v, kv = val(), val()
                lines.append(f"state.set({e!r}, {v!r}, {at}={kv!r})")
                old = dict(model.get(e, (None, {}))[1])
                old[at] = kv
                model[e] = (str(v), old)
                expect.append(None)
            elif op == "set-attrs-only":
                if e not in model:
                    continue      # value omitted for a variable that does not exist: not documented, not generated
                kv = val()
                lines.append(f"try:\n    state.set({e!r}, {at}={kv!r})\n    r{i} = 'ok'\nexcept Exception as ex:\n    r{i} = type(ex).__name__")
                if e in model:
                    model[e][1][at] = kv
                    expect.append("ok")
                else:
                    expect.append("?")      # value omitted for a variable that does not exist: not documented
            elif op == "setattr":
                kv = val()
                lines.append(f"try:\n    state.setattr('{e}.{at}', {kv!r})\n    r{i} = 'ok'\nexcept Exception as ex:\n    r{i} = type(ex).__name__")
                if e in model:
                    model[e][1][at] = kv
                    expect.append("ok")
                else:
                    expect.append("NameError")
            elif op in ("del", "delete"):
                stmt = f"del {e}" if op == "del" else f"state.delete({e!r})"
                lines.append(f"try:\n    {stmt}\n    r{i} = 'ok'\nexcept Exception as ex:\n    r{i} = type(ex).__name__")
                if e in model:
                    del model[e]
                    expect.append("ok")
                else:
                    expect.append("NameError")
            elif op in ("del-attr", "delete-attr"):
                stmt = f"del {e}.{at}" if op == "del-attr" else f"state.delete('{e}.{at}')"
                lines.append(f"try:\n    {stmt}\n    r{i} = 'ok'\nexcept Exception as ex:\n    r{i} = type(ex).__name__")
                if e in model and at in model[e][1]:
                    del model[e][1][at]
                    expect.append("ok")
                elif e in model:
                    expect.append("AttributeError")
                else:
                    expect.append("NameError")
            elif op in ("get", "read"):
                expr = f"state.get({e!r})" if op == "get" else e
                lines.append(f"try:\n    r{i} = str({expr})\nexcept Exception as ex:\n    r{i} = type(ex).__name__")
                expect.append(model[e][0] if e in model else "NameError")
            elif op in ("get-attr", "read-attr"):
                expr = f"state.get('{e}.{at}')" if op == "get-attr" else f"{e}.{at}"
                lines.append(f"try:\n    r{i} = {expr}\nexcept Exception as ex:\n    r{i} = type(ex).__name__")
                expect.append(model[e][1][at] if e in model and at in model[e][1] else ("AttributeError" if e in model else "NameError"))
            elif op == "getattr":
                lines.append(f"r{i} = state.getattr({e!r})")
                expect.append(dict(model[e][1]) if e in model else None)
            elif op == "exist":
                lines.append(f"r{i} = state.exist({e!r})")
                expect.append(e in model)
            elif op == "exist-attr":
                lines.append(f"r{i} = state.exist('{e}.{at}')")
                expect.append(e in model and at in model[e][1])
            elif op == "snapshot":
                # a snapshot keeps value and attributes of the time it was taken, whatever happens afterwards
                v = val()
                lines.append(f"try:\n    snap = {e}\n    {e} = {v!r}\n    r{i} = (str(snap), snap.{at})\nexcept Exception as ex:\n    r{i} = type(ex).__name__")
                if e in model:
                    exp = (model[e][0], model[e][1][at]) if at in model[e][1] else "AttributeError"
                    model[e] = (str(v), dict(model[e][1]))
                    expect.append(exp)
                else:
                    expect.append("NameError")
        src = "\n".join(lines) + "\n"
        g, a, exc = await run_source(f"file.c16r_{pi}", src)
        cases += 1
        got = [g.global_sym_table.get(f"r{i}") if expect[i] is not None or f"r{i}" in g.global_sym_table else None for i in range(len(lines))]
        got = [tuple(x) if isinstance(x, (list, tuple)) else x for x in got]
        exp2 = [tuple(x) if isinstance(x, (list, tuple)) else x for x in expect]
        final = {k: (v[0], v[1]) for k, v in table.items()}
        want_final = {k: (v[0], v[1]) for k, v in model.items()}
        ok = exc is None and final == want_final and all(e2 == "?" or g2 == e2 for g2, e2 in zip(got, exp2))
        nontriv.add(tuple(l.split("\n")[0][:20] for l in lines))
        if len(samples) < 2:
            samples.append({"source": src, "expected_results": [str(x) for x in expect], "expected_table": {k: list(v) for k, v in want_final.items()}})
        if not ok and len(failures) < int(w.get("max_failures", 3)):
            failures.append({"signature": f"c16-random:{src!r}", "source": src, "error": repr(exc) if exc else None, "observed_results": [str(x) for x in got],
                             "expected_results": [str(x) for x in exp2], "observed_table": {k: list(v) for k, v in final.items()}, "expected_table": {k: list(v) for k, v in want_final.items()}})
    await shutdown()
    return {"unit": "state variables through the interpreter", "method": "random statement sequences vs a map model of the documentation", "bound": f"{n} programs of 3-8 statements over 2 entities x 2 attributes, seeded",
            "cases": cases, "distinct_nontrivial": len(nontriv), "samples": samples, "failures": failures, "reproduced": bool(failures)}


# ---------------------------------------------------------------------------------------------------------
# C12: random service life cycles over two global contexts against an ownership model
# ---------------------------------------------------------------------------------------------------------
async def c12_random_bounded(w):
    """Bounded stand-in for '@service exists exactly while declared': random sequences of defining, redefining and deleting
    @service functions in two global contexts, and stopping a context; after every step the services registered with Home
    Assistant, and which function a call reaches, must equal an ownership model (a name belongs to the first context that
    declares it until that context's last declaring function is gone)."""
    import random, gc
    from custom_components.pyscript.function import Function
    from custom_components.pyscript.global_ctx import GlobalContext, GlobalContextMgr
    rng = random.Random(1212 + int(w.get("seed", 0)))
    n = int(w.get("programs", 60))
    failures, cases, samples, nontriv = [], 0, [], set()
    for legacy in (False, True):
        sub = "legacy" if legacy else "new"
        for pi in range(n):
            hass = await boot_full(legacy=legacy)
            # class-level tables survive in one process: start every sequence from empty ones (as a fresh process does)
            Function.service_cnt.clear()
            Function.service2global_ctx.clear()
            calls = []
            ctxs = {}
            owner = {}      # service name -> context
            decl = {}       # (context, function name) -> (set of service names, version)
            last_reg = {}   # service name -> version of the definition that registered it last
            log = []
            version = [0]

            def mk_ctx(cn):
                g = GlobalContext(cn, global_sym_table={"__name__": cn, "note": lambda v: calls.append(v)}, manager=GlobalContextMgr)
                GlobalContextMgr.set(cn, g)
                g.set_auto_start(True)
                ctxs[cn] = g
                return g
            ok = True
            for step in range(rng.randrange(3, 9)):
                cn = rng.choice(["file.c12a", "file.c12b"])
                # function names from a small pool, so that definitions are also REdefinitions; 'del f' too.  (The old function's
                # services go away when CPython finalises the function object: with reference counting that is at once, which is
                # what the model expects; a collector-only interpreter would not satisfy it - C09's not-decided clause.)
                fname = rng.choice(["f0", "f1", "f2"]) if w.get("redefine", True) else f"f{step}"
                svcs = rng.sample(["pyscript.s1", "pyscript.s2"], k=rng.choice([1, 1, 2]))
                op = rng.choice(["define", "define", "define", "call"] + (["delete"] if w.get("redefine", True) else []))
                if op == "define":
                    g = ctxs.get(cn) or mk_ctx(cn)
                    version[0] += 1
                    v = version[0]
                    src = "@service(" + ", ".join(repr(x) for x in svcs) + f")\ndef {fname}():\n    note({v})\n"
                    _, _, exc = await run_source(cn, src, global_ctx=g)
                    await settle(60)
                    gc.collect()
                    gc.collect()
                    await settle(60)
                    log.append(("define", cn, fname, svcs, v, type(exc).__name__ if exc else None))
                    # model: a name owned by ANOTHER context is refused with a logged error.
                    # the decorator subsystem fails the whole decorator (none of its names is registered)
                    foreign = [x for x in svcs if owner.get(x) not in (None, cn)]
                    # (both subsystems: the whole decorator fails and none of its names stays registered)
                    accepted = [] if foreign else list(svcs)
                    # the new function object replaces the old binding of that name whether or not its decorator was accepted
                    decl.pop((cn, fname), None)
                    if accepted:
                        decl[(cn, fname)] = (set(accepted), v)
                        for x in accepted:
                            last_reg[x] = v
                elif op == "delete":
                    if (cn in ctxs):
                        _, _, exc = await run_source(cn, f"try:\n    del {fname}\nexcept NameError:\n    pass\n", global_ctx=ctxs[cn])
                        await settle(10)
                        gc.collect()
                        await settle(10)
                        decl.pop((cn, fname), None)
                        log.append(("delete", cn, fname))
                elif op == "stop":
                    if cn in ctxs:
                        ctxs[cn].stop()
                        GlobalContextMgr.delete(cn)
                        del ctxs[cn]
                        await settle(15)
                        gc.collect()
                        await settle(10)
                        for k in [k for k in decl if k[0] == cn]:
                            decl.pop(k)
                        log.append(("stop", cn))
                # recompute ownership: a service is owned by the context of the functions declaring it (first come)
                live = {}
                for (c2, f2), (names, v2) in decl.items():
                    for x in names:
                        live.setdefault(x, []).append((c2, f2, v2))
                for x in list(owner):
                    if x not in live or all(c2 != owner[x] for c2, _, _ in live[x]):
                        owner.pop(x)
                for x, lst in live.items():
                    owner.setdefault(x, lst[0][0])
                want = {x for x in owner}
                got = {f"{d}.{s_}" for (d, s_) in hass.services.table if d == "pyscript" and s_ in ("s1", "s2")}
                cases += 1
                if got != want:
                    ok = False
                    if len([f for f in failures if f["signature"] != "c12-call-reaches-removed-definition"]) < int(w.get("max_failures", 3)):
                        failures.append({"signature": f"c12-random:{sub}:{log}", "subsystem": sub, "history": [list(map(str, l)) for l in log], "registered": sorted(got), "expected": sorted(want)})
                    break
                if op == "call" and want:
                    x = rng.choice(sorted(want))
                    calls.clear()
                    cb = hass.services.table[tuple(x.split("."))]
                    from types import SimpleNamespace as NS
                    await cb(NS(data={}, context=None, domain="pyscript", service=x.split(".")[1]))
                    await settle(25)
                    # the function reached is the LAST declared live function of the owning context for that name
                    cands = [v2 for (c2, f2, v2) in live[x] if c2 == owner[x]]
                    if calls != [max(cands)]:
                        # one mechanism is a recorded finding (known_findings.json: C12-call-reaches-removed-definition): Home
                        # Assistant keeps the callback registered LAST for the name; when that definition is replaced or deleted
                        # while an older definition of the same context still declares the name, the count drops but the callback
                        # stays.  Recognised exactly (the version run is the last one registered for the name and is no longer
                        # live), reported once, and the sequence goes on; anything else is a failure of its own
                        if calls == [last_reg.get(x)] and last_reg.get(x) not in cands:
                            if not any(f["signature"] == "c12-call-reaches-removed-definition" for f in failures):
                                failures.append({"signature": "c12-call-reaches-removed-definition", "subsystem": sub, "history": [list(map(str, l)) for l in log], "service": x, "ran_versions": list(calls), "live_versions": cands})
                            continue
                        ok = False
                        if len([f for f in failures if f["signature"] != "c12-call-reaches-removed-definition"]) < int(w.get("max_failures", 3)):
                            failures.append({"signature": f"c12-random-call:{sub}:{log}", "subsystem": sub, "history": [list(map(str, l)) for l in log], "service": x, "ran_versions": list(calls), "live_versions": cands})
                        break
            nontriv.add(tuple(str(l[:3]) for l in log))
            if len(samples) < 2 and log:
                samples.append({"subsystem": sub, "history": [list(map(str, l)) for l in log]})
            for g in list(ctxs.values()):
                g.stop()
            for cn in list(ctxs):
                GlobalContextMgr.delete(cn)
            await settle(80)
            # unloading every context removes every service, without waiting for CPython to finalise anything
            left = {f"{d}.{s_}" for (d, s_) in hass.services.table if d == "pyscript" and s_ in ("s1", "s2")}
            cases += 1
            if ok and left and len([f for f in failures if f["signature"] != "c12-call-reaches-removed-definition"]) < int(w.get("max_failures", 3)):
                failures.append({"signature": f"c12-random-unload:{sub}:{log}", "subsystem": sub, "history": [list(map(str, l)) for l in log] + [["stop every context"]], "registered": sorted(left), "expected": []})
            gc.collect()
            await shutdown()
    return {"unit": "@service life cycle (both subsystems)", "method": "random define / redefine / delete / stop / call sequences over two contexts vs an ownership model",
            "bound": f"{n} sequences of 3-8 steps per subsystem, seeded", "cases": cases, "distinct_nontrivial": len(nontriv), "samples": samples, "failures": failures, "reproduced": bool(failures)}


async def c04_classification_bounded(w):
    """Bounded stand-in for the regular expression that splits @state_trigger arguments into any-change names and
    expressions (STATE_RE in trigger.py and decorators/state.py): strings from a small alphabet, classified by the REAL
    decorator validation / TrigInfo construction and by an independent parser of the documented forms d.e / d.e.attr / d.e.*"""
    import itertools, string
    from custom_components.pyscript import trigger as T
    from custom_components.pyscript.decorators import state as DS
    await boot_full()
    atoms = ["d", "e1", "_x", "9", "*", "", " ", "a b", "old", "==", "é"]
    cands = set()
    for n in (1, 2, 3, 4):
        for combo in itertools.product(atoms, repeat=n):
            cands.add(".".join(combo))
    cands |= {"d.e == '1'", "d.e.attr > 3", "d.e.* ", " d.e", "d.e\n", "d..e", "d.e.", "d.e.*.x", "d.e.**", "int(d.e)", "d.e or f.g"}

    def is_word(x):
        return len(x) > 0 and all(ch == "_" or ch.isalnum() for ch in x)

    def documented(sv):
        # "d.e", "d.e.attr", "d.e.*": dot-separated words, two or three of them, the third possibly '*'
        # (a single trailing newline is accepted by '$' in Python regular expressions; such strings never come from a decorator)
        if sv.endswith("\n"):
            return None
        p = sv.split(".")
        if len(p) == 2:
            return is_word(p[0]) and is_word(p[1])
        if len(p) == 3:
            return is_word(p[0]) and is_word(p[1]) and (is_word(p[2]) or p[2] == "*")
        return False
    failures, cases = [], 0
    for sv in sorted(cands):
        want = documented(sv)
        if want is None:
            continue
        for name, rx in (("trigger.py", T.STATE_RE), ("decorators/state.py", DS.STATE_RE)):
            got = bool(rx.match(sv))
            cases += 1
            if got != want and len(failures) < 3:
                failures.append({"signature": f"classification:{name}:{sv!r}", "string": sv, "module": name, "classified_as_name": got, "documented_as_name": want})
    await shutdown()
    return {"unit": "STATE_RE (both subsystems)", "method": "strings over a small alphabet vs an independent parser of the documented name forms",
            "bound": f"{len(cands)} strings of <= 4 dot-separated atoms from {atoms}", "cases": cases, "failures": failures, "reproduced": bool(failures),
            "distinct_nontrivial": sum(1 for sv in cands if documented(sv)), "samples": sorted(cands)[:5]}


SCENARIOS = {k: v for k, v in list(globals().items()) if asyncio.iscoroutinefunction(v) and k[0] == "c"}

if __name__ == "__main__":
    name, wj = sys.argv[1], json.loads(sys.argv[2])
    res = asyncio.run(SCENARIOS[name](wj))
    print(json.dumps(res, default=str))

"""C02 - control flow and exception handling follow Python's paths exactly.

Statement handlers return a completion (normal / break / continue / return v) or raise; the spec is Language
Reference 7-8.  Child statements and expressions are opaque (induction hypotheses ExS / Ev)."""
from __future__ import annotations

import z3

from pyvc.framework import Harness
from .common import A_LOG, PKG
from .effect_common import EvalHarness, template, E_PY
from . import C01 as c01
from specs.pyspec import PyStmtSpec

PROPERTY = "C02"
ASSUMPTIONS = c01.ASSUMPTIONS + [
    "an opaque child statement completes normally, with break / continue / return v, or raises; exceptions raised by "
    "user code derive from Exception (BaseException subclasses such as CancelledError are deliberately not catchable "
    "by script except clauses - not decided here)",
    "loops are explored for at most LOOP_BOUND = 2 iterations (then the test is assumed false / the iterable "
    "exhausted); blocks have at most 2 child statements",
    "context managers are arbitrary objects: type(m).__enter__ / __exit__ lookups and calls are primitives",
]
NOT_DECIDED = ["beyond the templates: random native differential against CPython only (bounded); it calls plain functions only, because calling an arbitrary object makes the interpreter probe it (asyncio.iscoroutinefunction, comparison with time.sleep) which only an instrumented __getattr__/__eq__ observes; UnboundLocalError and NameError are not distinguished there (pyscript closure cells raise the base class)",
               "nesting depth: covered by the induction argument (children opaque)",
               "except clauses and BaseException subclasses (deliberate deviation for CancelledError)"]
SHAPE_BOUNDS = {"loop iterations": "<= 2", "statements per block": "<= 2", "except handlers": "<= 2", "with items": "<= 2"}
LEVEL_TEXT = ("Proof per statement class and shape (shape-bounded, all values and all completions of the child "
              "statements): the real handler yields the same completion, value / exception type and world term as the "
              "Language-Reference spec; native differential against CPython on every template as adequacy check.")

STMT = {
    "If": "if _c0:\n    _s0\nelse:\n    _s1",
    "If.block2": "if _c0:\n    _s0\n    _s1",
    "If.elif": "if _c0:\n    _s0\nelif _c1:\n    _s1\nelse:\n    _s2",
    "If.or": "if _c0 or _c1:\n    _s0\nelse:\n    _s1",
    "If.and-not": "if _c0 and not _c1:\n    _s0",
    "If.chain": "if _c0 < _c1 < _c2:\n    _s0\nelse:\n    _s1",
    "If.ifexp": "if (_c0 or _c1) if _c2 else _c3:\n    _s0",
    "While.or": "while _c0 or _c1:\n    _s0",
    "Assert.and": "assert _c0 and _c1, _c2",
    "While": "while _c0:\n    _s0",
    "While.else": "while _c0:\n    _s0\nelse:\n    _s1",
    "While.block2": "while _c0:\n    _s0\n    _s1",
    "For": "for x in _c0:\n    _s0",
    "For.else": "for x in _c0:\n    _s0\nelse:\n    _s1",
    "For.tuple-target": "for a, b in _c0:\n    _s0",
    "Try.except": "try:\n    _s0\nexcept _c0:\n    _s1",
    "Try.bare": "try:\n    _s0\nexcept:\n    _s1",
    "Try.tuple": "try:\n    _s0\nexcept (_c0, _c1):\n    _s1",
    "Try.as": "try:\n    _s0\nexcept _c0 as e:\n    _s1",
    "Try.two-handlers": "try:\n    _s0\nexcept _c0:\n    _s1\nexcept _c1:\n    _s2",
    "Try.else": "try:\n    _s0\nexcept _c0:\n    _s1\nelse:\n    _s2",
    "Try.finally": "try:\n    _s0\nfinally:\n    _s1",
    "Try.full": "try:\n    _s0\nexcept _c0:\n    _s1\nelse:\n    _s2\nfinally:\n    _s3",
    "Try.reraise": "try:\n    _s0\nexcept _c0:\n    raise",
    "Raise": "raise _c0",
    "Raise.from": "raise _c0 from _c1",
    "With": "with _c0:\n    _s0",
    "With.as": "with _c0 as x:\n    _s0",
    "With.two": "with _c0 as x, _c1 as y:\n    _s0",
    "Assert": "assert _c0",
    "Assert.msg": "assert _c0, _c1",
    "Return": "return _c0",
    "Return.none": "return",
    "Break": "while _c0:\n    break",
    "Continue": "while _c0:\n    continue",
    "Pass": "pass",
    "Expr": "_c0",
}


def native_source(src):
    """For the native replay the template is wrapped into a function inside a loop so that every completion kind of
    a child statement is legal; child statements are scripted tracer statements s(k)."""
    import re
    src = re.sub(r"_c(\d+)", r"t(\1)", src)
    return src


def h_template(name, src):
    def h(eng):
        H = EvalHarness(eng)
        node = template(src, "exec")
        U = f"C02/{name}"
        impl = H.impl_completion(node)
        spec_node = template(src, "exec")
        S = PyStmtSpec(H.it, H.vars)
        spec = H.outcome_completion(lambda: S.completion(lambda: S.ex(spec_node)))
        eng.cover(f"{impl[0]}/{spec[0]}")
        wit = {"signature": name, "template": name, "source": src}
        H.compare(U, impl, spec, witness=wit, value=True)
    return h


def replay_template(wj):
    from replay.native import run_native
    return run_native("c02_template", wj, timeout=600)


def b_adequacy(seed):
    """Bounded stand-in and adequacy check: every template natively, the real AstEval against CPython (child
    statements as logged calls or break/continue/return; scripted truthiness schedules, failures at each of the first
    8 events, suppressing / non-suppressing __exit__)."""
    from concurrent.futures import ThreadPoolExecutor
    from replay.native import run_native
    items = list(STMT.items())

    def one(it):
        n, src = it
        return n, src, run_native("c02_template", {"source": src}, timeout=900)
    failures, tried = [], 0
    with ThreadPoolExecutor(max_workers=16) as ex:
        for n, src, r in ex.map(one, items):
            tried += r.get("tried", 0)
            if r.get("reproduced"):
                failures.append({"signature": n, "template": n, "source": src, "observed": r.get("observed")})
            elif "error" in r:
                failures.append({"signature": n + ":replay-error", "template": n, "error": r["error"][-500:]})
    return {"unit": "AstEval vs CPython on every C02 template", "method": "native differential with scripted tracers",
            "bound": "per template: single-child completion variants x truth schedules x 9 failure positions x iterable lengths x suppress flag",
            "cases": tried, "failures": failures}




def b_random(seed_base, programs, what="stmt"):
    def run(seed):
        from replay.native import run_native
        return run_native("c01_random_bounded", {"seed": seed_base + seed, "programs": programs, "what": what, "max_failures": 5}, timeout=1500)
    return run

def b_programs(seed):
    from replay.native import run_native
    return run_native("c03_programs_bounded", {"seed": seed, "set": "C02"}, timeout=600)


def harnesses():
    hs = []
    for name, src in STMT.items():
        hs.append(Harness(name, h_template(name, src), units=[(E_PY, "AstEval.aeval")], replay=replay_template, max_paths=8000,
                          tier="thorough" if name == "With.two" else "quick"))  # With.two needs > 100 s of exploration
    hs.append(Harness("adequacy.native-differential", b_adequacy, units=[(E_PY, "AstEval.aeval")], kind="bounded"))
    hs.append(Harness("programs.native-differential", b_programs, units=[(E_PY, "AstEval.ast_for"), (E_PY, "AstEval.ast_while"), (E_PY, "AstEval.ast_try")], kind="bounded"))
    hs.append(Harness("random.native-differential", b_random(5000, 400), units=[(E_PY, "AstEval.aeval")], kind="bounded"))
    for k in range(1, 9):
        hs.append(Harness(f"random.native-differential[thorough {k}/8]", b_random(5000 + 100 * k, 1500), units=[(E_PY, "AstEval.aeval")], kind="bounded", tier="thorough"))
    return hs

"""Shared set-up of the EFFECT-domain contracts (C01, C02, C11, C17, C18): the real AstEval class from eval.py with
opaque children, a variable store living in the world, and the impl-vs-spec comparison."""
from __future__ import annotations

import ast
import builtins as py_builtins

import z3

from pyvc.effect import EffectInterp, Opaque, OpaqueStmt, EStr, ObjS, WorldS, OpaqueExc
from pyvc.interp import Raised, exc, EXC, TYPES, Coro
from pyvc.loader import Module
from pyvc.stmts import PyModule
from pyvc.values import SV, Rec, ClassRec, PyTypeTok
from .common import logger_stub, PKG

E_PY = f"{PKG}/eval.py"
INTERNAL = {"EvalName", "EvalLocalVar", "EvalAttrSet", "EvalFunc", "EvalFuncVar", "EvalFuncVarClassInst", "EvalStopFlow",
            "EvalReturn", "EvalBreak", "EvalContinue", "AstEval"}


class Children(ast.NodeTransformer):
    """Replace the placeholder names _c0, _c1, ... of a template by Opaque children."""

    def visit_Name(self, node):
        if node.id.startswith("_c") and node.id[2:].isdigit():
            return ast.copy_location(Opaque(int(node.id[2:]), node.lineno, node.col_offset), node)
        return node


    def visit_Expr(self, node):
        v = node.value
        if isinstance(v, ast.Name) and v.id.startswith("_s") and v.id[2:].isdigit():
            return ast.copy_location(OpaqueStmt(int(v.id[2:]), node.lineno, node.col_offset), node)
        return self.generic_visit(node)


def template(src, mode="exec"):
    tree = ast.parse(src, mode=mode)
    tree = Children().visit(tree)
    return tree.body if mode == "eval" else tree.body[0]


def var_store(it, scope="g"):
    """A symbol table whose content lives in the world: every access is a primitive."""
    nm = lambda k: z3.Const(f"name:{scope}:{k}", ObjS)

    def has(i, k):
        return SV(z3.Function("var.has", ObjS, WorldS, z3.BoolSort())(nm(k), i.world))

    def get(i, k):
        if not i.eng.branch(has(i, k).t, "var.has"):
            raise exc("KeyError", k)
        return SV(z3.Function("var.load", ObjS, WorldS, ObjS)(nm(k), i.world))

    def put(i, k, v):
        i.world = z3.Function("var.store", ObjS, ObjS, WorldS, WorldS)(nm(k), i.obj(v), i.world)

    def dele(i, k):
        if not i.eng.branch(has(i, k).t, "var.has"):
            raise exc("KeyError", k)
        i.world = z3.Function("var.delete", ObjS, WorldS, WorldS)(nm(k), i.world)

    def setdefault(i, k, d=None):
        # (only used for __annotations__)
        h = has(i, k)
        if i.eng.branch(h.t, "var.has"):
            return get(i, k)
        put(i, k, d)
        return get(i, k)

    return Rec(fields={"__contains__": has, "__getitem__": get, "__setitem__": put, "__delitem__": dele,
                       "setdefault": setdefault}, name=f"VarStore[{scope}]")


class EvalHarness:
    """eval.py loaded into an EffectInterp + an AstEval record whose opaque children are Ev(k)."""

    def __init__(self, eng):
        it = EffectInterp(eng)
        it.internal_classes = set(INTERNAL)
        it.opaque_values_are_not_tuples = True  # a tuple of handler classes is written as a Tuple node (own template)
        it.assume_callees_callable = True  # calling a non-callable raises TypeError on both sides; only the message differs
        self.it = it
        self.eng = eng
        self.sleep_sentinel = Rec(name="time.sleep")
        astmod = PyModule("ast", {n: getattr(ast, n) for n in dir(ast) if not n.startswith("_")})
        astmod.attrs["Opaque"] = Opaque
        astmod.attrs["iter_child_nodes"] = lambda i, n: list(ast.iter_child_nodes(n))
        astmod.attrs["get_docstring"] = lambda i, n: ast.get_docstring(n)
        self.log = []
        stubs = {
            "_LOGGER": logger_stub(), "ast": astmod,
            "asyncio": PyModule("asyncio", {"iscoroutinefunction": lambda i, f: False, "iscoroutine": lambda i, f: False,
                                            "isfuture": lambda i, f: False, "CancelledError": EXC["CancelledError"],
                                            "sleep": lambda i, *a, **k: Coro(lambda: None, "asyncio.sleep")}),
            "inspect": PyModule("inspect", {"isclass": lambda i, f: False, "iscoroutine": lambda i, f: False}),
            "time": PyModule("time", {"sleep": self.sleep_sentinel}),
            "builtins": Rec(fields={}, name="builtins"), "Function": Rec(fields={"get": lambda i, n: None}, name="Function"),
            "State": Rec(name="State"), "logging": PyModule("logging", {"getLogger": lambda i, n: logger_stub(), "DEBUG": 10}),
            "sys": PyModule("sys", {"modules": {}, "exc_info": lambda i: self.exc_info()}),
            "operator": PyModule("operator", {f"i{n}": (lambda opcls: (lambda i, a, b: i.aug(opcls(), a, b)))(c) for n, c in {
                "add": ast.Add, "sub": ast.Sub, "mul": ast.Mult, "matmul": ast.MatMult, "truediv": ast.Div, "mod": ast.Mod,
                "pow": ast.Pow, "lshift": ast.LShift, "rshift": ast.RShift, "or": ast.BitOr, "xor": ast.BitXor,
                "and": ast.BitAnd, "floordiv": ast.FloorDiv}.items()}), "importlib": PyModule("importlib", {}),
            "DOMAIN": "pyscript", "CONFIG_ENTRY": "config_entry", "LOGGER_PATH": "custom_components.pyscript",
            "ALLOWED_IMPORTS": set(), "CONF_ALLOW_ALL_IMPORTS": "allow_all_imports",
        }
        self.mod = Module(it, E_PY, stubs=stubs)
        self.AstEval = self.mod.env.vars["AstEval"]
        self.vars = var_store(it)
        self.ctx = Rec(cls=self.AstEval, fields={
            "name": "file.x", "sym_table": self.vars, "global_sym_table": self.vars, "local_sym_table": {},
            "sym_table_stack": [], "curr_func": None, "user_locals": {}, "filename": "file.x", "global_ctx": Rec(name="gctx"),
            "ast_opaque": lambda i, node: Coro(lambda: i.Ev(node), "Ev"),
            "ast_opaquestmt": lambda i, node: Coro(lambda: self.stmt_completion(node), "ExS"),
        }, name="AstEval")
        # `func == time.sleep` in call_func: the callee is a plain callable whose == is identity (assumption)
        orig_cmp = it.cmp
        sentinel = self.sleep_sentinel

        def cmp(op, a, b):
            if (a is sentinel or b is sentinel) and isinstance(op, (ast.Eq, ast.NotEq)):
                # documented deviation: time.sleep is replaced by asyncio.sleep; the callee is assumed not to be it
                return isinstance(op, ast.NotEq)
            return orig_cmp(op, a, b)
        it.cmp = cmp

    def exc_info(self):
        """sys.exc_info() inside a handler: (type, value, traceback) of the exception being handled."""
        it = self.it
        if not it.cur_exc:
            return (None, None, None)
        e = it.cur_exc[-1]
        ev = it.exc_term(e)
        return (SV(it.exc_type_term(e)), SV(ev), SV(z3.Function("traceback_of", ObjS, ObjS)(ev)))

    def stmt_completion(self, node):
        """What evaluating an opaque child statement returns inside the interpreter: None or a stop-flow object."""
        it = self.it
        kind, v = it.ExS(node)
        V = self.mod.env.vars
        if kind == "normal":
            return None
        if kind == "break":
            return Rec(cls=V["EvalBreak"], name="EvalBreak")
        if kind == "continue":
            return Rec(cls=V["EvalContinue"], name="EvalContinue")
        return Rec(cls=V["EvalReturn"], fields={"value": v}, name="EvalReturn")

    def impl_completion(self, node):
        """Run the real handler on a statement template; outcome value is a completion (kind, value)."""
        it = self.it
        V = self.mod.env.vars

        def thunk():
            r = it.await_(it.call(it.getattr_(self.ctx, "aeval"), [node], {}))
            if r is None:
                return ("normal", None)
            if isinstance(r, Rec) and r._cls is not None:
                names = r._cls.mro_names()
                if "EvalBreak" in names:
                    return ("break", None)
                if "EvalContinue" in names:
                    return ("continue", None)
                if "EvalReturn" in names:
                    return ("return", r._fields.get("value"))
            return ("normal", None)  # the value of an expression statement is not a completion
        return self.outcome_completion(thunk)

    def outcome_completion(self, thunk):
        it = self.it
        it.world = it.w0
        try:
            kind, v = thunk()
            return (kind, it.obj(v), None, it.world)
        except Raised as r:
            return ("exc", it.exc_term(r.exc), it.exc_type_term(r.exc), it.world)

    def run_impl(self, node):
        it = self.it
        return it.outcome(lambda: it.await_(it.call(it.getattr_(self.ctx, "aeval"), [node], {})))

    def run_spec(self, thunk):
        return self.it.outcome(thunk)

    def compare(self, U, impl, spec, witness=None, value=True):
        """Obligations: same outcome kind, same value / exception type, same final world."""
        eng = self.eng
        obs = []
        ob = eng.oblige(f"{U}/same-outcome-kind", impl[0] == spec[0])
        obs.append(ob)
        if impl[0] == spec[0]:
            if impl[0] == "exc":
                goal = impl[2] == spec[2]
                # pyscript re-raising the same builtin class that the primitive raised counts as the same type
                for a, b in ((impl, spec), (spec, impl)):
                    nm = str(a[2])
                    if nm.startswith("const:type:") and "type_of_exception" in str(b[2]):
                        cls = nm[len("const:type:"):]
                        goal = z3.Or(goal, z3.Function(f"exc_isinstance.{cls}", ObjS, z3.BoolSort())(b[1]))
                obs.append(eng.oblige(f"{U}/same-exception-type", goal))
            elif value:
                obs.append(eng.oblige(f"{U}/same-value", impl[1] == spec[1]))
        obs.append(eng.oblige(f"{U}/same-effects-in-the-same-order", impl[3] == spec[3]))
        for ob in obs:
            if ob.status == "refuted" and witness is not None:
                ob.witness = dict(witness, clause=ob.name.rsplit("/", 1)[1],
                                  impl=[impl[0], str(impl[1])[:300], str(impl[3])[:600]],
                                  spec=[spec[0], str(spec[1])[:300], str(spec[3])[:600]])
        return obs

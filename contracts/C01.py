"""C01 - the interpreter evaluates expressions and assignments exactly like Python.

Contract-level reading: AstEval.aeval(n) in world w yields Spec(n, w): the outcome and final world that the
Language Reference prescribes for node n (operands once, left to right).  One obligation family per node class
and shape; the children of the node are opaque (induction hypothesis Ev), so by structural induction the property
holds for every program built from the verified node classes.
"""
from __future__ import annotations

import ast

import z3

from pyvc.framework import Harness
from .common import A_LOG, PKG
from .effect_common import EvalHarness, template, E_PY
from specs.pyspec import PySpec

PROPERTY = "C01"

ASSUMPTIONS = [
    A_LOG,
    "EFFECT domain: every operation on a user object (binary/unary/inplace operator, rich comparison, truth test, "
    "contains, getitem/setitem/delitem, getattr/setattr, call, iter/next, hash, str/repr/format) is an uninterpreted "
    "world-passing primitive; CPython's own dispatch inside a primitive (e.g. __radd__) is below the abstraction",
    "user values are never instances of interpreter-internal classes (EvalName, EvalLocalVar, EvalFunc, ...)",
    "callee objects of a call are callable, not coroutine functions, not pyscript functions (C03), and not time.sleep "
    "(documented deviation: replaced by asyncio.sleep); call_func compares the callee with time.sleep by ==, which is "
    "identity for functions",
    "hashing / str() of literal constants has no observable effect",
    "module level: curr_func is None and sym_table is the global symbol table; variable reads/writes are primitives "
    "on the world (name-lookup order beyond the first table is C03)",
    "iterables unpacked by an assignment or a comprehension deliver at most ITER_BOUND (2; thorough 3) elements",
]
NOT_DECIDED = ["beyond the templates: random native differential against CPython only (bounded); it calls plain functions only, because calling an arbitrary object makes the interpreter probe it (asyncio.iscoroutinefunction, comparison with time.sleep) which only an instrumented __getattr__/__eq__ observes; UnboundLocalError and NameError are not distinguished there (pyscript closure cells raise the base class)",
               "deep nesting is covered by the induction argument (children opaque), not by enumeration",
               "comprehension variable scoping, starred elements in set/dict displays, lambda: not in the verified shapes"]
SHAPE_BOUNDS = {"operands of BoolOp / chained Compare": "<= 3", "display elements": "<= 3", "call arguments": "<= 2 + 2 keywords",
                "assignment targets": "<= 2 names per tuple target", "iterations of unpacked iterables": "<= 2 (3 thorough)"}
LEVEL_TEXT = ("Proof per node class and shape (shape-bounded, all values): the real handler executed on a template "
              "whose children are opaque yields the same (outcome, world) term as the Language-Reference spec function; "
              "equality in the free theory means same operations, same operands, same order, same multiplicity. "
              "Deviations of the pinned tree are listed as known findings, each replayed natively against CPython.")

# ---- templates ---------------------------------------------------------------------------------------------
BINOPS = {"Add": "+", "Sub": "-", "Mult": "*", "Div": "/", "Mod": "%", "Pow": "**", "LShift": "<<", "RShift": ">>",
          "BitOr": "|", "BitXor": "^", "BitAnd": "&", "FloorDiv": "//", "MatMult": "@"}
CMPOPS = {"Eq": "==", "NotEq": "!=", "Lt": "<", "LtE": "<=", "Gt": ">", "GtE": ">=", "Is": "is", "IsNot": "is not",
          "In": "in", "NotIn": "not in"}

EXPR = {}
for n, o in BINOPS.items():
    EXPR[f"BinOp.{n}"] = f"_c0 {o} _c1"
for n, o in {"Not": "not ", "USub": "-", "UAdd": "+", "Invert": "~"}.items():
    EXPR[f"UnaryOp.{n}"] = f"{o}_c0"
for n, o in CMPOPS.items():
    EXPR[f"Compare.{n}"] = f"_c0 {o} _c1"
EXPR["Compare.chain2"] = "_c0 < _c1 <= _c2"
EXPR["Compare.chain2.in"] = "_c0 in _c1 == _c2"
EXPR["Compare.chain3"] = "_c0 < _c1 != _c2 is _c3"
EXPR.update({
    "BoolOp.and2": "_c0 and _c1", "BoolOp.or2": "_c0 or _c1", "BoolOp.and3": "_c0 and _c1 and _c2", "BoolOp.or3": "_c0 or _c1 or _c2",
    "IfExp": "_c0 if _c1 else _c2",
    "IfExp.or": "_c0 if (_c1 or _c2) else _c3",
    "IfExp.not-and": "_c0 if not (_c1 and _c2) else _c3",
    "IfExp.chain": "_c0 if _c1 < _c2 < _c3 else _c4",
    "List.0": "[]", "List.1": "[_c0]", "List.3": "[_c0, _c1, _c2]", "List.star": "[_c0, *_c1, _c2]", "List.starfirst": "[*_c0, _c1]",
    "Tuple.0": "()", "Tuple.2": "(_c0, _c1)", "Tuple.star": "(*_c0, _c1)",
    "Set.1": "{_c0}", "Set.3": "{_c0, _c1, _c2}",
    "Dict.0": "{}", "Dict.1": "{_c0: _c1}", "Dict.2": "{_c0: _c1, _c2: _c3}", "Dict.const": "{'a': _c0, 'b': _c1}",
    "Subscript": "_c0[_c1]", "Subscript.slice.full": "_c0[_c1:_c2:_c3]", "Subscript.slice.lo": "_c0[_c1:]",
    "Subscript.slice.hi": "_c0[:_c1]", "Subscript.slice.step": "_c0[::_c1]", "Subscript.slice.none": "_c0[:]",
    "Subscript.tuple": "_c0[_c1, _c2]",
    "Attribute": "_c0.attr",
    "Call.0": "_c0()", "Call.2": "_c0(_c1, _c2)", "Call.star": "_c0(_c1, *_c2)", "Call.kw": "_c0(_c1, k=_c2)",
    "Call.kw2": "_c0(a=_c1, b=_c2)", "Call.kwstar": "_c0(_c1, **_c2)", "Call.mixed": "_c0(_c1, *_c2, k=_c3, **_c4)",
    "JoinedStr.1": "f'{_c0}'", "JoinedStr.2": "f'a{_c0}b{_c1}c'", "JoinedStr.r": "f'{_c0!r}'", "JoinedStr.s": "f'{_c0!s}'",
    "JoinedStr.a": "f'{_c0!a}'", "JoinedStr.spec": "f'{_c0:>10}'", "JoinedStr.nested": "f'{_c0:{_c1}}'",
    "NamedExpr": "(x := _c0)",
    "Constant": "42",
    "ListComp.1": "[_c1 for x in _c0]", "ListComp.if": "[_c1 for x in _c0 if _c2]", "ListComp.2gen": "[_c2 for x in _c0 for y in _c1]",
    "ListComp.tuple-target": "[_c1 for a, b in _c0]",
    "SetComp.1": "{_c1 for x in _c0}", "DictComp.1": "{_c1: _c2 for x in _c0}",
    # every comprehension form x the clause shapes (one condition, two conditions - which short-circuit -, two generators)
    "ListComp.if2": "[_c1 for x in _c0 if _c2 if _c3]",
    "SetComp.if": "{_c1 for x in _c0 if _c2}", "SetComp.if2": "{_c1 for x in _c0 if _c2 if _c3}", "SetComp.2gen": "{_c2 for x in _c0 for y in _c1}",
    "DictComp.if": "{_c1: _c2 for x in _c0 if _c3}", "DictComp.if2": "{_c1: _c2 for x in _c0 if _c3 if _c4}", "DictComp.2gen": "{_c2: _c3 for x in _c0 for y in _c1}",
})
STMT = {
    "Assign.name": "x = _c0", "Assign.multi": "x = y = _c0", "Assign.subscript": "_c0[_c1] = _c2", "Assign.attribute": "_c0.attr = _c1",
    "Assign.tuple2": "a, b = _c0", "Assign.star": "a, *b = _c0", "Assign.list2": "[a, b] = _c0", "Assign.nested": "(a, b), c = _c0",
    "Assign.tuple.subscript": "a, _c0[_c1] = _c2",
    "AugAssign.name": "x += _c0", "AugAssign.subscript": "_c0[_c1] += _c2", "AugAssign.attribute": "_c0.attr -= _c1",
    "AnnAssign": "x: _c0 = _c1",
    "Delete.name": "del x", "Delete.subscript": "del _c0[_c1]", "Delete.two": "del x, _c0[_c1]",
    "Expr": "_c0",
}


def native_source(src):
    """Template source with opaque children written as tracer calls t(k) (for the native replay)."""
    import re
    if src.startswith("_c0("):
        src = "fn(0)" + src[3:]  # the callee of a call template is a plain function (see ASSUMPTIONS)
    return re.sub(r"_c(\d+)", r"t(\1)", src)


def h_template(name, src, mode):
    def h(eng):
        H = EvalHarness(eng)
        if name in ("ListComp.2gen", "ListComp.tuple-target", "SetComp.2gen", "DictComp.2gen") or name.endswith(".if2"):
            H.it.ITER_BOUND = 1  # nested iteration / two conditions: one element per iterable (shape bound)
        node = template(src, mode)
        U = f"C01/{name}"
        impl = H.run_impl(node)
        spec_node = template(src, mode)  # a fresh copy: handlers may mutate the node (ast_augassign does)
        S = PySpec(H.it, H.vars)
        if mode == "eval":
            spec = H.run_spec(lambda: S.ev(spec_node))
        else:
            spec = H.run_spec(lambda: S.ex(spec_node))
        eng.cover(f"{impl[0]}/{spec[0]}")
        wit = {"signature": name, "template": name, "source": native_source(src), "mode": mode}
        H.compare(U, impl, spec, witness=wit, value=(mode == "eval"))
    return h


def replay_template(wj):
    from replay.native import run_native
    return run_native("c01_template", wj, timeout=300)


def b_adequacy(seed):
    """Bounded stand-in AND adequacy check of the spec functions: every template is also run natively, the real
    AstEval against CPython, with scripted tracers (all operand truthiness assignments x a failure injected at each of
    the first 10 events x iterable lengths 0/2/3).  A template whose obligations are discharged but which differs here
    would expose a wrong spec or engine."""
    from concurrent.futures import ThreadPoolExecutor
    from replay.native import run_native
    items = [(n, native_source(s), "eval") for n, s in EXPR.items()] + [(n, native_source(s), "exec") for n, s in STMT.items()]

    def one(it):
        n, src, mode = it
        r = run_native("c01_template", {"source": src, "mode": mode}, timeout=600)
        return n, src, r
    failures, tried = [], 0
    with ThreadPoolExecutor(max_workers=16) as ex:
        for n, src, r in ex.map(one, items):
            tried += r.get("tried", 0)
            if r.get("reproduced"):
                failures.append({"signature": n, "template": n, "source": src, "observed": r.get("observed")})
            elif "error" in r:
                failures.append({"signature": n + ":replay-error", "template": n, "error": r["error"][-500:]})
    return {"unit": "AstEval vs CPython on every C01 template", "method": "native differential with scripted tracers",
            "bound": "per template: 2^min(k,3) truthiness assignments x 11 failure positions x 3 iterable lengths (+ None-valued presets)",
            "cases": tried, "failures": failures}




def b_random(seed_base, programs, what="both"):
    def run(seed):
        from replay.native import run_native
        return run_native("c01_random_bounded", {"seed": seed_base + seed, "programs": programs, "what": what, "max_failures": 5}, timeout=1500)
    return run

def b_programs(seed):
    from replay.native import run_native
    return run_native("c03_programs_bounded", {"seed": seed, "set": "C01"}, timeout=600)


def harnesses():
    hs = []
    heavy = {"ListComp.2gen", "ListComp.tuple-target", "SetComp.2gen", "DictComp.2gen"}  # nested iteration: thorough tier (larger budget)
    for name, src in EXPR.items():
        hs.append(Harness(name, h_template(name, src, "eval"), units=[(E_PY, "AstEval.aeval")], replay=replay_template, max_paths=6000,
                          tier="thorough" if name in heavy else "quick"))
    for name, src in STMT.items():
        hs.append(Harness(name, h_template(name, src, "exec"), units=[(E_PY, "AstEval.aeval")], replay=replay_template, max_paths=3000))
    hs.append(Harness("adequacy.native-differential", b_adequacy, units=[(E_PY, "AstEval.aeval")], kind="bounded"))
    hs.append(Harness("programs.native-differential", b_programs, units=[(E_PY, "AstEval.ast_tuple"), (E_PY, "AstEval.ast_list"), (E_PY, "AstEval.ast_dict"), (E_PY, "AstEval.ast_set")], kind="bounded"))
    hs.append(Harness("random.native-differential", b_random(0, 400), units=[(E_PY, "AstEval.aeval")], kind="bounded"))
    for k in range(1, 9):
        hs.append(Harness(f"random.native-differential[thorough {k}/8]", b_random(100 * k, 1500), units=[(E_PY, "AstEval.aeval")], kind="bounded", tier="thorough"))
    return hs

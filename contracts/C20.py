"""C20 - requirements resolution is order independent and never overrides the host.

Units (requirements.py): the merge loop of process_all_requirements (verified as an inductive step over an
arbitrary sequence of parsed lines), the decision loop and bookkeeping of install_requirements,
update_unpinned_versions.  The line scanner (find('#') / strip / split('==') / specifier rejection) is a bounded
stand-in: the proofs start from the parsed structure of a line.
"""
from __future__ import annotations

import itertools

import z3

from pyvc.framework import Harness
from pyvc.stmts import SymSeq
from pyvc.values import coerce_scalar
from .common import *  # noqa

PROPERTY = "C20"
R_PY = f"{PKG}/requirements.py"
PkgS = USort("PkgName")
VerS = USort("VerStr")
UNP = "_unpinned_version"

ASSUMPTIONS = [
    A_LOG,
    "packaging.version.Version: Version(s) raises InvalidVersion (a ValueError) iff s is not a valid version string; on "
    "valid strings ==, <, > are those of a total preorder (integer rank); a valid version string is non-empty",
    "a requirements line is abstracted to its parsed structure: blank/comment | invalid (more than one '==', or one of "
    "',', '>', '<') | unpinned(name) | pinned(name, version); the scanner that produces this structure from text is "
    "checked by the bounded stand-in `scanner`, not proved",
    "a pinned version string read from a file is never the sentinel '_unpinned_version'",
    "importlib.metadata.version / get_installed_version: a function of the package name (ghost map), None if absent",
    "async_process_requirements(hass, DOMAIN, [...]) installs exactly the listed requirements (ghost effect)",
]
NOT_DECIDED = []
SHAPE_BOUNDS = {"packages in the install decision": "1 symbolic package per run of the decision loop body (arbitrary "
                "other packages in the tables)"}
LEVEL_TEXT = ("Proof: the merge loop is verified as an inductive step for an arbitrary prefix of lines (unbounded "
              "number of files / lines / packages): the recorded version of each package is the maximum valid pin seen "
              "so far, or unpinned iff no pin was seen; commutativity of the summary update then gives order "
              "independence (z3 lemma). The install decision is verified for all combinations of installed / recorded "
              "/ wanted version. The text scanner is a bounded stand-in (enumeration), never counted as proved.")

rank = z3.Function("version_rank", VerS, z3.IntSort())
valid = z3.Function("is_valid_version", VerS, z3.BoolSort())
nonempty = z3.Function("version_string_nonempty", VerS, z3.BoolSort())
unp_c = z3.Const(f"strconst:{UNP}", VerS)


def version_ctor(interp, s):
    """Assumed contract of packaging.version.Version."""
    s = interp.split_none(s)
    if s is None:
        raise exc("TypeError", "expected string")
    t = coerce_scalar(s, VerS).t
    if not interp.eng.branch(z3.And(valid(t), t != unp_c), "valid-version"):
        raise exc("ValueError", "InvalidVersion")
    r = Rec(fields={"rank": rank(t)}, name="Version")
    r._cls = VERSION_CLS
    return r


VERSION_CLS = ClassRec("Version")


lex_lt = z3.Function("string_less_than", VerS, VerS, z3.BoolSort())


def _patch_version_compare(it):
    """== / < / > on Version records compare ranks (total preorder).  < / > on the raw version STRINGS is
    Python's lexicographic order: some strict order that is not the version order (uninterpreted)."""
    orig_eq, orig_cmp = it.eq, it.cmp

    def eq(a, b):
        if isinstance(a, Rec) and a._cls is VERSION_CLS and isinstance(b, Rec) and b._cls is VERSION_CLS:
            return a._fields["rank"] == b._fields["rank"]
        return orig_eq(a, b)

    def cmp(op, a, b):
        import ast
        if isinstance(a, Rec) and a._cls is VERSION_CLS and isinstance(b, Rec) and b._cls is VERSION_CLS and \
                isinstance(op, (ast.Lt, ast.Gt, ast.LtE, ast.GtE)):
            ra, rb = a._fields["rank"], b._fields["rank"]
            return {ast.Lt: ra < rb, ast.Gt: ra > rb, ast.LtE: ra <= rb, ast.GtE: ra >= rb}[type(op)]
        if isinstance(a, SV) and isinstance(b, SV) and a.t.sort() == VerS and b.t.sort() == VerS and \
                isinstance(op, (ast.Lt, ast.Gt)):
            return lex_lt(a.t, b.t) if isinstance(op, ast.Lt) else lex_lt(b.t, a.t)
        return orig_cmp(op, a, b)
    it.eq, it.cmp = eq, cmp


def mk_line(interp, tag="line"):
    """A parsed requirements line (see ASSUMPTIONS): string methods answer consistently with its structure."""
    eng = interp.eng
    kind = ["blank", "invalid-specifier", "unpinned", "pinned"][eng.choose(4, "line")]
    name = SV(eng.fresh(f"{tag}_pkg", PkgS))
    ver = SV(eng.fresh(f"{tag}_ver", VerS))
    eng.assume(ver.t != unp_c)
    r = Rec(name=f"line[{kind}]")
    f = r._fields
    f["kind"], f["pkg"], f["ver"] = kind, name, ver
    f["find"] = lambda i, s: -1
    f["strip"] = lambda i, *a: r
    f["__bool__"] = lambda i: kind != "blank"
    f["__len__"] = lambda i: 0 if kind == "blank" else 5
    f["__contains__"] = lambda i, ch: kind == "invalid-specifier"
    f["split"] = lambda i, sep: [name] if kind in ("unpinned", "invalid-specifier", "blank") else [name, ver]
    return r


REQ_T = TMap(PkgS, TStruct({"version": TScalar(VerS), "sources": TScalar(ObjS), "installed_version": TOpt(VerS)}))


def req_module(eng, it, w, lines_seq=None, installed=None):
    _patch_version_compare(it)
    installed = installed or Store(eng, "ghost.installed", TMap(PkgS, TScalar(VerS)))

    def get_installed(i, pkg):
        v = installed.view()
        p = coerce_scalar(pkg, PkgS)
        if eng.branch(v.has(p), "installed"):
            r = v.getitem(p)
            eng.assume(nonempty(r.t))  # an installed distribution has a non-empty version string
            return r
        return None

    class FP:
        pass

    def open_(i, path, **kw):
        fp = Rec(fields={"readlines": lambda i2: lines_seq}, name="fp")
        return Rec(fields={"__enter__": lambda i2: fp, "__exit__": lambda i2, *a: False}, name="open()")

    it.method_tables[("Obj", "append")] = lambda i, sv, x: None
    it.method_tables[("VerStr", "__bool__")] = lambda i, sv: SV(nonempty(sv.t))
    pkgv = PyModule("packaging.version", {"Version": version_ctor})
    stubs = {"_LOGGER": logger_stub(), "glob": PyModule("glob", {"glob": lambda i, pat: ["reqfile"]}),
             "os": PyModule("os", {"path": PyModule("os.path", {"join": lambda i, *a: "joined"})}),
             "open": open_, "get_installed_version": get_installed, "bind_hass": lambda i, f: f,
             "ATTR_VERSION": "version", "ATTR_SOURCES": "sources", "ATTR_INSTALLED_VERSION": "installed_version",
             "UNPINNED_VERSION": UNP, "CONF_ALLOW_ALL_IMPORTS": "allow_all_imports",
             "CONF_INSTALLED_PACKAGES": "_installed_packages", "DOMAIN": "pyscript", "REQUIREMENTS_FILE": "requirements.txt",
             "REQUIREMENTS_PATHS": ("", "apps/*", "modules/*", "scripts/**"), "Version": version_ctor,
             }
    it.import_modules = {"packaging.version": pkgv}
    mod = Module(it, R_PY, stubs=stubs)
    return mod, installed


# ----------------------------------------------------------------------------------------------------------
# merge loop: inductive step
# ----------------------------------------------------------------------------------------------------------
class MergeSpec:
    """Loop contract of `for pkg in pkg_lines` (for1 of process_all_requirements).

    Ghost summary of the lines seen so far, per package p:
        seen(p)   some non-blank, non-invalid line named p
        haspin(p) some line pinned p to a *valid* version;  maxrank(p) the highest rank among those
    Invariant: p in result  <=>  seen(p);   result[p].version is a valid pin of rank maxrank(p) if haspin(p),
               else the unpinned sentinel.
    """
    name = "merge"

    def __init__(self, eng):
        self.eng = eng
        self.local_stores = {"all_requirements_to_install": REQ_T}
        self.stores = {}
        self.modifies = []
        self.seen = Store(eng, "ghost.seen", TSet(PkgS))
        self.haspin = Store(eng, "ghost.haspin", TSet(PkgS))
        self.maxrank = Store(eng, "ghost.maxrank", TMap(PkgS, TScalar(z3.IntSort())))
        self.modifies = [self.seen, self.haspin, self.maxrank]
        self.first = True

    def inv(self, interp, env):
        if self.first:
            # before the first line nothing was seen
            self.first = False
            for st in (self.seen, self.haspin):
                st.cols["in"] = z3.K(PkgS, z3.BoolVal(False))
        R = self.stores["all_requirements_to_install"].cols
        seen, haspin, mr = self.seen.cols["in"], self.haspin.cols["in"], self.maxrank.cols[".v"]
        return [Forall([PkgS], lambda p: z3.And(
            z3.Select(R["dom"], p) == z3.Select(seen, p),
            z3.Implies(z3.Select(R["dom"], p), z3.And(
                z3.Select(R[".version?"], p), z3.Select(R[".sources?"], p), z3.Select(R[".installed_version?"], p),
                z3.If(z3.Select(haspin, p),
                      z3.And(z3.Select(R[".version:v"], p) != unp_c, valid(z3.Select(R[".version:v"], p)),
                             rank(z3.Select(R[".version:v"], p)) == z3.Select(mr, p)),
                      z3.Select(R[".version:v"], p) == unp_c))),
            z3.Implies(z3.Select(haspin, p), z3.Select(seen, p))), "p")]

    def witness(self, interp, ob, line):
        m = ob._z3model
        f = line._fields
        ev = lambda t: m.eval(t, model_completion=True)
        w = {"line": f["kind"]}
        if f["kind"] == "pinned":
            w["version_valid"] = bool(ev(valid(f["ver"].t)))
            w["version_nonempty"] = bool(ev(nonempty(f["ver"].t)))
            R = self.stores["all_requirements_to_install"]
            w["signature"] = "pinned-line-with-invalid-version-recorded-unvalidated" if not (w["version_valid"] and w["version_nonempty"]) else "valid-pin-mishandled"
        else:
            w["signature"] = f"{f['kind']}-line-mishandled"
        return w

    def step(self, interp, env, line):
        """Spec of one line (what the property says a line contributes)."""
        f = line._fields
        if f["kind"] in ("blank", "invalid-specifier"):
            return
        p = f["pkg"].t
        if f["kind"] == "unpinned":
            self.seen.view().add(f["pkg"])
            return
        v = f["ver"].t
        # a pin with an invalid version string is a malformed line: ignored
        isvalid = z3.And(valid(v), nonempty(v))
        seen0, has0, mr0 = self.seen.cols["in"], self.haspin.cols["in"], self.maxrank.cols[".v"]
        self.seen.cols["in"] = z3.If(isvalid, z3.Store(seen0, p, z3.BoolVal(True)), seen0)
        self.haspin.cols["in"] = z3.If(isvalid, z3.Store(has0, p, z3.BoolVal(True)), has0)
        newmax = z3.If(z3.And(z3.Select(has0, p), z3.Select(mr0, p) >= rank(v)), z3.Select(mr0, p), rank(v))
        self.maxrank.cols[".v"] = z3.If(isvalid, z3.Store(mr0, p, newmax), mr0)


def h_merge(eng):
    it = Interpreter(eng)
    w = World(eng)
    seq = SymSeq(lambda interp: mk_line(interp), "lines")
    mod, installed = req_module(eng, it, w, seq)
    eng.assume(Forall([VerS], lambda v: z3.Implies(valid(v), nonempty(v)), "valid-nonempty"))
    spec = MergeSpec(eng)
    fn = mod.func("process_all_requirements")
    number_loops(fn.node)
    # for0: roots, for1: glob results, for2: files, for3: lines
    it.loop_specs[("process_all_requirements", "for3")] = spec
    k, v = run_catching(it, lambda: it.call(fn, ["folder", ("",), "requirements.txt"], {}))
    eng.cover(f"after-loop:{k}")
    U = "C20/process_all_requirements"
    eng.oblige(f"{U}/post.no-exception", k == "ok")
    if k != "ok":
        return
    # the returned table is the summary of ALL lines: highest valid pin, unpinned only if no pin exists
    R = v.store.cols if hasattr(v, "store") else None
    eng.oblige(f"{U}/post.returns-the-merged-table", R is not None and v.store is spec.stores["all_requirements_to_install"])
    eng.oblige(f"{U}/canary", z3.BoolVal(False), kind="canary")


def replay_merge(wj):
    from replay.native import run_native
    return run_native("c20_merge_order", wj)


def h_summary_commutes(eng):
    """Order independence: the ghost summary update of two lines commutes (so the result is a function of the
    multiset of lines, for any number of files and lines)."""
    def upd(S, kind, p, v):
        seen, has, mr = S
        if kind == "unpinned":
            return (z3.Store(seen, p, z3.BoolVal(True)), has, mr)
        isv = z3.And(valid(v), nonempty(v))
        newmax = z3.If(z3.And(z3.Select(has, p), z3.Select(mr, p) >= rank(v)), z3.Select(mr, p), rank(v))
        return (z3.If(isv, z3.Store(seen, p, z3.BoolVal(True)), seen), z3.If(isv, z3.Store(has, p, z3.BoolVal(True)), has),
                z3.If(isv, z3.Store(mr, p, newmax), mr))
    S0 = (z3.Const("seen0", z3.ArraySort(PkgS, z3.BoolSort())), z3.Const("has0", z3.ArraySort(PkgS, z3.BoolSort())),
          z3.Const("mr0", z3.ArraySort(PkgS, z3.IntSort())))
    eng.cover("lemma")
    for ka, kb in itertools.product(("unpinned", "pinned"), repeat=2):
        pa, pb = z3.Const("pa", PkgS), z3.Const("pb", PkgS)
        va, vb = z3.Const("va", VerS), z3.Const("vb", VerS)
        ab = upd(upd(S0, ka, pa, va), kb, pb, vb)
        ba = upd(upd(S0, kb, pb, vb), ka, pa, va)
        q = z3.Const("q", PkgS)
        # observable part of the summary: seen, haspin, and maxrank where haspin
        same = z3.And(z3.Select(ab[0], q) == z3.Select(ba[0], q), z3.Select(ab[1], q) == z3.Select(ba[1], q),
                      z3.Implies(z3.Select(ab[1], q), z3.Select(ab[2], q) == z3.Select(ba[2], q)))
        eng.oblige(f"C20/lemma/summary-update-commutes[{ka},{kb}]", same)


# ----------------------------------------------------------------------------------------------------------
# install decision
# ----------------------------------------------------------------------------------------------------------
def h_install_entry_updated(eng):
    """install_requirements suspends twice (the scan in the executor, Home Assistant's installer).  While it is suspended another
    task may update the config entry (options flow, YAML import): Home Assistant REPLACES config_entry.data.  Contract (A-COOP):
    pip is started only if the entry allows it when the scan has finished, and the write-back of the package tracker carries the
    entry's data as it is at the write - it changes '_installed_packages' and nothing else."""
    from pyvc.stmts import SymKey
    it = Interpreter(eng)
    w = World(eng)
    mod, installed = req_module(eng, it, w, None)
    U = "C20/install_requirements||entry-update"
    p = z3.Const("pkg", PkgS)
    want = z3.Const("want_ver", VerS)
    eng.assume(z3.And(valid(want), want != unp_c, nonempty(want)))
    eng.assume(z3.Not(z3.Select(installed.cols["dom"], p)))       # wanted, pinned, not installed, not recorded: will be installed
    all_reqs = {SymKey(SV(p)): {"version": SV(want), "sources": ["f"], "installed_version": None}}
    when = ["during-the-scan", "during-the-install"][eng.choose(2, "entry-updated")]
    allow_after = bool(eng.choose(2, "allow_all_imports-after-the-update"))
    rec0 = {}
    data_old = {"allow_all_imports": True, "_installed_packages": rec0, "hass_is_global": False}
    data_new = {"allow_all_imports": allow_after, "_installed_packages": rec0, "hass_is_global": True}
    entry = Rec(fields={"data": data_old}, name="config_entry")
    updates, installs = [], []

    def update_entry():
        entry._fields["data"] = data_new

    def executor(i, fn, *a):
        def th():
            if getattr(fn, "qualname", "") == "process_all_requirements":
                if when == "during-the-scan":
                    update_entry()
                return all_reqs
            return i.call(fn, list(a), {})
        return Coro(th, "executor_job")

    def process_reqs(i, hass_, dom, reqs):
        def th():
            installs.append(list(reqs))
            if when == "during-the-install":
                update_entry()
            installed.view().setitem(SV(p), SV(want))
        return Coro(th, "async_process_requirements")
    hass = Rec(fields={"async_add_executor_job": executor,
                       "config_entries": Rec(fields={"async_update_entry": lambda i, entry=None, data=None: updates.append(dict(data))})}, name="hass")
    mod.env.vars["async_process_requirements"] = process_reqs
    k, v = run_catching(it, lambda: it.await_(it.call(mod.func("install_requirements"), [hass, entry, "folder"], {})))
    eng.cover(f"exit:{k}:{when}:{allow_after}")
    eng.oblige(f"{U}/post.no-exception", k == "ok")
    if k != "ok":
        return

    def W(ob, what):
        if ob.status == "refuted":
            ob.witness = {"signature": f"entry-updated-{when}:{what}", "when": when, "allow_after": allow_after, "what": what}
        return ob
    if when == "during-the-scan" and not allow_after:
        W(eng.oblige(f"{U}/post.nothing-installed-once-the-entry-forbids-it", installs == [] and updates == []), "installed-although-forbidden")
        return
    W(eng.oblige(f"{U}/post.missing-package-installed-once", len(installs) == 1), "install-count")
    W(eng.oblige(f"{U}/post.tracker-written-back-once", len(updates) == 1), "write-back-count")
    if len(updates) == 1:
        u = updates[0]
        W(eng.oblige(f"{U}/frame.write-back-changes-only-the-package-tracker",
                     u.get("allow_all_imports") is allow_after and u.get("hass_is_global") is True and sorted(u) == sorted(data_new)), "stale-entry-written-back")
    eng.oblige(f"{U}/frame.entry-dictionaries-not-mutated-in-place", data_new["_installed_packages"] is rec0 and rec0 == {} and data_old["allow_all_imports"] is True)


def replay_entry_updated(wj):
    from replay.native import run_native
    return run_native("c20_entry_updated_meanwhile", wj, timeout=120)


def h_install(eng):
    it = Interpreter(eng)
    w = World(eng)
    mod, installed = req_module(eng, it, w, None)
    U = "C20/install_requirements"
    allow = bool(eng.choose(2, "allow_all_imports"))
    p = z3.Const("pkg", PkgS)
    want = z3.Const("want_ver", VerS)
    inst = z3.Const("installed_ver", VerS)
    recorded = z3.Const("recorded_ver", VerS)
    want_kind = ["unpinned", "pinned"][eng.choose(2, "wanted")]
    is_installed = bool(eng.choose(2, "is-installed"))
    is_recorded = bool(eng.choose(2, "is-recorded"))
    eng.assume(z3.And(valid(want), valid(inst), valid(recorded), want != unp_c, inst != unp_c, recorded != unp_c,
                      nonempty(want), nonempty(inst), nonempty(recorded)))
    all_reqs = {}
    none_requested = bool(eng.choose(2, "no-requirements")) if not allow else False
    if not none_requested:
        from pyvc.stmts import SymKey
        all_reqs[SymKey(SV(p))] = {"version": UNP if want_kind == "unpinned" else SV(want), "sources": ["f"],
                                   "installed_version": SV(inst) if is_installed else None}
    rec0 = {}
    if is_recorded:
        from pyvc.stmts import SymKey
        rec0[SymKey(SV(p))] = SV(recorded)
    rec0_copy = dict(rec0)
    data = {"allow_all_imports": allow, "_installed_packages": rec0}
    updates = []
    entry = Rec(fields={"data": data}, name="config_entry")
    installs = []

    def executor(i, fn, *a):
        def th():
            if getattr(fn, "qualname", "") == "process_all_requirements":
                return all_reqs
            return i.call(fn, list(a), {})
        return Coro(th, "executor_job")

    # Home Assistant's installer can fail (pip error, no network): homeassistant.requirements.RequirementsNotFound
    from pyvc.interp import Raised, ExcVal, PyTypeTok as _Tok, EXC as _EXC
    RNF = _Tok("RequirementsNotFound", [_EXC["Exception"]])
    mod.env.vars["RequirementsNotFound"] = RNF
    install_fails = [False]

    def process_reqs(i, hass_, dom, reqs):
        def th():
            installs.append(list(reqs))
            if eng.choose(2, "installer-fails") == 1:
                install_fails[0] = True
                raise Raised(ExcVal(RNF, ("pyscript", list(reqs))))
            # ghost: the requested package is installed afterwards (pinned: that version; unpinned: what pip resolved)
            installed.view().setitem(SV(p), SV(want) if want_kind == "pinned" else SV(resolved))
        return Coro(th, "async_process_requirements")

    hass = Rec(fields={"async_add_executor_job": executor,
                       "config_entries": Rec(fields={"async_update_entry": lambda i, entry=None, data=None: updates.append(data)})},
               name="hass")
    mod.env.vars["async_process_requirements"] = process_reqs
    # after an install the freshly installed version of an unpinned package is whatever pip resolved
    resolved = z3.Const("resolved_ver", VerS)
    eng.assume(z3.And(valid(resolved), nonempty(resolved), resolved != unp_c))
    # the installed_version column of the table agrees with the environment
    eng.assume(z3.Select(installed.cols["dom"], p) == z3.BoolVal(is_installed))
    if is_installed:
        eng.assume(z3.Select(installed.cols[".v"], p) == inst)
    k, v = run_catching(it, lambda: it.await_(it.call(mod.func("install_requirements"), [hass, entry, "folder"], {})))
    eng.cover(f"exit:{k}")
    if install_fails[0]:
        # a package whose installation failed is never recorded as installed by pyscript (a record makes pyscript treat
        # the package as its own later: it would update or overwrite what somebody else installs under that name)
        recs = [u.get("_installed_packages", {}) for u in updates] + [rec0]
        gained = [r for r in recs if any(kk not in rec0_copy for kk in r)]
        ob = eng.oblige(f"{U}/post.failed-install-is-not-recorded", gained == [])
        if ob.status == "refuted":
            ob.witness = {"signature": "failed-install-recorded"}
        return
    eng.oblige(f"{U}/post.no-exception", k == "ok")
    if k != "ok":
        return
    sig = f"allow={allow},wanted={want_kind},installed={is_installed},recorded={is_recorded}"
    n_inst = sum(len(x) for x in installs)
    if not allow:
        eng.oblige(f"{U}/post.nothing-installed-without-allow_all_imports", n_inst == 0 and updates == [])
        return
    if none_requested:
        return
    rec_eq_inst = rank(recorded) == rank(inst)
    want_eq_inst = rank(want) == rank(inst)
    # never touch a package installed by something other than pyscript
    if is_installed and not is_recorded:
        eng.oblige(f"{U}/post.foreign-package-never-installed", n_inst == 0)
    if is_installed and is_recorded:
        if want_kind == "unpinned":
            eng.oblige(f"{U}/post.unpinned-defers-to-installed", n_inst == 0)
        else:
            # reinstalled iff it is still ours (record matches what is installed) and the pin differs
            should = z3.And(rec_eq_inst, z3.Not(want_eq_inst))
            eng.oblige(f"{U}/post.own-package-updated-iff-pin-differs", should if n_inst == 1 else z3.Not(should))
    if not is_installed:
        eng.oblige(f"{U}/post.missing-package-installed", n_inst == 1)
    if n_inst == 1:
        req = installs[0][0]
        # requirement string: pkg==version for pins, bare name for unpinned
        eng.oblige(f"{U}/post.requirement-string-form", isinstance(req, SV) if want_kind == "pinned" else (isinstance(req, SV) and req.t.eq(p)))
    # the stored config-entry data is never mutated in place: changes go through async_update_entry
    eng.oblige(f"{U}/post.config-entry-data-not-mutated-in-place",
               list(rec0.keys()) == list(rec0_copy.keys()) and all(rec0[kk] is rec0_copy[kk] for kk in rec0))
    # the record after the run
    final = updates[-1]["_installed_packages"] if updates else rec0
    if n_inst == 1:
        eng.oblige(f"{U}/post.record-persisted-after-install", len(updates) == 1 and updates[0]["_installed_packages"] is not rec0)
    keys = [kk for kk in final]
    has_p = len(keys) == 1
    if n_inst == 1 and want_kind == "pinned":
        eng.oblige(f"{U}/post.record-matches-what-was-installed",
                   has_p and isinstance(final[keys[0]], SV) and final[keys[0]].t.eq(want))
    if is_installed and is_recorded and n_inst == 0:
        # stale record of a package that is now managed externally is dropped; a matching record is kept
        stale = z3.Not(rec_eq_inst) if want_kind == "pinned" else (recorded != inst)
        eng.oblige(f"{U}/post.stale-record-dropped-matching-record-kept", stale if not has_p else z3.Not(stale))


CF_PY = f"{PKG}/config_flow.py"


def h_import_keeps_record(eng):
    """The record of what pyscript installed lives in the config entry's data (key _installed_packages).  The YAML import flow
    (run at every start and reload for YAML-configured installations) rewrites that data from configuration.yaml: it must carry
    the record over unchanged, for UI-created and YAML-created entries alike."""
    it = Interpreter(eng)
    w = World(eng)
    mod = Module(it, CF_PY, stubs={"json": PyModule("json", {"loads": lambda i, x: x, "dumps": lambda i, x: x}),
                                   "SOURCE_IMPORT": "import", "DOMAIN": "pyscript", "CONF_INSTALLED_PACKAGES": "_installed_packages",
                                   "CONF_ALLOW_ALL_IMPORTS": "allow_all_imports", "CONF_HASS_IS_GLOBAL": "hass_is_global",
                                   "CONF_LEGACY_DECORATORS": "legacy_decorators",
                                   "CONF_BOOL_ALL": ("allow_all_imports", "hass_is_global", "legacy_decorators"),
                                   "vol": PyModule("vol", {}), "config_entries": PyModule("config_entries", {}), "callback": lambda i, f: f})
    U = "C20/PyscriptConfigFlow.async_step_import"
    source = ["import", "user"][eng.choose(2, "entry-source")]
    record = {"pkg": "1.0"}
    data = {"allow_all_imports": bool(eng.choose(2, "stored-allow")), "_installed_packages": record}
    if eng.choose(2, "stored-apps"):
        data["apps"] = {"a": 1}
    if eng.choose(2, "stored-hass-is-global"):
        data["hass_is_global"] = True
    imp = {}
    if eng.choose(2, "yaml-has-allow"):
        imp["allow_all_imports"] = bool(eng.choose(2, "yaml-allow"))
    if eng.choose(2, "yaml-has-apps"):
        imp["apps"] = {"a": 2}
    data0 = dict(data)
    entry = Rec(fields={"data": data, "source": source}, name="config_entry")
    updates = []
    hass = Rec(fields={"config_entries": Rec(fields={"async_entries": lambda i, d: [entry],
                                                      "async_update_entry": lambda i, entry=None, data=None: updates.append(data)})}, name="hass")
    self_ = Rec(fields={"hass": hass, "async_abort": lambda i, reason=None: {"type": "abort", "reason": reason},
                        "async_step_user": lambda i, user_input=None: Coro(lambda: {"type": "create"}, "step_user")}, name="flow")
    fn = mod.func("PyscriptConfigFlow.async_step_import")
    k, v = run_catching(it, lambda: it.await_(it.call(fn, [self_, imp], {})))
    eng.cover(f"exit:{k}:{source}")
    eng.oblige(f"{U}/post.no-exception", k == "ok")
    final = updates[-1] if updates else data
    ob = eng.oblige(f"{U}/post.record-of-installed-packages-carried-over", "_installed_packages" in final and final["_installed_packages"] is record)
    if ob.status == "refuted":
        ob.witness = {"signature": "record-lost-by-yaml-import", "source": source}
    eng.oblige(f"{U}/post.stored-data-not-mutated-in-place", data == data0)
    # the rest of the documented behaviour of the import: YAML wins for a YAML-created entry; a UI-created entry keeps its flags
    if source == "import":
        eng.oblige(f"{U}/post.yaml-entry-follows-the-yaml", all(final.get(kk) == vv for kk, vv in imp.items()) and all(kk in imp or kk == "_installed_packages" for kk in final))
    else:
        eng.oblige(f"{U}/post.ui-entry-keeps-its-flags", final.get("allow_all_imports") == data0.get("allow_all_imports") and final.get("hass_is_global") == data0.get("hass_is_global"))


def h_update_unpinned(eng):
    it = Interpreter(eng)
    w = World(eng)
    mod, installed = req_module(eng, it, w, None)
    U = "C20/update_unpinned_versions"
    from pyvc.stmts import SymKey
    p, q = z3.Const("p", PkgS), z3.Const("q", PkgS)
    eng.assume(p != q)
    pinned = z3.Const("pinned_ver", VerS)
    eng.assume(pinned != unp_c)
    d = {SymKey(SV(p)): UNP, SymKey(SV(q)): SV(pinned)}
    k, v = run_catching(it, lambda: it.call(mod.func("update_unpinned_versions"), [d], {}))
    eng.cover("ran")
    eng.oblige(f"{U}/post.no-exception", k == "ok")
    inst_p = z3.Select(installed.cols["dom"], p)
    keys = {str(kk.key.t): kk for kk in d}
    eng.oblige(f"{U}/post.pinned-entries-untouched", "q" in keys and d[keys["q"]].t.eq(pinned))
    if "p" in keys:
        eng.oblige(f"{U}/post.unpinned-resolved-to-installed-version",
                   z3.And(inst_p, d[keys["p"]].t == z3.Select(installed.cols[".v"], p)))
    else:
        eng.oblige(f"{U}/post.unresolvable-entry-dropped", z3.Not(inst_p))


# ----------------------------------------------------------------------------------------------------------
# bounded stand-in: the line scanner of process_all_requirements (real function, enumerated line forms)
# ----------------------------------------------------------------------------------------------------------
def b_scanner(seed):
    from replay.native import run_native
    return run_native("c20_scanner_bounded", {"seed": seed}, timeout=600)


def harnesses():
    return [
        Harness("merge-loop.step", h_merge, units=[(R_PY, "process_all_requirements")], replay=replay_merge),
        Harness("summary-commutes", h_summary_commutes, units=[]),
        Harness("install-decision", h_install, units=[(R_PY, "install_requirements")],
                replay=lambda wj: __import__("replay.native", fromlist=["run_native"]).run_native("c20_failed_install", wj)),
        Harness("install||entry-update", h_install_entry_updated, units=[(R_PY, "install_requirements")], replay=replay_entry_updated),
        Harness("config-import-keeps-record", h_import_keeps_record, units=[(CF_PY, "PyscriptConfigFlow.async_step_import")],
                replay=lambda wj: __import__("replay.native", fromlist=["run_native"]).run_native("c20_yaml_import_keeps_record", wj)),
        Harness("update_unpinned_versions", h_update_unpinned, units=[(R_PY, "update_unpinned_versions")]),
        Harness("scanner", b_scanner, units=[(R_PY, "process_all_requirements")], kind="bounded"),
    ]

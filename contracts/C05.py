"""C05 - state_check_now, state_hold and state_hold_false timing semantics.

The statement defines a timed automaton per trigger (DESIGN 4 / C05):
    state:  pend = none | (t0, args0)      fsince = none | t
    Eval(t, truth, args)  H None: q := truth; else if truth: q := fsince != none and t - fsince >= H; fsince := none
                          else: q := false; fsince := fsince or t.    q => qualify(args);  not truth => pend := none
    qualify(args)         S None: Run(args)   else: if pend = none then pend := (t, args)     (never restarted)
    Timer(t), pend=(t0,a0), t - t0 >= S:  Run(a0); pend := none
    inputs that cause no evaluation:  state unchanged, no action
Step simulation: one iteration of each subsystem's loop, from an arbitrary loop state, against one automaton step
through an abstraction function."""
from __future__ import annotations

import z3

from pyvc.framework import Harness
from pyvc.interp import SymPySet
from pyvc.values import SV, Rec, nparts, part, part_const
from .common import A_LOG, A_COOP, A_REAL, PKG, ObjS
from .tables import mk_names
from . import C04 as c04

PROPERTY = "C05"
T_PY = f"{PKG}/trigger.py"
DS_PY = f"{PKG}/decorators/state.py"
R = z3.RealSort()

ASSUMPTIONS = [
    A_LOG, A_COOP, A_REAL,
    "clock readings (time.monotonic(), loop.time()) are positive, non-decreasing reals; the new subsystem tests "
    "true_entered_at / false_entered_at for truthiness, so a reading of exactly 0.0 would be confused with 'unset'",
    "asyncio.wait_for(q.get(), timeout) returns a message no later than the deadline or raises TimeoutError no earlier "
    "(virtual-time contract); event times avoid ties with the hold deadlines (as in the property's quantifier)",
    "scope: triggers with one expression and no any-change names (the statement is silent on how the holds interact with "
    "any-change forms); state_hold / state_hold_false are None or non-negative reals",
]
NOT_DECIDED = ["task.wait_until: the legacy copy of the hold logic (TrigTime._wait_until) is under contract for a state trigger with one "
               "expression, no time trigger and no timeout= (legacy.wait_until.*); its interplay with a time trigger / timeout in the "
               "same call (the shared this_timeout computation) is covered by C15's arming obligation and the bounded whole-history "
               "differential (bounded.wait_until) only; the new subsystem runs the decorators' own _cycle (new.step / new.start)",
               "composition of the steps into whole histories is by the loop invariant 'loop state = abstraction of the automaton state'; "
               "whole histories are additionally enumerated only up to the stated bound (bounded stand-in)",
               "float rounding at the deadlines (reals)"]
SHAPE_BOUNDS = {}
LEVEL_TEXT = ("Proof by step simulation (all loop states, all clock readings, all hold values): one iteration of the "
              "real loop body equals one step of the statement's automaton through the abstraction function, for "
              "evaluating inputs (true / false), non-evaluating inputs and timer expiry, in both subsystems.")


def opt_real(nm):
    return SV(z3.Const(nm, R), none=z3.Bool(nm + "_is_none"))


def cfg_values(eng):
    S_none = bool(eng.choose(2, "state_hold=None"))
    H_none = bool(eng.choose(2, "state_hold_false=None"))
    S = None if S_none else SV(z3.Const("S", R))
    H = None if H_none else SV(z3.Const("H", R))
    if S is not None:
        eng.assume(S.t >= 0)
    if H is not None:
        eng.assume(H.t >= 0)
    return S, H


def mk_eval_message(eng, watched_changes):
    """A state message for a trigger watching `d.e`: value change of d.e (evaluation) or attribute-only update / other
    entity (no evaluation)."""
    var = c04.entity(eng)
    ident = mk_names(eng, 1, "ident")
    eng.assume(ident[0].t == var.t)  # the expression watches the entity's value
    if watched_changes:
        value, old = c04.mk_value(eng, "new", ("a",)), c04.mk_value(eng, "old", ("a",))
        eng.assume(value._ident != old._ident)
        msg, fa, nv = c04.mk_state_message(eng, var, value, old)
    else:
        kind = ["attribute-only", "other-entity"][eng.choose(2, "no-eval-kind")]
        if kind == "attribute-only":
            value, old = c04.mk_value(eng, "new", ("a",)), c04.mk_value(eng, "old", ("a",))
            eng.assume(value._ident == old._ident)
            msg, fa, nv = c04.mk_state_message(eng, var, value, old)
        else:
            other = c04.entity(eng, "other")
            eng.assume(other.t != var.t)
            value, old = c04.mk_value(eng, "new", ()), c04.mk_value(eng, "old", ())
            msg, fa, nv = c04.mk_state_message(eng, other, value, old)
    return ident, msg, fa, nv


# ----------------------------------------------------------------------------------------------------------
# new subsystem
# ----------------------------------------------------------------------------------------------------------
def as_opt(v):
    if v is None:
        return (z3.BoolVal(True), z3.RealVal(0))
    if not isinstance(v, SV):
        return (z3.BoolVal(False), z3.RealVal(v))
    return (v.none if v.none is not None else z3.BoolVal(False), v.t)


def marker(d):
    return d.get("marker") if isinstance(d, dict) else None


def spec_eval(truth, t, H, f0, f0_t):
    """Eval row of the automaton: returns (q, fsince' is none, fsince' value)"""
    if H is None:
        return z3.BoolVal(truth), z3.BoolVal(True), None
    if truth:
        return z3.And(f0, t - f0_t >= H.t), z3.BoolVal(True), None
    return z3.BoolVal(False), z3.BoolVal(False), z3.If(f0, f0_t, t)


def h_new(kind):
    """kind: 'eval' | 'no-eval' | 'timer'"""
    def h(eng):
        U = f"C05/StateTriggerDecorator._cycle#while0[{kind}]"
        eng.max_steps = 3_000_000
        S, H = cfg_values(eng)
        ident, msg, fa, nv = mk_eval_message(eng, kind != "no-eval")
        fa["marker"] = "this-event-args"
        tea, fea = opt_real("true_entered_at"), opt_real("false_entered_at")
        eng.assume(z3.And(tea.t > 0, fea.t > 0))
        if S is None:
            eng.assume(tea.none)  # no hold configured: never pending
        if H is None:
            eng.assume(fea.none)
        args0 = {"trigger_type": "state", "marker": "first-event-args"}
        vars0 = {"marker": "first-event-vars"}
        if kind == "timer":
            eng.assume(z3.Not(tea.none))
        fields = {"true_entered_at": tea, "false_entered_at": fea, "last_func_args": args0, "last_new_vars": vars0}
        cfg = {"ident": ident, "ident_any": [], "has_expr": True, "state_hold": S, "state_hold_false": H}
        clock = c04.VClock(eng)
        eng.assume(z3.And(clock.cur >= tea.t, clock.cur >= fea.t))  # the timers were started in the past
        it, w, dec, res, q_calls, dispatched, es, handled = c04.new_step(eng, cfg, msg, fields=fields, timeout_fires=(kind == "timer"), vclock=clock)
        eng.cover(f"end:{res.get('end')}")
        eng.oblige(f"{U}/post.no-exception-escapes-the-step", not str(res.get("end")).startswith("raised"))
        f = dec._fields
        n1, t1 = as_opt(f["true_entered_at"])
        nf1, tf1 = as_opt(f["false_entered_at"])
        pend0, f0 = z3.Not(tea.none), z3.Not(fea.none)
        t = clock.cur

        def W(ob, what):
            if ob.status == "refuted":
                ob.witness = {"signature": f"new:{kind}:{what}", "subsystem": "new", "kind": kind, "what": what, "S_none": S is None, "H_none": H is None}
            return ob
        if kind != "timer" and not q_calls:
            # the pending hold's deadline had already been reached at the top of the iteration: Timer input, covered by [timer]
            eng.cover("deadline-already-reached")
            return
        if kind == "no-eval":
            # inputs that cause no evaluation affect none of the timers and run nothing
            W(eng.oblige(f"{U}/post.no-evaluation-input-leaves-pending-hold", z3.And(n1 == tea.none, z3.Implies(pend0, t1 == tea.t))), "pending-hold-changed")
            W(eng.oblige(f"{U}/post.no-evaluation-input-leaves-false-timer", z3.And(nf1 == fea.none, z3.Implies(f0, tf1 == fea.t))), "false-timer-changed")
            W(eng.oblige(f"{U}/post.no-evaluation-input-runs-nothing", len(dispatched) == 0 and "last" not in es), "ran")
            W(eng.oblige(f"{U}/post.no-evaluation-input-keeps-the-remembered-arguments", marker(f["last_func_args"]) == "first-event-args"), "args-overwritten")
            return
        if kind == "timer":
            # Timer(t): pending since t0; fires iff t - t0 >= S, with the FIRST event's arguments
            due = t - tea.t >= S.t
            if len(dispatched) == 1:
                W(eng.oblige(f"{U}/post.timer-fires-only-when-due", due), "fired-early")
                W(eng.oblige(f"{U}/post.timer-run-carries-the-first-events-arguments", marker(dispatched[0]._fields["func_args"]) == "first-event-args"), "wrong-args")
                eng.oblige(f"{U}/post.timer-run-clears-pending", n1)
            else:
                W(eng.oblige(f"{U}/post.timer-fires-when-due", z3.Not(due) if len(dispatched) == 0 else False), "missed")
                eng.oblige(f"{U}/post.early-wakeup-keeps-pending", z3.And(z3.Not(n1), t1 == tea.t))
            eng.oblige(f"{U}/post.timer-leaves-false-timer", z3.And(nf1 == fea.none, z3.Implies(f0, tf1 == fea.t)))
            return
        # kind == 'eval': a watched change arrives at time t
        if "last" not in es:
            eng.oblige(f"{U}/post.watched-change-is-evaluated", False)
            return
        truth = es.get("last") == "true"   # an expression that raises counts as false (C18)
        # scope: the event arrives strictly before a pending hold expires (no ties; otherwise the timer fires first)
        if S is not None:
            eng.assume(z3.Implies(pend0, t - tea.t < S.t))
        q, fs1_none, fs1_t = spec_eval(truth, t, H, f0, fea.t)
        W(eng.oblige(f"{U}/post.false-timer-follows-the-automaton",
                     z3.And(nf1 == fs1_none, z3.Implies(z3.Not(fs1_none), tf1 == fs1_t) if fs1_t is not None else True)), "false-timer")
        if S is None:
            W(eng.oblige(f"{U}/post.without-hold-runs-iff-qualifies", q if len(dispatched) == 1 else (z3.Not(q) if len(dispatched) == 0 else False)), "run-without-hold")
            if len(dispatched) == 1:
                eng.oblige(f"{U}/post.run-carries-this-events-arguments", marker(dispatched[0]._fields["func_args"]) == "this-event-args")
        else:
            W(eng.oblige(f"{U}/post.with-hold-an-evaluation-never-runs-at-once", z3.Or(len(dispatched) == 0, z3.And(q, S.t == 0))), "ran-at-once")
            # pending hold: started by the first qualifying evaluation, never restarted, cancelled by a false one
            if truth:
                if True:
                    want_none = z3.And(z3.Not(pend0), z3.Not(q))
                    want_t = z3.If(pend0, tea.t, t)
                    W(eng.oblige(f"{U}/post.pending-hold-follows-the-automaton", z3.And(n1 == want_none, z3.Implies(z3.Not(want_none), t1 == want_t))), "pending-hold")
                    # a later true evaluation keeps the FIRST event's arguments; a hold that starts now remembers this event's
                    W(eng.oblige(f"{U}/post.true-evaluation-while-pending-keeps-first-arguments",
                                 z3.Implies(pend0, marker(f["last_func_args"]) == "first-event-args")), "args-overwritten")
                    eng.oblige(f"{U}/post.hold-start-remembers-this-events-arguments",
                               z3.Implies(z3.And(z3.Not(pend0), q), marker(f["last_func_args"]) == "this-event-args"))
            else:
                W(eng.oblige(f"{U}/post.false-evaluation-cancels-pending", n1), "pending-hold")
    return h


# ----------------------------------------------------------------------------------------------------------
# legacy subsystem
# ----------------------------------------------------------------------------------------------------------
def h_legacy(kind):
    def h(eng):
        U = f"C05/TrigInfo.trigger_watch#while0[{kind}]"
        eng.max_steps = 3_000_000
        S, H = cfg_values(eng)
        ident, msg, fa, nv = mk_eval_message(eng, kind != "no-eval")
        fa["marker"] = "this-event-args"
        waiting = z3.Bool("state_trig_waiting")
        lst, sft = opt_real("last_state_trig_time"), opt_real("state_false_time")
        eng.assume(z3.And(lst.t > 0, sft.t > 0))
        eng.assume(z3.Implies(waiting, z3.Not(lst.none)))
        if S is None:
            eng.assume(z3.Not(waiting))
        if H is None:
            eng.assume(sft.none)
        args0 = {"trigger_type": "state", "marker": "first-event-args"}
        vars0 = {"marker": "first-event-vars"}
        if kind == "timer":
            eng.assume(waiting)
        loop_state = {"state_trig_waiting": SV(waiting), "last_state_trig_time": lst, "state_false_time": sft,
                      "state_trig_notify_info": [vars0, args0]}
        cfg = {"ident": ident, "ident_any": [], "has_expr": True, "state_hold": S, "state_hold_false": H}
        clock = c04.VClock(eng)
        eng.assume(z3.And(clock.cur >= lst.t, clock.cur >= sft.t))
        t_arm = clock.cur
        it, w, ti, res, q_calls, (expr, _) = c04.legacy_step(eng, cfg, msg, loop_state=loop_state, clock=clock, timeout_fires=(kind == "timer"))
        eng.cover(f"end:{res.get('end')}")
        eng.oblige(f"{U}/post.no-exception-escapes-the-step", not str(res.get("end")).startswith("raised"))
        L = res.get("locals", {})
        calls = w.events("call_action")
        w1 = L.get("state_trig_waiting")
        w1t = w1.t if isinstance(w1, SV) else z3.BoolVal(bool(w1))
        _, tl1 = as_opt(L.get("last_state_trig_time"))
        nf1, tf1 = as_opt(L.get("state_false_time"))
        f0 = z3.Not(sft.none)
        t = clock.cur
        info1 = L.get("state_trig_notify_info")
        info_marker = marker(info1[1]) if isinstance(info1, list) and len(info1) == 2 else None

        def W(ob, what):
            if ob.status == "refuted":
                ob.witness = {"signature": f"legacy:{kind}:{what}", "subsystem": "legacy", "kind": kind, "what": what, "S_none": S is None, "H_none": H is None}
            return ob
        if kind == "no-eval":
            W(eng.oblige(f"{U}/post.no-evaluation-input-leaves-pending-hold", z3.And(w1t == waiting, z3.Implies(waiting, tl1 == lst.t))), "pending-hold-changed")
            W(eng.oblige(f"{U}/post.no-evaluation-input-leaves-false-timer", z3.And(nf1 == sft.none, z3.Implies(f0, tf1 == sft.t))), "false-timer-changed")
            W(eng.oblige(f"{U}/post.no-evaluation-input-runs-nothing", len(calls) == 0 and "last" not in expr._fields), "ran")
            W(eng.oblige(f"{U}/post.no-evaluation-input-keeps-the-remembered-arguments", info_marker == "first-event-args"), "args-overwritten")
            return
        if kind == "timer":
            # the wait is armed with the remaining hold time; TimeoutError no earlier than that => t - t0 >= S
            arms = w.events("wait_for")
            ok_arm = len(arms) == 1 and isinstance(arms[0][1], SV)
            eng.oblige(f"{U}/post.wait-armed-once-with-a-timeout", ok_arm)
            if ok_arm:
                rem = lst.t + S.t - t_arm
                W(eng.oblige(f"{U}/post.wait-armed-with-the-remaining-hold-time", arms[0][1].t == z3.If(rem >= 0, rem, 0)), "wrong-timeout")
            eng.oblige(f"{U}/post.timer-fires-only-when-due", t - lst.t >= S.t)
            W(eng.oblige(f"{U}/post.timer-runs-once-with-the-first-events-arguments",
                         len(calls) == 1 and marker(calls[0][2]) == "first-event-args"), "wrong-run")
            eng.oblige(f"{U}/post.timer-run-clears-pending", z3.Not(w1t))
            eng.oblige(f"{U}/post.timer-leaves-false-timer", z3.And(nf1 == sft.none, z3.Implies(f0, tf1 == sft.t)))
            return
        if "last" not in expr._fields:
            eng.oblige(f"{U}/post.watched-change-is-evaluated", False)
            return
        truth = expr._fields.get("last") == "true"
        if S is not None:
            eng.assume(z3.Implies(waiting, t - lst.t < S.t))
        q, fs1_none, fs1_t = spec_eval(truth, t, H, f0, sft.t)
        W(eng.oblige(f"{U}/post.false-timer-follows-the-automaton",
                     z3.And(nf1 == fs1_none, z3.Implies(z3.Not(fs1_none), tf1 == fs1_t) if fs1_t is not None else True)), "false-timer")
        if S is None:
            W(eng.oblige(f"{U}/post.without-hold-runs-iff-qualifies", q if len(calls) == 1 else (z3.Not(q) if len(calls) == 0 else False)), "run-without-hold")
            if len(calls) == 1:
                eng.oblige(f"{U}/post.run-carries-this-events-arguments", marker(calls[0][2]) == "this-event-args")
        else:
            W(eng.oblige(f"{U}/post.with-hold-an-evaluation-never-runs-at-once", len(calls) == 0), "ran-at-once")
            if truth:
                want_wait = z3.Or(waiting, q)
                W(eng.oblige(f"{U}/post.pending-hold-follows-the-automaton",
                             z3.And(w1t == want_wait, z3.Implies(waiting, tl1 == lst.t), z3.Implies(z3.And(z3.Not(waiting), q), tl1 == t))), "pending-hold")
                W(eng.oblige(f"{U}/post.true-evaluation-while-pending-keeps-first-arguments",
                             z3.Implies(waiting, info_marker == "first-event-args")), "args-overwritten")
                eng.oblige(f"{U}/post.hold-start-remembers-this-events-arguments",
                           z3.Implies(z3.And(z3.Not(waiting), q), info_marker == "this-event-args"))
            else:
                W(eng.oblige(f"{U}/post.false-evaluation-cancels-pending", z3.Not(w1t)), "pending-hold")
    return h


def spec_start(check_now, truth, t, S, H):
    """Start row: returns dict(evaluated, fs_none, fs_t, run, pend)"""
    evaluated = bool(check_now) or H is not None
    return evaluated


def h_new_start(eng):
    U = "C05/StateTriggerDecorator._cycle#prologue"
    eng.max_steps = 3_000_000
    S, H = cfg_values(eng)
    check_now = [None, False, True][eng.choose(3, "state_check_now")]
    ident, msg, fa, nv = mk_eval_message(eng, True)
    cfg = {"ident": ident, "ident_any": [], "has_expr": True, "state_hold": S, "state_hold_false": H, "state_check_now": check_now}
    clock = c04.VClock(eng)
    it, w, dec, res, q_calls, dispatched, es, handled = c04.new_step(eng, cfg, msg, vclock=clock, mode="start")
    eng.cover(f"end:{res.get('end')}")
    eng.oblige(f"{U}/post.reaches-the-loop", res.get("end") == "loop-entry")
    if res.get("end") != "loop-entry":
        return
    f = dec._fields
    n1, t1 = as_opt(f["true_entered_at"])
    nf1, tf1 = as_opt(f["false_entered_at"])
    t = clock.cur
    evaluated = "last" in es
    truth = es.get("last") == "true"

    def W(ob, what):
        if ob.status == "refuted":
            ob.witness = {"signature": f"new:start:{what}", "subsystem": "new", "kind": "start", "what": what, "S_none": S is None, "H_none": H is None,
                          "check_now": check_now, "truth": truth}
        return ob
    eng.oblige(f"{U}/post.no-queue-read-before-the-loop", q_calls == [])
    W(eng.oblige(f"{U}/post.initial-evaluation-iff-check-now-or-hold-false", evaluated == (bool(check_now) or H is not None)), "evaluated")
    # false timer: H set => fsince := None if truth else t
    if H is not None and evaluated:
        W(eng.oblige(f"{U}/post.false-timer-initialised", z3.And(nf1, True) if truth else z3.And(z3.Not(nf1), tf1 == t)), "false-timer")
    else:
        eng.oblige(f"{U}/post.false-timer-unset", nf1)
    occurs = bool(check_now) and evaluated and truth
    if occurs and S is None:
        W(eng.oblige(f"{U}/post.trigger-occurs-at-definition-time", len(dispatched) == 1), "no-run-at-start")
        if len(dispatched) == 1:
            eng.oblige(f"{U}/post.start-run-carries-trigger-type-state", dispatched[0]._fields["func_args"] == {"trigger_type": "state"})
        eng.oblige(f"{U}/post.no-pending-hold-without-state-hold", n1)
    elif occurs:
        W(eng.oblige(f"{U}/post.initial-check-starts-the-hold", z3.And(z3.Not(n1), t1 == t)), "no-hold-at-start")
        eng.oblige(f"{U}/post.initial-hold-remembers-trigger-type-state", f["last_func_args"] == {"trigger_type": "state"})
        eng.oblige(f"{U}/post.hold-never-runs-at-once", len(dispatched) == 0)
    else:
        W(eng.oblige(f"{U}/post.no-trigger-at-definition-time-otherwise", len(dispatched) == 0), "ran-at-start")
        W(eng.oblige(f"{U}/post.no-pending-hold-otherwise", n1), "hold-at-start")


def h_legacy_start(eng):
    U = "C05/TrigInfo.trigger_watch#first-iteration"
    eng.max_steps = 3_000_000
    S, H = cfg_values(eng)
    check_now = [False, True][eng.choose(2, "state_check_now")]
    ident, msg, fa, nv = mk_eval_message(eng, True)
    cfg = {"ident": ident, "ident_any": [], "has_expr": True, "state_hold": S, "state_hold_false": H, "state_check_now": check_now}
    clock = c04.VClock(eng)
    it, w, ti, res, q_calls, (expr, _) = c04.legacy_step(eng, cfg, msg, clock=clock, mode="start")
    eng.cover(f"end:{res.get('end')}")
    eng.oblige(f"{U}/post.no-exception-escapes-the-step", not str(res.get("end")).startswith("raised"))
    L0 = res.get("locals_at_entry", {})
    eng.oblige(f"{U}/post.loop-starts-in-the-initial-automaton-state",
               L0.get("state_trig_waiting") is False and L0.get("state_false_time") is None and L0.get("last_state_trig_time") is None)
    on_start = L0.get("check_state_expr_on_start")
    on_start = bool(on_start) if not isinstance(on_start, SV) else on_start
    eng.oblige(f"{U}/post.initial-check-iff-check-now-or-hold-false", on_start == (bool(check_now) or H is not None))
    if not on_start:
        return  # first iteration is an ordinary step (covered by the step harnesses)
    L = res.get("locals", {})
    calls = w.events("call_action")
    w1 = L.get("state_trig_waiting")
    w1t = w1.t if isinstance(w1, SV) else z3.BoolVal(bool(w1))
    _, tl1 = as_opt(L.get("last_state_trig_time"))
    nf1, tf1 = as_opt(L.get("state_false_time"))
    t = clock.cur
    evaluated = "last" in expr._fields
    truth = expr._fields.get("last") == "true"
    info1 = L.get("state_trig_notify_info")

    def W(ob, what):
        if ob.status == "refuted":
            ob.witness = {"signature": f"legacy:start:{what}", "subsystem": "legacy", "kind": "start", "what": what, "S_none": S is None, "H_none": H is None,
                          "check_now": check_now, "truth": truth}
        return ob
    eng.oblige(f"{U}/post.initial-check-reads-no-queue", q_calls == [])
    eng.oblige(f"{U}/post.initial-check-evaluates-once", evaluated and len(w.events("expr")) == 1)
    eng.oblige(f"{U}/post.initial-check-happens-once", L.get("check_state_expr_on_start") is False)
    if H is not None:
        W(eng.oblige(f"{U}/post.false-timer-initialised", nf1 if truth else z3.And(z3.Not(nf1), tf1 == t)), "false-timer")
    else:
        eng.oblige(f"{U}/post.false-timer-unset", nf1)
    occurs = bool(check_now) and truth
    if occurs and S is None:
        W(eng.oblige(f"{U}/post.trigger-occurs-at-definition-time", len(calls) == 1), "no-run-at-start")
        if len(calls) == 1:
            eng.oblige(f"{U}/post.start-run-carries-trigger-type-state", calls[0][2] == {"trigger_type": "state"})
        eng.oblige(f"{U}/post.no-pending-hold-without-state-hold", z3.Not(w1t))
    elif occurs:
        W(eng.oblige(f"{U}/post.initial-check-starts-the-hold", z3.And(w1t, tl1 == t)), "no-hold-at-start")
        eng.oblige(f"{U}/post.initial-hold-remembers-trigger-type-state", isinstance(info1, list) and info1[1] == {"trigger_type": "state"})
        eng.oblige(f"{U}/post.hold-never-runs-at-once", len(calls) == 0)
    else:
        W(eng.oblige(f"{U}/post.no-trigger-at-definition-time-otherwise", len(calls) == 0), "ran-at-start")
        W(eng.oblige(f"{U}/post.no-pending-hold-otherwise", z3.Not(w1t)), "hold-at-start")


# ----------------------------------------------------------------------------------------------------------
# legacy task.wait_until: the third copy of the hold logic (TrigTime._wait_until), step by step against the same automaton.
# "Run(args)" of the automaton is "the call returns args" here, and the automaton is read up to its first run.
# ----------------------------------------------------------------------------------------------------------
def legacy_wait_step(eng, S, H, ident, message, loop_state=None, clock=None, timeout_fires=False, mode="step", check_now=False):
    """ONE iteration of TrigTime._wait_until#while0 (state trigger with one expression, no time trigger, no timeout) from an
    arbitrary loop state, or (mode='start') the prologue up to the loop / an immediate return."""
    from pyvc.interp import Coro, exc, PathEnd, Raised, _Continue, _Break, _Return
    from pyvc.loader import number_loops
    from pyvc.stmts import Interpreter, PyModule
    from .common import QueueS
    from . import C09 as c09
    it = Interpreter(eng)
    it.obj_may_be_none = True
    mod, Fn, w = c04.trig_env(eng, it)
    clock.w = w
    it.method_tables[("Real", "total_seconds")] = lambda interp, obj: obj
    expr = Rec(name="AstEval<state_trigger>")
    q_calls, armed = [], {}

    def AstEvalStub(it_, name, gctx, logger_name=None):
        def ev(it2, vars_):
            def th():
                w.emit("expr", "state_trig_eval", vars_)
                res = ["true", "false", "raises"][eng.choose(3, "state_trig_eval")]
                expr._fields["last"] = res
                if res == "raises":
                    raise exc("UserException", "bad expression")
                return 1 if res == "true" else 0   # a truth value, not necessarily a bool
            return Coro(th, "state_trig_eval.eval")
        expr._fields.update({"parse": lambda it2, src, mode=None: None, "eval": ev,
                             "get_names": lambda it2: Coro(lambda: SymPySet(list(ident)), "get_names")})
        return expr
    mod.env.vars["AstEval"] = AstEvalStub
    mod.env.vars["STATE_RE"] = Rec(fields={"match": lambda it_, s_: None}, name="STATE_RE")   # classification: C04
    mod.env.vars["time"].attrs["monotonic"] = lambda it_: clock.read()
    mod.env.vars["dt_now"] = lambda it_: clock.read()
    as_t = lambda x: x.t if isinstance(x, SV) else z3.RealVal(x)
    mod.env.vars["dt"] = PyModule("dt", {"timedelta": lambda it_, seconds=0: SV(as_t(seconds))})
    mod.env.vars["max"] = lambda it_, a, b: SV(z3.If(as_t(a) >= as_t(b), as_t(a), as_t(b)))
    mod.env.vars["State"]._fields["notify_var_get"] = lambda i, names_, nv: dict(nv)
    mod.env.vars["State"]._fields["set"] = lambda it_, *a, **k: None

    def q_get(i, q):
        def th():
            q_calls.append("get")
            w.yield_point("notify_q.get", cancellable=False)
            to = armed.pop("timeout", None)
            clock.waited(to, fired=timeout_fires and to is not None)
            if timeout_fires and to is not None:
                raise exc("TimeoutError")
            return list(message)
        return Coro(th, "notify_q.get")
    it.method_tables[("Queue", "get")] = q_get
    mod.env.vars["asyncio"].attrs["Queue"] = lambda it_, n=0: SV(z3.Const("wait_until_q", QueueS))

    def wait_for(i, aw, timeout=None):
        w.emit("wait_for", timeout)
        armed["timeout"] = timeout
        return aw
    mod.env.vars["asyncio"].attrs["wait_for"] = wait_for
    fn = mod.func("TrigTime._wait_until")
    number_loops(fn.node)
    result = {}

    def at_loop(interp, node, env):
        e = env
        while e is not None and not getattr(e, "is_frame", False):
            e = e.parent
        result["locals_at_entry"] = dict(e.vars)
        result["prologue_evals"] = len(w.events("expr"))
        if mode == "start":
            result["end"] = "loop-entry"
            raise PathEnd()
        expr._fields.pop("last", None)
        for kk, vv in (loop_state or {}).items():
            env.vars[kk] = vv
            e.vars[kk] = vv
        try:
            interp.exec_block(node.body, env)
            result["end"] = "fallthrough"
        except _Continue:
            result["end"] = "continue"
        except _Break:
            result["end"] = "break"
        result["locals"] = dict(e.vars)
        raise PathEnd()
    it.loop_specs[("TrigTime._wait_until", "while0")] = at_loop
    ast_ctx = Rec(fields={"name": "file.x.f", "get_global_ctx": lambda it_: Rec(name="gctx"), "get_logger_name": lambda it_: "log"}, name="ast_ctx")
    kwargs = {"state_trigger": "d.e == '1'", "state_check_now": check_now, "state_hold": S, "state_hold_false": H}
    cls = mod.env.vars["TrigTime"]
    try:
        result["returned"] = it.await_(it.call(it.getattr_(cls, "_wait_until"), [[], ast_ctx], kwargs))
        result["end"] = "return"
    except PathEnd:
        pass
    except Raised as r:
        result["end"] = "raised:" + r.exc.cls.name
    return it, w, expr, result, q_calls


def h_legacy_wait(kind):
    def h(eng):
        U = f"C05/TrigTime._wait_until#while0[{kind}]"
        eng.max_steps = 3_000_000
        S, H = cfg_values(eng)
        ident, msg, fa, nv = mk_eval_message(eng, kind != "no-eval")
        fa["marker"] = "this-event-args"
        waiting = z3.Bool("state_trig_waiting")
        lst, sft = opt_real("last_state_trig_time"), opt_real("state_false_time")
        time0 = SV(z3.Const("time0", R))
        eng.assume(z3.And(lst.t > 0, sft.t > 0, time0.t > 0))
        eng.assume(z3.Implies(waiting, z3.Not(lst.none)))
        if S is None:
            eng.assume(z3.Not(waiting))
        if H is None:
            eng.assume(sft.none)
        args0 = {"trigger_type": "state", "marker": "first-event-args"}
        vars0 = {"marker": "first-event-vars"}
        if kind == "timer":
            eng.assume(waiting)
        loop_state = {"state_trig_waiting": SV(waiting), "last_state_trig_time": lst, "state_false_time": sft,
                      "state_trig_notify_info": [vars0, args0], "time0": time0, "exc": None}
        clock = c04.VClock(eng)
        # the prologue runs first (its readings are earlier phases of the clock); the loop state is arbitrary at the iteration
        it, w, expr, res, q_calls = legacy_wait_step(eng, S, H, ident, msg, loop_state=loop_state, clock=clock, timeout_fires=(kind == "timer"), mode="step")

        def W(ob, what):
            if ob.status == "refuted":
                ob.witness = {"signature": f"legacy-wait:{kind}:{what}", "subsystem": "legacy", "kind": kind, "what": what, "S_none": S is None, "H_none": H is None}
            return ob
        end = res.get("end")
        eng.cover(f"end:{end}")
        if end in ("return", "raised:UserException") and "locals" not in res:
            return   # the prologue's own evaluation raised (no loop iteration on this path)
        W(eng.oblige(f"{U}/post.the-iteration-ends-by-continue-break-or-fallthrough", end in ("continue", "break", "fallthrough")), "the-iteration-ends-by-continue-break-or-fallthrough")
        if end not in ("continue", "break", "fallthrough"):
            return
        L = res.get("locals", {})
        ret = L.get("ret")
        returns = end == "break" and L.get("exc") is None
        w1 = L.get("state_trig_waiting")
        w1t = w1.t if isinstance(w1, SV) else z3.BoolVal(bool(w1))
        _, tl1 = as_opt(L.get("last_state_trig_time"))
        nf1, tf1 = as_opt(L.get("state_false_time"))
        f0 = z3.Not(sft.none)
        t = clock.cur
        info1 = L.get("state_trig_notify_info")
        info_marker = marker(info1[1]) if isinstance(info1, list) and len(info1) == 2 else None

        # the clock phases of the iteration: readings before the wait (t_arm) and after it (t)
        if kind == "no-eval":
            W(eng.oblige(f"{U}/post.no-evaluation-input-does-not-return", end != "break"), "returned")
            W(eng.oblige(f"{U}/post.no-evaluation-input-leaves-pending-hold", z3.And(w1t == waiting, z3.Implies(waiting, tl1 == lst.t))), "pending-hold-changed")
            W(eng.oblige(f"{U}/post.no-evaluation-input-leaves-false-timer", z3.And(nf1 == sft.none, z3.Implies(f0, tf1 == sft.t))), "false-timer-changed")
            W(eng.oblige(f"{U}/post.no-evaluation-input-evaluates-nothing", "last" not in expr._fields), "evaluated")
            W(eng.oblige(f"{U}/post.no-evaluation-input-keeps-the-remembered-arguments", info_marker == "first-event-args"), "args-overwritten")
            return
        if kind == "timer":
            arms = w.events("wait_for")
            ok_arm = len(arms) == 1 and isinstance(arms[0][1], SV)
            W(eng.oblige(f"{U}/post.wait-armed-once-with-a-timeout", ok_arm), "wait-armed-once-with-a-timeout")
            if ok_arm:
                t_arm = [c for (ph, c) in clock.reads if ph == clock.phase - 1]
                if t_arm:
                    rem = lst.t + S.t - t_arm[0]
                    W(eng.oblige(f"{U}/post.wait-armed-with-the-remaining-hold-time", arms[0][1].t == z3.If(rem >= 0, rem, 0)), "wrong-timeout")
                else:
                    W(eng.oblige(f"{U}/post.wait-armed-with-the-remaining-hold-time", False), "wait-armed-with-the-remaining-hold-time")
            W(eng.oblige(f"{U}/post.timer-fires-only-when-due", t - lst.t >= S.t), "timer-fires-only-when-due")
            W(eng.oblige(f"{U}/post.hold-expiry-returns-the-first-events-arguments", returns and marker(ret) == "first-event-args"), "wrong-return")
            W(eng.oblige(f"{U}/post.timer-leaves-false-timer", z3.And(nf1 == sft.none, z3.Implies(f0, tf1 == sft.t))), "timer-leaves-false-timer")
            return
        if "last" not in expr._fields:
            W(eng.oblige(f"{U}/post.watched-change-is-evaluated", False), "watched-change-is-evaluated")
            return
        if expr._fields["last"] == "raises":
            # a failing trigger expression ends the wait with that exception (C18 / C15: raised after the clean-up)
            W(eng.oblige(f"{U}/post.expression-error-ends-the-wait-with-the-exception", end == "break" and L.get("exc") is not None), "expression-error-ends-the-wait-with-the-exception")
            return
        truth = expr._fields.get("last") == "true"
        if S is not None:
            eng.assume(z3.Implies(waiting, t - lst.t < S.t))
        q, fs1_none, fs1_t = spec_eval(truth, t, H, f0, sft.t)
        W(eng.oblige(f"{U}/post.false-timer-follows-the-automaton",
                     z3.And(nf1 == fs1_none, z3.Implies(z3.Not(fs1_none), tf1 == fs1_t) if fs1_t is not None else True)), "false-timer")
        if S is None:
            W(eng.oblige(f"{U}/post.without-hold-returns-iff-qualifies", q if returns else (z3.Not(q) if end != "break" else False)), "return-without-hold")
            if returns:
                W(eng.oblige(f"{U}/post.return-carries-this-events-arguments", marker(ret) == "this-event-args"), "return-carries-this-events-arguments")
        else:
            W(eng.oblige(f"{U}/post.with-hold-an-evaluation-never-returns-at-once", end != "break"), "returned-at-once")
            if truth:
                want_wait = z3.Or(waiting, q)
                W(eng.oblige(f"{U}/post.pending-hold-follows-the-automaton",
                             z3.And(w1t == want_wait, z3.Implies(waiting, tl1 == lst.t), z3.Implies(z3.And(z3.Not(waiting), q), tl1 == t))), "pending-hold")
                W(eng.oblige(f"{U}/post.true-evaluation-while-pending-keeps-first-arguments",
                             z3.Implies(waiting, info_marker == "first-event-args")), "args-overwritten")
                W(eng.oblige(f"{U}/post.hold-start-remembers-this-events-arguments",
                            z3.Implies(z3.And(z3.Not(waiting), q), info_marker == "this-event-args")), "hold-start-args")
            else:
                W(eng.oblige(f"{U}/post.false-evaluation-cancels-pending", z3.Not(w1t)), "pending-hold")
    return h


def h_legacy_wait_start(eng):
    U = "C05/TrigTime._wait_until#prologue"
    eng.max_steps = 3_000_000
    S, H = cfg_values(eng)
    check_now = [False, True][eng.choose(2, "state_check_now")]
    ident, msg, fa, nv = mk_eval_message(eng, True)
    clock = c04.VClock(eng)
    it, w, expr, res, q_calls = legacy_wait_step(eng, S, H, ident, msg, clock=clock, mode="start", check_now=check_now)
    end = res.get("end")
    eng.cover(f"end:{end}")
    evaluated = "last" in expr._fields
    truth = expr._fields.get("last") == "true"

    def W(ob, what):
        if ob.status == "refuted":
            ob.witness = {"signature": f"legacy-wait:start:{what}", "subsystem": "legacy", "kind": "start", "what": what, "S_none": S is None, "H_none": H is None,
                          "check_now": check_now, "truth": truth}
        return ob
    W(eng.oblige(f"{U}/post.initial-check-reads-no-queue", q_calls == []), "initial-check-reads-no-queue")
    W(eng.oblige(f"{U}/post.initial-evaluation-iff-check-now-or-hold-false", evaluated == (bool(check_now) or H is not None)), "evaluated")
    W(eng.oblige(f"{U}/post.initial-check-evaluates-at-most-once", len(w.events("expr")) <= 1), "initial-check-evaluates-at-most-once")
    if evaluated and expr._fields["last"] == "raises":
        W(eng.oblige(f"{U}/post.expression-error-at-the-call-is-raised-to-the-caller", end == "raised:UserException"), "expression-error-at-the-call-is-raised-to-the-caller")
        return
    occurs = bool(check_now) and evaluated and truth
    t = clock.cur
    if occurs and S is None:
        W(eng.oblige(f"{U}/post.returns-immediately-when-already-true", end == "return" and res.get("returned") == {"trigger_type": "state"}), "no-return-at-start")
        return
    W(eng.oblige(f"{U}/post.otherwise-the-call-starts-waiting", end == "loop-entry"), "returned-at-start")
    if end != "loop-entry":
        return
    L = res["locals_at_entry"]
    w1 = L.get("state_trig_waiting")
    w1t = w1.t if isinstance(w1, SV) else z3.BoolVal(bool(w1))
    _, tl1 = as_opt(L.get("last_state_trig_time"))
    nf1, tf1 = as_opt(L.get("state_false_time"))
    info1 = L.get("state_trig_notify_info")
    if H is not None and evaluated:
        W(eng.oblige(f"{U}/post.false-timer-initialised", nf1 if truth else z3.And(z3.Not(nf1), tf1 == t)), "false-timer")
    else:
        W(eng.oblige(f"{U}/post.false-timer-unset", nf1), "false-timer-unset")
    if occurs:
        W(eng.oblige(f"{U}/post.initial-check-starts-the-hold", z3.And(w1t, tl1 == t)), "no-hold-at-start")
        W(eng.oblige(f"{U}/post.initial-hold-remembers-trigger-type-state", isinstance(info1, list) and info1[1] == {"trigger_type": "state"}), "initial-hold-remembers-trigger-type-state")
    else:
        W(eng.oblige(f"{U}/post.no-pending-hold-otherwise", z3.Not(w1t)), "hold-at-start")


def replay_new(wj):
    from replay.native import run_native
    return run_native("c05_holds", wj, timeout=120)


def replay_wait(wj):
    """the failing input of a refuted wait_until step: searched on the grid of timed histories on the real subsystem"""
    from replay.native import run_native
    return run_native("c05_wait_holds", wj, timeout=900)


def bounded_histories(sub, depth, shard, nshards):
    def run(seed):
        from replay.native import run_native
        return run_native("c05_histories_bounded", {"subsystem": sub, "depth": depth, "shard": shard, "nshards": nshards}, timeout=1500)
    return run


def bounded_wait_until(sub, depth, shard, nshards):
    def run(seed):
        from replay.native import run_native
        return run_native("c05_wait_until_bounded", {"subsystem": sub, "depth": depth, "shard": shard, "nshards": nshards}, timeout=1500)
    return run


def harnesses():
    hs = []
    units_w = {"new": [(DS_PY, "StateTriggerDecorator._cycle"), (f"{PKG}/decorator.py", "DecoratorRegistry.wait_until")], "legacy": [(T_PY, "TrigTime.wait_until")]}
    for sub in ("new", "legacy"):
        hs.append(Harness(f"bounded.wait_until[{sub};depth<=2]", bounded_wait_until(sub, 2, 0, 1), units=units_w[sub], kind="bounded"))
        for k in range(4):
            hs.append(Harness(f"bounded.wait_until[{sub};depth<=3;shard={k + 1}/4]", bounded_wait_until(sub, 3, k, 4), units=units_w[sub], kind="bounded", tier="thorough"))
    units_b = {"new": [(DS_PY, "StateTriggerDecorator._cycle")], "legacy": [(T_PY, "TrigInfo.trigger_watch")]}
    for sub in ("new", "legacy"):
        hs.append(Harness(f"bounded.histories[{sub};depth<=2]", bounded_histories(sub, 2, 0, 1), units=units_b[sub], kind="bounded"))
        for k in range(8):
            hs.append(Harness(f"bounded.histories[{sub};depth<=4;shard={k + 1}/8]", bounded_histories(sub, 4, k, 8), units=units_b[sub], kind="bounded", tier="thorough"))
    for kind in ("eval", "no-eval", "timer"):
        hs.append(Harness(f"new.step[{kind}]", h_new(kind), units=[(DS_PY, "StateTriggerDecorator._cycle"), (DS_PY, "StateTriggerDecorator._check_new_state"),
                                                                  (DS_PY, "StateTriggerDecorator._check_state_hold")], replay=replay_new, max_paths=20000))
        hs.append(Harness(f"legacy.step[{kind}]", h_legacy(kind), units=[(T_PY, "TrigInfo.trigger_watch")], replay=replay_new, max_paths=20000))
    hs.append(Harness("new.start", h_new_start, units=[(DS_PY, "StateTriggerDecorator._cycle"), (DS_PY, "StateTriggerDecorator._check_new_state")],
                      replay=replay_new, max_paths=20000))
    hs.append(Harness("legacy.start", h_legacy_start, units=[(T_PY, "TrigInfo.trigger_watch")], replay=replay_new, max_paths=20000))
    for kind in ("eval", "no-eval", "timer"):
        hs.append(Harness(f"legacy.wait_until.step[{kind}]", h_legacy_wait(kind), units=[(T_PY, "TrigTime._wait_until")], replay=replay_wait, max_paths=20000))
    hs.append(Harness("legacy.wait_until.start", h_legacy_wait_start, units=[(T_PY, "TrigTime._wait_until")], replay=replay_wait, max_paths=20000))
    return hs

"""C18 - script errors are contained and attributed to the right file, function, line.

Proved: at every user-code entry point an exception raised by user code is logged exactly once on the evaluator
bound to the script (ast_ctx.log_exception) and does not escape; the enclosing machinery continues.
Bounded stand-in: file / function / line attribution of EvalExceptionFormatter against CPython's own traceback."""
from __future__ import annotations

import z3

from pyvc.framework import Harness
from pyvc.interp import Raised, Coro, exc
from pyvc.loader import Module
from pyvc.stmts import Interpreter, PyModule
from pyvc.values import Rec, ClassRec, SV, USort
from .common import A_LOG, PKG, logger_stub, run_catching, World
from . import C08 as c08
from . import C09 as c09

PROPERTY = "C18"
T_PY = f"{PKG}/trigger.py"
D_PY = f"{PKG}/decorator.py"
DB_PY = f"{PKG}/decorators/base.py"
GC_PY = f"{PKG}/global_ctx.py"
E_PY = f"{PKG}/eval.py"
ObjS = USort("Obj")

ASSUMPTIONS = [
    A_LOG,
    "user code (function body, expression, callback) is modelled as 'may raise any Exception'; CancelledError is "
    "allowed to escape (task cancellation)",
    "AstEval.log_exception(exc) reports exc on the script's logger with the reconstructed traceback (its formatting "
    "is the bounded stand-in below)",
]
NOT_DECIDED = ["file / function / line in reconstructed tracebacks: CPython frame introspection is outside the "
               "contract language (bounded stand-in only)"]
SHAPE_BOUNDS = {}
LEVEL_TEXT = ("Proof of the exceptional postconditions of the user-code entry points (both subsystems): exactly one "
              "log_exception on the right evaluator, nothing escapes, the surrounding loop/step continues. Traceback "
              "line attribution is a bounded stand-in (generated programs vs CPython), never counted as proved.")


def mk_logging_ctx(w, name):
    r = Rec(fields={"name": name}, name=name)
    r._fields["log_exception"] = lambda i, e: w.emit("log_exception", r, e)
    return r


def h_call_expression(eng):
    it = Interpreter(eng)
    w = World(eng)
    mod, Fn = c09.trig_module(eng, it, w)
    U = "C18/TrigInfo._call_expression"
    expr = mk_logging_ctx(w, "expr_ast_ctx")
    result = SV(z3.Const("expr_value", ObjS))

    # any Exception class, the builtin TimeoutError (= asyncio.TimeoutError) and KeyError included (round-4 seed C18-6 made the
    # new subsystem let TimeoutError through; the legacy copy gets the same quantifier)
    classes = ["UserException", "TimeoutError", "KeyError"]
    raised_cls = [None]

    def ev(i, info):
        def th():
            if eng.choose(2, "expr-raises") == 0:
                raised_cls[0] = classes[eng.choose(len(classes), "exception-class")]
                raise exc(raised_cls[0], "bad expression")
            return result
        return Coro(th, "expr.eval")
    expr._fields["eval"] = ev
    ti = Rec(cls=mod.env.vars["TrigInfo"], fields={"name": "file.x.f"}, name="TrigInfo")
    k, v = run_catching(it, lambda: it.await_(it.call(it.getattr_(ti, "_call_expression"), [expr, {"a": 1}], {})))
    eng.cover("ran")
    raised = any(p == "expr-raises=0" for p in eng.path_log)
    eng.oblige(f"{U}/post.nothing-escapes", k == "ok")
    eng.oblige(f"{U}/post.error-logged-once-on-the-expression-evaluator-and-treated-as-false",
               (len(w.events("log_exception")) == 1 and w.events("log_exception")[0][1] is expr and v is False) if raised
               else (len(w.events("log_exception")) == 0 and v is result))


def h_legacy_action(eng):
    """do_func_call inside TrigInfo.call_action: a raising user function is logged on the run's evaluator."""
    it = Interpreter(eng)
    w = World(eng)
    tmod, Fn = c09.trig_module(eng, it, w)
    created, tasks = [], []

    def AstEval(i, name, gctx, *a, **k):
        r = mk_logging_ctx(w, "action_ast_ctx")
        created.append(r)
        return r
    Fn._fields.update({"create_task": lambda i, coro, ast_ctx=None: (tasks.append(coro), Rec(name="task"))[1],
                       "store_hass_context": lambda i, c: None, "task_done_callback_ctx": lambda i, t, a: None,
                       "task_unique_factory": lambda i, a: None, "unique_name_used": lambda i, a, n: False,
                       "hass": Rec(fields={"bus": Rec(fields={"async_fire": lambda i, *a, **k: None})})})
    tmod.env.vars["AstEval"] = AstEval
    c08.CONTEXT_CLS_CTOR(None)
    tmod.env.vars["Context"] = c08.CONTEXT_CLS
    U = "C18/TrigInfo.call_action.do_func_call"
    action = Rec(fields={"global_ctx_name": "file.x", "name": "f", "global_ctx": Rec(name="gctx")}, name="action")
    ti = Rec(cls=tmod.env.vars["TrigInfo"], fields={"name": "file.x.f", "action": action, "task_unique": None,
                                                    "task_unique_kwargs": None}, name="TrigInfo")
    it.call(it.getattr_(ti, "call_action"), ["state", {"trigger_type": "state"}], {})
    cancelled = bool(eng.choose(2, "cancelled"))

    def call_func(i, func, name, *a, **kw):
        def th():
            if cancelled:
                raise exc("CancelledError")
            raise exc("UserException", "boom")
        return Coro(th, "call_func")
    created[0]._fields["call_func"] = call_func
    k, v = run_catching(it, lambda: it.await_(tasks[0]))
    eng.cover("ran")
    logs = w.events("log_exception")
    if cancelled:
        eng.oblige(f"{U}/post.cancellation-propagates-unlogged", k == "exc" and v.cls.name == "CancelledError" and logs == [])
    else:
        eng.oblige(f"{U}/post.user-error-logged-once-on-the-runs-evaluator-and-contained",
                   k == "ok" and len(logs) == 1 and logs[0][1] is created[0])


def h_new_call(eng):
    """FunctionDecoratorManager._call: a raising user function is reported once on the script's evaluator and does
    not reach run_coro (which would only log a one-line message on pyscript's own logger)."""
    it = Interpreter(eng)
    w = World(eng)
    amod, bmod, M, hass, live = c09.dec_env(eng, it, w)
    fmod, Fn, tasks, created = c08.fdm_module(eng, it, w, amod)
    FDM = fmod.env.vars["FunctionDecoratorManager"]
    U = "C18/FunctionDecoratorManager._call"
    eval_func = Rec(fields={"global_ctx_name": "file.x", "name": "f", "global_ctx": Rec(name="gctx"), "logger": logger_stub()}, name="eval_func")
    def_ctx = mk_logging_ctx(w, "defining_ast_ctx")
    dm = Rec(cls=FDM, fields={"hass": hass, "status": M["RUNNING"], "name": "file.x.f", "logger": logger_stub(),
                              "eval_func": eval_func, "_decorators": [], "ast_ctx": def_ctx}, name="dm")
    call_ctx = mk_logging_ctx(w, "call_ast_ctx")
    cancelled = bool(eng.choose(2, "cancelled"))

    def call_func(i, func, name, *a, **kw):
        def th():
            if cancelled:
                raise exc("CancelledError")
            raise exc("UserException", "boom")
        return Coro(th, "call_func")
    call_ctx._fields["call_func"] = call_func
    data = it.call(amod.env.vars["DispatchData"], [{"trigger_type": "state"}], {})
    data._fields["call_ast_ctx"] = call_ctx
    data._fields["hass_context"] = Rec(name="hass_context")
    k, v = run_catching(it, lambda: it.await_(it.call(it.getattr_(dm, "_call"), [data], {})))
    eng.cover("ran")
    logs = w.events("log_exception")
    if cancelled:
        eng.oblige(f"{U}/post.cancellation-propagates-unlogged", k == "exc" and v.cls.name == "CancelledError" and logs == [])
        return
    ob = eng.oblige(f"{U}/post.user-error-logged-once-on-a-script-evaluator-and-contained",
                    k == "ok" and len(logs) == 1 and logs[0][1] in (call_ctx, def_ctx))
    if ob.status == "refuted":
        ob.witness = {"signature": "user-function-error-escapes-to-run_coro"}


def replay_new_call(wj):
    from replay.native import run_native
    return run_native("c18_new_subsystem_function_error", wj)


def replay_expression_error(wj):
    from replay.native import run_native
    return run_native("c18_expression_error", wj, timeout=120)


def h_check_expression(eng):
    it = Interpreter(eng)
    w = World(eng)
    amod, bmod, M, hass, live = c09.dec_env(eng, it, w)
    U = "C18/ExpressionDecorator.check_expression_vars"
    handled = []
    dm = Rec(fields={"handle_exception": lambda i, e: Coro(lambda: handled.append(e), "handle_exception"), "name": "file.x.f"}, name="dm")
    result = SV(z3.Const("expr_value", ObjS))

    # what evaluating a user's expression may do: give a value, raise any Exception - the builtin TimeoutError (which
    # asyncio.TimeoutError IS since Python 3.11) and KeyError included - or be cancelled (BaseException: not a script error)
    outcomes = ["value", "UserException", "TimeoutError", "KeyError", "CancelledError"]
    outcome = outcomes[eng.choose(len(outcomes), "expr")]

    def ev(i, vars_):
        def th():
            if outcome != "value":
                raise exc(outcome, "bad")
            return result
        return Coro(th, "eval")
    from pyvc.interp import EXC
    if "asyncio" not in bmod.env.vars or not isinstance(bmod.env.vars.get("asyncio"), PyModule):
        bmod.env.vars["asyncio"] = PyModule("asyncio", {"CancelledError": EXC["CancelledError"], "TimeoutError": EXC["TimeoutError"]})
    dec = Rec(cls=bmod.env.vars["ExpressionDecorator"], fields={"dm": dm, "_ast_expression": Rec(fields={"eval": ev}), "name": "state_active"}, name="dec")
    k, v = run_catching(it, lambda: it.await_(it.call(it.getattr_(dec, "check_expression_vars"), [{"x": 1}], {})))
    eng.cover(f"ran:{outcome}")
    if outcome == "CancelledError":
        eng.oblige(f"{U}/post.cancellation-propagates-unreported", k == "exc" and v.cls.name == "CancelledError" and handled == [])
    else:
        raised = outcome != "value"
        ob = eng.oblige(f"{U}/post.error-reported-once-via-the-manager-and-treated-as-false",
                        k == "ok" and ((len(handled) == 1 and v is False) if raised else (handled == [] and v is result)))
        if ob.status == "refuted":
            ob.witness = {"signature": f"expression-error-escapes:{outcome}", "exception": outcome}
    # DecoratorManager.handle_exception logs on the defining evaluator
    ctx = mk_logging_ctx(w, "dm_ast_ctx")
    dm2 = Rec(cls=amod.env.vars["DecoratorManager"], fields={"ast_ctx": ctx}, name="dm2")
    e = exc("UserException").exc
    it.await_(it.call(it.getattr_(dm2, "handle_exception"), [e], {}))
    eng.oblige("C18/DecoratorManager.handle_exception/post.logs-once-on-the-script-evaluator",
               [x[1:] for x in w.events("log_exception")] == [(ctx, e)])


def h_load_file(eng):
    """GlobalContextMgr.load_file: a load-time error stops the new context, is logged once on its evaluator, is
    re-raised to the caller (which skips this file only) and the context is NOT registered."""
    it = Interpreter(eng)
    w = World(eng)
    created = []

    def AstEval(i, name, gctx):
        r = mk_logging_ctx(w, "load_ast_ctx")
        fail = ["parse", "eval", "none"][eng.choose(3, "fails-at")]
        r._fields["parse"] = lambda i2, src, filename=None: (_ for _ in ()).throw(exc("SyntaxError", "bad")) if fail == "parse" else None

        def ev(i2):
            def th():
                if fail == "eval":
                    raise exc("UserException", "boom at load")
            return Coro(th, "eval")
        r._fields["eval"] = ev
        r._fields["fail"] = fail
        created.append(r)
        return r
    contexts = {}
    stubs = {"_LOGGER": logger_stub(), "AstEval": AstEval, "Function": Rec(fields={"install_ast_funcs": lambda i, a: None,
             "hass": Rec(name="hass")}), "logging": PyModule("logging", {"getLogger": lambda i, n: logger_stub()}), "LOGGER_PATH": "x"}
    mod = Module(it, GC_PY, stubs=stubs, class_state={"GlobalContextMgr": {"contexts": contexts}})
    Mgr = mod.env.vars["GlobalContextMgr"]
    U = "C18/GlobalContextMgr.load_file"
    stopped = []
    g = Rec(fields={"get_name": lambda i: "file.bad", "source": None, "file_path": None, "mtime": None}, name="new_global_ctx")
    g._fields["stop"] = lambda i: stopped.append(g)
    other = Rec(fields={"get_name": lambda i: "file.other"}, name="other_ctx")
    contexts["file.other"] = other
    k, v = run_catching(it, lambda: it.await_(it.call(it.getattr_(Mgr, "load_file"), [g, "/p/bad.py"], {"source": "src"})))
    eng.cover("ran")
    fail = created[0]._fields["fail"]
    logs = w.events("log_exception")
    if fail == "none":
        eng.oblige(f"{U}/post.loaded-context-registered", k == "ok" and contexts.get("file.bad") is g and logs == [] and stopped == [])
    else:
        eng.oblige(f"{U}/post.load-error-logged-once-and-reraised", k == "exc" and len(logs) == 1 and logs[0][1] is created[0])
        eng.oblige(f"{U}/post.failed-file-is-not-registered-and-its-triggers-are-stopped", "file.bad" not in contexts and stopped == [g])
    eng.oblige(f"{U}/frame.other-contexts-untouched", contexts.get("file.other") is other)


def b_traceback(seed):
    from replay.native import run_native
    return run_native("c18_traceback_bounded", {"seed": seed}, timeout=900)


def harnesses():
    return [
        Harness("TrigInfo._call_expression", h_call_expression, units=[(T_PY, "TrigInfo._call_expression")]),
        Harness("TrigInfo.call_action.do_func_call", h_legacy_action, units=[(T_PY, "TrigInfo.call_action")]),
        Harness("FunctionDecoratorManager._call", h_new_call, units=[(D_PY, "FunctionDecoratorManager._call")], replay=replay_new_call),
        Harness("check_expression_vars", h_check_expression, replay=replay_expression_error, units=[(DB_PY, "ExpressionDecorator.check_expression_vars"),
                                                                  (f"{PKG}/decorator_abc.py", "DecoratorManager.handle_exception")]),
        Harness("GlobalContextMgr.load_file", h_load_file, units=[(GC_PY, "GlobalContextMgr.load_file")]),
        Harness("traceback-attribution", b_traceback, units=[(E_PY, "EvalExceptionFormatter")], kind="bounded"),
    ]

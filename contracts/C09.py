"""C09 - triggers live exactly as long as their function and leave nothing behind.

Contract-level reading: subscription tables are abstract relations; every *start* has an inverse *stop* that
restores the abstract state; every owner of started things stops all of them.
"""
from __future__ import annotations

import itertools

import z3

from pyvc.framework import Harness
from .common import *  # noqa
from .tables import *  # noqa

PROPERTY = "C09"
T_PY = f"{PKG}/trigger.py"
DA_PY = f"{PKG}/decorator_abc.py"
GC_PY = f"{PKG}/global_ctx.py"
DS_PY = f"{PKG}/decorators/state.py"
DE_PY = f"{PKG}/decorators/event.py"

ASSUMPTIONS = [
    A_LOG, A_NOALIAS, A_COOP,
    "hass.bus.async_listen(type, cb) installs one listener and returns a remover that removes exactly it (ghost "
    "listener count per type); mqtt.async_subscribe likewise, and it suspends (yield point, cancellable); "
    "webhook.async_register / async_unregister add / remove one handler per webhook id",
    "the remover found in notify_remove[t] is the one notify_add stored there (mutator closure: no other writer)",
    "A-GC (not decided): CPython runs EvalFuncVar.__del__ / weakref.finalize when the last reference to a function "
    "disappears; the checks start from the call of trigger_stop / DecoratorManager.stop",
    "A-REAPER (liveness, not decided): a task handed to Function.reaper_cancel ends",
]
NOT_DECIDED = ["deactivation *when the last reference disappears* (CPython reference counting / weakref.finalize)",
               "the cancelled trigger task has ended (reaper liveness)"]
SHAPE_BOUNDS = {"names in one State.notify_add / notify_del call": "<= 3, every iteration order and every "
                "coincidence pattern of entities", "decorators per DecoratorManager": "<= 3"}
LEVEL_TEXT = ("Proof. Event/Mqtt/Webhook notify_add / notify_del are verified unbounded (all table states) against "
              "inverse-pair contracts with the listener invariant I_listen; State.notify_add / notify_del for all "
              "table states and all names, shape-bounded to <= 3 names per call (every order / coincidence); "
              "owners (TrigInfo.stop, DecoratorManager.start rollback and stop, GlobalContext.stop) are checked "
              "against the callee contracts: everything started is stopped exactly once.")


# ----------------------------------------------------------------------------------------------------------
# State.notify_add / notify_del
# ----------------------------------------------------------------------------------------------------------
def h_state_pair(n):
    def h(eng):
        it = Interpreter(eng)
        w = World(eng)
        st = StateTable(eng, it, w)
        U = "C09/State"
        q = z3.Const("q", QueueS)
        names = mk_names(eng, n)
        var_names = NamesSet(names, z3.Const("names_obj", ObjS))
        N0 = st.notify.snapshot()
        eng.assume(st.I_fresh())
        kind, val = run_catching(it, lambda: it.await_(it.call(it.getattr_(st.cls, "notify_add"), [var_names, SV(q)], {})))
        eng.cover(f"add:{kind}")
        eng.oblige(f"{U}.notify_add/post.no-exception", kind == "ok")
        if kind != "ok":
            return
        eng.oblige(f"{U}.notify_add/inv.remembered-values-belong-to-watched-entities", st.I_fresh())
        # post of notify_add: subscribed to the entity of every valid name; returns whether any was valid
        for nm in names:
            eng.oblige(f"{U}.notify_add/post.subscribed-to-entity-of-each-valid-name",
                       z3.Implies(valid_name(nm.t), st.has_now(entity_of(nm.t), q)))
        anyvalid = z3.Or(*[valid_name(nm.t) for nm in names]) if names else z3.BoolVal(False)
        eng.oblige(f"{U}.notify_add/post.returns-whether-anything-was-watched", it.eq(val, SV(anyvalid)) if not isinstance(val, bool) else (anyvalid == val))
        eng.oblige(f"{U}.notify_add/frame.other-queues-untouched", st.frame_other_queues(N0, q))
        eng.oblige(f"{U}.notify_add/frame.other-entities-untouched", Forall([NameS], lambda e: z3.Implies(
            z3.Not(z3.Or(*[z3.And(valid_name(nm.t), entity_of(nm.t) == e) for nm in names])) if names else z3.BoolVal(True),
            st.has_now(e, q) == st.has(N0, e, q)), "e"))
        N1 = st.notify.snapshot()
        # inverse: notify_del with the same arguments releases everything notify_add created
        kind2, val2 = run_catching(it, lambda: it.call(it.getattr_(st.cls, "notify_del"), [var_names, SV(q)], {}))
        eng.oblige(f"{U}.notify_del/post.no-exception", kind2 == "ok")

        def wit(ob):
            m = ob._z3model
            ev = lambda t: m.eval(t, model_completion=True)
            ents, nps, ids = [], [], []
            canon_e, canon_n = {}, {}
            for nm in names:
                ents.append(canon_e.setdefault(str(ev(entity_of(nm.t))), len(canon_e)))
                nps.append(ev(nparts(nm.t)).as_long())
                ids.append(canon_n.setdefault(str(ev(nm.t)), len(canon_n)))
            orders = [int(p.split("=")[1]) for p in eng.path_log if p.startswith("order=")]
            distinct = sorted(set(ids), key=ids.index)
            perms = list(itertools.permutations(range(len(distinct))))
            del_order = list(perms[orders[-1] % len(perms)]) if orders else list(range(len(distinct)))
            return {"signature": "stops-at-first-already-removed-entity", "entity_of_name": ents, "nparts": nps,
                    "name_identity": ids, "del_iteration_order": del_order}

        for nm in names:
            ob = eng.oblige(f"{U}.notify_del/post.unsubscribed-from-entity-of-each-valid-name",
                            z3.Implies(valid_name(nm.t), z3.Not(st.has_now(entity_of(nm.t), q))))
            if ob.status == "refuted":
                ob.witness = wit(ob)
        ob = eng.oblige(f"{U}.notify_del/inv.remembered-values-belong-to-watched-entities", st.I_fresh())
        if ob.status == "refuted":
            ob.witness = {"signature": "remembered-value-outlives-its-notify-entry", "what": "stale-last"}
        eng.oblige(f"{U}.notify_del/frame.other-queues-untouched", st.frame_other_queues(N1, q))
        eng.oblige(f"{U}.notify_del/frame.other-entities-untouched", Forall([NameS], lambda e: z3.Implies(
            z3.Not(z3.Or(*[z3.And(valid_name(nm.t), entity_of(nm.t) == e) for nm in names])) if names else z3.BoolVal(True),
            st.has_now(e, q) == st.has(N1, e, q)), "e"))
        if names:
            eng.oblige(f"{U}.notify_del/canary.unsubscribed", z3.Not(z3.And(valid_name(names[0].t), z3.Not(st.has_now(entity_of(names[0].t), q)))), kind="canary")
    return h


def replay_notify_del(w):
    from replay.native import run_native
    if w.get("what") == "stale-last":
        return run_native("c09_state_stale_last", w)
    return run_native("c09_state_notify_del", w)


# ----------------------------------------------------------------------------------------------------------
# Event / Mqtt / Webhook notify_add / notify_del
# ----------------------------------------------------------------------------------------------------------
def h_listen_add(kind):
    def h(eng):
        it = Interpreter(eng)
        w = World(eng)
        tb = ListenTable(eng, it, w, kind)
        U = f"C09/{kind}.notify_add"
        snap0 = tb.snapshot()
        eng.assume(tb.I_listen(snap0))
        w.shared = [tb.notify, tb.remove, tb.listeners]
        w.invariants = [lambda: [tb.I_listen()]]
        w.inv_name = f"C09/{kind}.notify_add/I_listen"
        w.yield_witness = {"signature": "table-entry-without-listener-while-subscribing", "mode": "cancel"}
        t, q = z3.Const("t", EvTypeS), z3.Const("q", QueueS)
        args = {"Event": [SV(t), SV(q)], "Mqtt": [SV(t), SV(q)],
                "Webhook": [SV(t), SV(z3.Bool("local_only")), SV(z3.Const("methods", ObjS)), SV(q)]}[kind]
        kind_, val = run_catching(it, lambda: it.await_if_coro(it.call(it.getattr_(tb.cls, "notify_add"), args, {})))
        yielded = w.count("yield") > 0
        eng.cover(f"exit:{kind_}:{yielded}")
        ob = eng.oblige(f"{U}/post.I_listen", tb.I_listen())
        if ob.status == "refuted" and w.count(f"{kind}.register-refused") > 0:
            ob.witness = {"signature": "table-entry-after-refused-registration"}
        if ob.status == "refuted" and yielded:
            ob.witness = {"signature": "table-entry-without-listener-after-cancelled-subscribe", "mode": "cancel"}
            try:
                n_after = ob._z3model.eval(tb.count(t), model_completion=True).as_long()
            except Exception:  # noqa
                n_after = None
            listed = getattr(tb, "entry_listed_when_suspended", None)
            try:
                listed = None if listed is None else z3.is_true(ob._z3model.eval(listed, model_completion=True))
            except Exception:  # noqa
                listed = None
            if n_after is not None and n_after >= 2 and listed is False:
                # another subscriber set the topic up while this one was suspended, and this one subscribed again
                ob.witness = {"signature": "second-listener-for-a-topic-subscribed-meanwhile", "mode": "two-subscribers"}
        if kind_ == "exc" and w.count(f"{kind}.register-refused") > 0:
            # the dependency refused the registration: its error goes to the caller, and (post.I_listen above) the table lists
            # nothing that has no listener - otherwise a later subscriber of the same id is never registered and its removal fails
            ob2 = eng.oblige(f"{U}/post.refused-registration-propagates", val.cls.name == "ValueError")
            return
        if kind_ == "exc":
            ob = eng.oblige(f"{U}/post.only-cancellation-escapes", val.cls.name == "CancelledError" and yielded)
            if ob.status == "refuted" and yielded:
                ob.witness = {"signature": "keyerror-after-concurrent-add-del-during-subscribe", "mode": "concurrent",
                              "exception": val.cls.name}
            return
        eng.oblige(f"{U}/post.subscribed", tb.subscribed(t, q))
        if not yielded:
            for i, f in enumerate(tb.frame_others(snap0, t, q)):
                eng.oblige(f"{U}/frame.{i}", f)
            first = z3.Not(z3.Select(snap0[0]["dom"], t))
            n_listen = w.count(f"{kind}.listen")
            eng.oblige(f"{U}/post.listener-installed-iff-first-subscriber",
                       first == (n_listen == 1) if n_listen <= 1 else False)
        eng.oblige(f"{U}/canary.subscribed", z3.Not(tb.subscribed(t, q)), kind="canary")
    return h


def h_listen_del(kind):
    def h(eng):
        it = Interpreter(eng)
        w = World(eng)
        tb = ListenTable(eng, it, w, kind)
        U = f"C09/{kind}.notify_del"
        snap0 = tb.snapshot()
        eng.assume(tb.I_listen(snap0))
        t, q = z3.Const("t", EvTypeS), z3.Const("q", QueueS)
        kind_, val = run_catching(it, lambda: it.call(it.getattr_(tb.cls, "notify_del"), [SV(t), SV(q)], {}))
        eng.cover(f"exit:{kind_}")
        eng.oblige(f"{U}/post.no-exception", kind_ == "ok")
        eng.oblige(f"{U}/post.I_listen", tb.I_listen())
        eng.oblige(f"{U}/post.unsubscribed", z3.Not(tb.subscribed(t, q)))
        for i, f in enumerate(tb.frame_others(snap0, t, q)):
            eng.oblige(f"{U}/frame.{i}", f)
        # the remover is called exactly when the last queue of the type leaves
        n_un = w.count(f"{kind}.unlisten")
        was = tb.subscribed(t, q, snap0)
        others = z3.Store(z3.Select(snap0[0][".in"], t), q, z3.BoolVal(False)) != z3.K(QueueS, z3.BoolVal(False))
        eng.oblige(f"{U}/post.listener-removed-iff-last-subscriber",
                   (z3.And(was, z3.Not(others)) == (n_un == 1)) if n_un <= 1 else False)
        eng.oblige(f"{U}/canary.unsubscribed", tb.subscribed(t, q, snap0) == tb.subscribed(t, q), kind="canary")
    return h


def replay_mqtt_window(w):
    from replay.native import run_native
    if w.get("signature") == "table-entry-after-refused-registration":
        return run_native("c09_webhook_id_taken", w)
    return run_native("c09_mqtt_subscribe_window", w)


def harnesses():
    hs = []
    import math
    for n in (1, 2, 3):
        # one job per (iteration order in notify_add, iteration order in notify_del); when names coincide the set is
        # smaller and the forced index is reduced modulo the number of orders
        for oa in range(math.factorial(n)):
            for od in range(math.factorial(n)):
                hs.append(Harness(f"State.notify_add+del[{n};add-order={oa};del-order={od}]", h_state_pair(n),
                                  units=[(ST_PY, "State.notify_add"), (ST_PY, "State.notify_del")],
                                  replay=replay_notify_del, max_paths=20000, forced={"order": [oa, od]}))
    for kind, path in (("Event", EV_PY), ("Mqtt", MQ_PY), ("Webhook", WH_PY)):
        hs.append(Harness(f"{kind}.notify_add", h_listen_add(kind), units=[(path, f"{kind}.notify_add")],
                          replay=replay_mqtt_window if kind in ("Mqtt", "Webhook") else None))
        hs.append(Harness(f"{kind}.notify_del", h_listen_del(kind), units=[(path, f"{kind}.notify_del")]))
    hs.append(Harness("TrigInfo.stop", h_trig_stop, units=[(T_PY, "TrigInfo.stop")]))
    hs.append(Harness("TrigInfo.trigger_watch#prologue", h_trig_prologue, units=[(T_PY, "TrigInfo.trigger_watch")]))
    for n in (0, 1, 2, 3):
        hs.append(Harness(f"DecoratorManager.start[{n}]", h_dm_start(n), units=[(DA_PY, "DecoratorManager.start"), (DA_PY, "DecoratorManager._stop_decorator"), (DA_PY, "DecoratorManager.update_status")]))
        hs.append(Harness(f"DecoratorManager.stop[{n}]", h_dm_stop(n), units=[(DA_PY, "DecoratorManager.stop"), (DA_PY, "DecoratorManager._stop_decorator"), (DA_PY, "DecoratorManager.update_status")]))
        if n:
            hs.append(Harness(f"DecoratorManager.start||stop[{n}]", h_dm_start_stopped_meanwhile(n), replay=replay_dm_interleaved,
                              units=[(DA_PY, "DecoratorManager.start"), (DA_PY, "DecoratorManager.stop"), (DA_PY, "DecoratorManager.update_status")]))
    for nf, nd in ((0, 0), (1, 1), (2, 2)):
        hs.append(Harness(f"GlobalContext.stop[{nf},{nd}]", h_gc_stop(nf, nd), units=[(GC_PY, "GlobalContext.stop")]))
    for nt in (0, 2):
        for ws in (False, True):
            hs.append(Harness(f"EvalFunc.trigger_stop[{nt};service={ws}]", h_evalfunc_trigger_stop(nt, ws), replay=replay_stop_twice,
                              units=[(f"{PKG}/eval.py", "EvalFunc.trigger_stop"), (f"{PKG}/eval.py", "EvalFunc.trigger_start")]))
    for n in (1, 2):
        hs.append(Harness(f"FunctionDecoratorManager.finalizer[{n}]", h_fdm_dropped(n), replay=replay_dropped,
                          units=[(D_PY, "FunctionDecoratorManager.__init__"), (DA_PY, "DecoratorManager.start"), (DA_PY, "DecoratorManager.stop"), (DA_PY, "DecoratorManager.update_status")]))
    hs.append(Harness("GlobalContext.trigger_register", h_gc_register,
                      units=[(GC_PY, "GlobalContext.trigger_register"), (GC_PY, "GlobalContext.start")]))
    hs.append(Harness("GlobalContext.create_decorator_manager", h_gc_create_dm,
                      units=[(GC_PY, "GlobalContext.create_decorator_manager")]))
    hs.append(Harness("EventTriggerDecorator.start+stop", h_event_dec,
                      units=[(DE_PY, "EventTriggerDecorator.start"), (DE_PY, "EventTriggerDecorator.stop")]))
    hs.append(Harness("StateTriggerDecorator.start+stop", h_state_dec,
                      units=[(DS_PY, "StateTriggerDecorator.start"), (DS_PY, "StateTriggerDecorator.stop")]))
    hs.append(Harness("TimeTriggerDecorator.start+stop", h_time_dec,
                      units=[(DT_PY, "TimeTriggerDecorator.start"), (DT_PY, "TimeTriggerDecorator.stop")]))
    hs.append(mutator_closure_harness("C09", "subscription-tables",
                                      {"notify": {"cls", "State", "Event", "Mqtt", "Webhook"},
                                       "notify_remove": {"cls", "Event", "Mqtt", "Webhook"}},
                                      {f"{c}.{m}" for c in ("State", "Event", "Mqtt", "Webhook") for m in ("notify_add", "notify_del")}))
    return hs


# ----------------------------------------------------------------------------------------------------------
# owners, legacy subsystem: TrigInfo.trigger_watch prologue / TrigInfo.stop
# ----------------------------------------------------------------------------------------------------------
def trig_module(eng, it, w, notify_add_suspends=True):
    """trigger.py with the callee contracts of the four tables as ghost effects ('sub' / 'unsub' events)."""
    def mk_table(kind, add_async):
        def notify_add(i, key, *rest, **kw):
            q = rest[-1] if kind != "Mqtt" else rest[0]

            def body():
                if kind == "Mqtt":
                    # contract of Mqtt.notify_add: suspends (cancellable) before the subscription exists
                    w.yield_point("Mqtt.notify_add", cancellable=True)
                w.emit("sub", kind, key, q)
                return True
            return Coro(body, f"{kind}.notify_add") if add_async else body()

        def notify_del(i, key, q):
            w.emit("unsub", kind, key, q)
        return Rec(fields={"notify_add": notify_add, "notify_del": notify_del,
                           "notify_var_get": lambda i, names, nv: dict(nv)}, name=kind)

    Fn = Rec(fields={
        "reaper_cancel": lambda i, t: w.emit("reap", t),
        "create_task": lambda i, coro, ast_ctx=None: (w.emit("create_task", coro), SV(eng.fresh("task", TaskS)))[1],
        "waiter_await": lambda i, coro: w.emit("waiter_await", coro),
        "install_ast_funcs": lambda i, a: None,
        "task_done_callback_ctx": lambda i, t, a: None,
    }, name="Function")
    stubs = {"_LOGGER": logger_stub(), "State": mk_table("State", True), "Event": mk_table("Event", False),
             "Mqtt": mk_table("Mqtt", True), "Webhook": mk_table("Webhook", False), "Function": Fn,
             "asyncio": PyModule("asyncio", {"CancelledError": EXC["CancelledError"], "TimeoutError": EXC["TimeoutError"]}),
             "dt_now": lambda i: SV(eng.fresh("now", z3.RealSort())),
             "time": PyModule("time", {"monotonic": lambda i: SV(eng.fresh("mono", z3.RealSort()))})}
    mod = Module(it, T_PY, stubs=stubs)
    return mod, Fn


def mk_triginfo(eng, it, mod, cfg, task):
    """A TrigInfo record in the state __init__ leaves it (fields set directly; __init__ itself is C04/C06 scope)."""
    q = z3.Const("notify_q", QueueS)
    names = NamesSet(mk_names(eng, 2, "ident"), z3.Const("ident_obj", ObjS))

    def get_names(i):
        return Coro(lambda: NamesSet(list(names), names.t), "get_names")

    fields = {
        "name": "file.x.f", "task": task, "notify_q": SV(q), "setup_ok": True,
        "state_trigger": ["expr"] if cfg["state"] else None, "state_user_watch": None,
        "state_trig_eval": Rec(fields={"get_names": get_names}, name="state_trig_eval") if cfg["state"] else None,
        "state_trig_ident": None, "state_trig_ident_any": SymPySet(), "active_expr": None,
        "state_active_ident": None,
        "event_trigger": [SV(z3.Const("evtype", EvTypeS))] if cfg["event"] else None,
        "mqtt_trigger": [SV(z3.Const("topic", EvTypeS))] if cfg["mqtt"] else None, "mqtt_trigger_encoding": None,
        "webhook_trigger": [SV(z3.Const("hookid", EvTypeS))] if cfg["webhook"] else None,
        "webhook_local_only": True, "webhook_methods": SymPySet(["POST"]),
        "state_check_now": False, "state_hold_false": None, "run_on_startup": False,
        "run_on_shutdown": cfg.get("shutdown", False), "time_trigger": None, "time_trigger_kwargs": {},
    }
    return Rec(cls=mod.env.vars["TrigInfo"], fields=fields, name="TrigInfo"), q, names


def held_subscriptions(w):
    """Multiset of subscriptions currently held according to the ghost trace."""
    held = []
    for e in w.trace:
        if e[0] == "sub":
            held.append((e[1], e[2], e[3]))
        elif e[0] == "unsub":
            for k, h in enumerate(held):
                if h[0] == e[1] and h[1] is e[2] or (h[0] == e[1] and _same(h[1], e[2])):
                    del held[k]
                    break
    return held


def _same(a, b):
    if a is b:
        return True
    if isinstance(a, SV) and isinstance(b, SV):
        return a.t.eq(b.t)
    if hasattr(a, "t") and hasattr(b, "t"):
        return a.t.eq(b.t)
    return False


CFGS = [dict(state=s, event=e, mqtt=m, webhook=wh) for s in (0, 1) for e in (0, 1) for m in (0, 1) for wh in (0, 1)]


def h_trig_stop(eng):
    """TrigInfo.stop releases one subscription per configured trigger kind, cancels the task once, and starts the
    shutdown run exactly once per stop."""
    it = Interpreter(eng)
    w = World(eng)
    mod, Fn = trig_module(eng, it, w)
    cfg = dict(CFGS[eng.choose(len(CFGS), "cfg")])
    cfg["shutdown"] = bool(eng.choose(2, "shutdown"))
    running = bool(eng.choose(2, "running"))
    task = SV(z3.Const("trigger_task", TaskS)) if running else None
    ti, q, names = mk_triginfo(eng, it, mod, cfg, task)
    if cfg["state"]:
        ti._fields["state_trig_ident"] = names
    ti._fields["call_action"] = lambda i, nt, ni, run_task=True: (w.emit("call_action", nt, dict(ni), run_task), "action-coro")[1]
    U = "C09/TrigInfo.stop"
    kind, val = run_catching(it, lambda: it.call(it.getattr_(ti, "stop"), [], {}))
    eng.cover(f"exit:{kind}")
    eng.oblige(f"{U}/post.no-exception", kind == "ok")
    uns = w.events("unsub")
    want = [k for k, f in (("State", "state"), ("Event", "event"), ("Mqtt", "mqtt"), ("Webhook", "webhook")) if cfg[f]] if running else []
    eng.oblige(f"{U}/post.one-unsubscribe-per-configured-kind", sorted(e[1] for e in uns) == sorted(want))
    eng.oblige(f"{U}/post.unsubscribes-own-queue", all(it.eq(e[3], SV(q)) is True or z3.is_true(z3.simplify(it.eq(e[3], SV(q)))) for e in uns))
    eng.oblige(f"{U}/post.task-cancelled-once-iff-running", len(w.events("reap")) == (1 if running else 0))
    eng.oblige(f"{U}/post.task-forgotten", ti._fields["task"] is None)
    sd = w.events("call_action")
    eng.oblige(f"{U}/post.shutdown-run-once-iff-declared",
               len(sd) == (1 if cfg["shutdown"] else 0) and len(w.events("waiter_await")) == len(sd)
               and all(e[1] == "shutdown" and e[3] is False and e[2].get("trigger_time") == "shutdown" for e in sd))


def h_trig_prologue(eng):
    """At every await of trigger_watch's prologue and at loop entry, what the trigger holds is exactly what
    TrigInfo.stop would release (so a stop at that moment, followed by the cancellation, leaks nothing); on an
    exception in the prologue everything acquired is released."""
    it = Interpreter(eng)
    w = World(eng)
    mod, Fn = trig_module(eng, it, w)
    cfg = dict(CFGS[eng.choose(len(CFGS), "cfg")])
    ti, q, names = mk_triginfo(eng, it, mod, cfg, SV(z3.Const("trigger_task", TaskS)))
    U = "C09/TrigInfo.trigger_watch#prologue"
    fn = mod.func("TrigInfo.trigger_watch")
    number_loops(fn.node)

    def what_stop_releases():
        rel = []
        f = ti._fields
        if f["state_trig_ident"] is not None and it.truth(f["state_trig_ident"]) is not False:
            rel.append("State")
        for k, fld in (("Event", "event_trigger"), ("Mqtt", "mqtt_trigger"), ("Webhook", "webhook_trigger")):
            if f[fld] is not None:
                rel.append(k)
        return rel

    def check_held(where, cancelled=False):
        held = sorted(h[0] for h in held_subscriptions(w))
        rel = what_stop_releases()
        # everything held must be something stop() releases
        ob = eng.oblige(f"{U}/held-subset-of-what-stop-releases@{where}", all(h in rel for h in held))
        return ob

    def at_loop(interp, node, env):
        check_held("loop-entry")
        eng.oblige(f"{U}/post.subscribed-to-every-configured-kind@loop-entry",
                   sorted(h[0] for h in held_subscriptions(w)) ==
                   sorted(k for k, f in (("State", "state"), ("Event", "event"), ("Mqtt", "mqtt"), ("Webhook", "webhook")) if cfg[f]))
        eng.cover("loop-entry")
        raise PathEnd_()

    it.loop_specs[("TrigInfo.trigger_watch", "while0")] = at_loop
    kind, val = run_catching(it, lambda: it.await_(it.call(it.getattr_(ti, "trigger_watch"), [], {})))
    # reached only when the prologue ended without entering the loop: cancellation at an await
    eng.cover(f"exit:{kind}")
    if kind == "exc":
        eng.oblige(f"{U}/post.only-cancellation-escapes", val.cls.name == "CancelledError")
        ob = check_held("cancelled-in-prologue", cancelled=True)
    else:
        eng.oblige(f"{U}/post.released-all-on-error-return", len(held_subscriptions(w)) == 0)


def PathEnd_():
    from pyvc.interp import PathEnd
    return PathEnd()


# ----------------------------------------------------------------------------------------------------------
# owners, new subsystem: DecoratorManager.start / stop (decorator_abc.py)
# ----------------------------------------------------------------------------------------------------------
def status_enum():
    members = {n: Rec(fields={"value": n.lower()}, name=f"Status.{n}")
               for n in ("INIT", "NO_DECORATORS", "VALIDATED", "INVALID", "RUNNING", "STOPPED")}
    return Rec(fields=members, name="DecoratorManagerStatus"), members


def abc_module(eng, it, w):
    enum, members = status_enum()
    stubs = {"_LOGGER": logger_stub(), "DecoratorManagerStatus": enum, "ABC": ClassRec("ABC"),
             "dt_now": lambda i: SV(eng.fresh("now", z3.RealSort())),
             "abstractmethod": lambda i, f: f, "final": lambda i, f: f, "dataclass": lambda i, *a, **k: (lambda i2, c: c),
             "field": lambda i, **k: None, "vol": PyModule("vol", {}), "StrEnum": ClassRec("StrEnum")}
    mod = Module(it, DA_PY, stubs=stubs)
    return mod, enum, members


def mk_decorators(eng, w, n, fail_choice=True):
    """n decorator stubs; each start()/stop() follows the assumed Decorator contract: may raise an Exception."""
    decs = []
    for i in range(n):
        d = Rec(fields={}, name=f"dec{i}")

        def mk(op, d=d, i=i):
            def f(interp):
                def th():
                    w.emit(op, i)
                    if fail_choice and eng.choose(2, f"{op}{i}-raises") == 0:
                        w.emit(f"{op}-raised", i)
                        raise exc("UserException", f"{op}{i}")
                return Coro(th, f"dec{i}.{op}")
            return f
        d._fields["start"] = mk("start")
        d._fields["stop"] = mk("stop")
        decs.append(d)
    return decs


def h_dm_start(n):
    def h(eng):
        it = Interpreter(eng)
        w = World(eng)
        mod, enum, M = abc_module(eng, it, w)
        DM = mod.env.vars["DecoratorManager"]
        decs = mk_decorators(eng, w, n)
        dm = Rec(cls=DM, fields={"status": M["VALIDATED"], "_decorators": list(decs), "name": "file.x.f",
                                 "logger": logger_stub(), "startup_time": None}, name="dm")
        U = "C09/DecoratorManager.start"
        kind, val = run_catching(it, lambda: it.await_(it.call(it.getattr_(dm, "start"), [], {})))
        eng.cover(f"exit:{kind}")
        starts = [e[1] for e in w.events("start")]
        stops = [e[1] for e in w.events("stop")]
        failed = [e[1] for e in w.events("start-raised")]
        if not failed:
            eng.oblige(f"{U}/post.all-started-once-in-order", kind == "ok" and starts == list(range(n)) and stops == [])
            eng.oblige(f"{U}/post.status-running", dm._fields["status"] is M["RUNNING"])
        else:
            j = failed[0]
            eng.oblige(f"{U}/rollback.exception-propagates", kind == "exc" and val.cls.name == "UserException")
            eng.oblige(f"{U}/rollback.started-ones-stopped-exactly-once", sorted(stops) == list(range(j)))
            eng.oblige(f"{U}/rollback.later-ones-never-started", starts == list(range(j + 1)))
            eng.oblige(f"{U}/rollback.status-invalid", dm._fields["status"] is M["INVALID"])
        eng.oblige(f"{U}/canary", len(starts) == 0, kind="canary") if n else None
    return h


def h_dm_start_stopped_meanwhile(n):
    """The manager is stopped (its function went away, its file is unloaded, a task.wait_until condition fired) while start() is
    suspended inside the start() of decorator j.  The interleaved stop() is the REAL DecoratorManager.stop, run at that
    suspension (A-COOP: that is the only place another task can run)."""
    def h(eng):
        it = Interpreter(eng)
        w = World(eng)
        mod, enum, M = abc_module(eng, it, w)
        DM = mod.env.vars["DecoratorManager"]
        decs = mk_decorators(eng, w, n, fail_choice=False)
        dm = Rec(cls=DM, fields={"status": M["VALIDATED"], "_decorators": list(decs), "name": "file.x.f",
                                 "logger": logger_stub(), "startup_time": None}, name="dm")
        j = eng.choose(n, "stopped-while-starting")
        U = "C09/DecoratorManager.start||stop"
        plain_start = decs[j]._fields["start"]
        inner = {}

        def start_j(interp):
            def th():
                w.emit("start", j)
                # suspended here: another task stops the manager
                k2, v2 = run_catching(interp, lambda: interp.await_(interp.call(interp.getattr_(dm, "stop"), [], {})))
                inner["stop"] = k2
                inner["starts_at_stop"] = len(w.events("start"))
            return Coro(th, f"dec{j}.start")
        decs[j]._fields["start"] = start_j
        kind, val = run_catching(it, lambda: it.await_(it.call(it.getattr_(dm, "start"), [], {})))
        eng.cover(f"exit:{kind}:{j}")
        starts = [e[1] for e in w.events("start")]
        stops = [e[1] for e in w.events("stop")]
        eng.oblige(f"{U}/post.no-exception", kind == "ok" and inner.get("stop") == "ok")
        ob = eng.oblige(f"{U}/post.nothing-is-started-after-the-manager-was-stopped", starts == list(range(j + 1)))
        if ob.status == "refuted":
            ob.witness = {"signature": "decorator-started-on-a-stopped-manager", "what": "start-after-stop"}
        ob = eng.oblige(f"{U}/post.every-decorator-whose-start-began-is-stopped-once", all(stops.count(i) == 1 for i in range(j + 1)) and all(stops.count(i) <= 1 for i in range(n)))
        if ob.status == "refuted":
            ob.witness = {"signature": "decorator-in-mid-start-not-stopped", "what": "mid-start-not-stopped"}
        eng.oblige(f"{U}/post.status-stopped", dm._fields["status"] is M["STOPPED"])
        eng.oblige(f"{U}/post.decorators-dropped", dm._fields["_decorators"] == [])
    return h


def replay_dm_interleaved(wj):
    from replay.native import run_native
    return run_native("c09_dm_stop_during_start", wj, timeout=120)


def h_dm_stop(n):
    def h(eng):
        it = Interpreter(eng)
        w = World(eng)
        mod, enum, M = abc_module(eng, it, w)
        DM = mod.env.vars["DecoratorManager"]
        decs = mk_decorators(eng, w, n)
        st = ["RUNNING", "VALIDATED", "STOPPED", "INVALID"][eng.choose(4, "status")]
        dm = Rec(cls=DM, fields={"status": M[st], "_decorators": list(decs), "name": "file.x.f",
                                 "logger": logger_stub(), "startup_time": None}, name="dm")
        U = "C09/DecoratorManager.stop"
        kind, val = run_catching(it, lambda: it.await_(it.call(it.getattr_(dm, "stop"), [], {})))
        eng.cover(f"exit:{kind}:{st}")
        stops = [e[1] for e in w.events("stop")]
        eng.oblige(f"{U}/post.no-exception-even-if-a-decorator-stop-raises", kind == "ok")
        if st == "RUNNING":
            eng.oblige(f"{U}/post.every-decorator-stopped-exactly-once", stops == list(range(n)))
            eng.oblige(f"{U}/post.status-stopped", dm._fields["status"] is M["STOPPED"])
            eng.oblige(f"{U}/post.decorators-dropped", dm._fields["_decorators"] == [])
        else:
            eng.oblige(f"{U}/post.not-running-stops-nothing", stops == [])
    return h


# ----------------------------------------------------------------------------------------------------------
# GlobalContext.stop / start / trigger_register / create_decorator_manager   (global_ctx.py)
# ----------------------------------------------------------------------------------------------------------
def gc_module(eng, it, w):
    enum, M = status_enum()
    created = []

    class _FDM:
        pass

    def fdm_ctor(i, ast_ctx, func_var):
        dm = Rec(fields={"status": M["INIT"], "decs": []}, name=f"dm{len(created)}")
        dm._fields["add"] = lambda i2, d: dm._fields["decs"].append(d)
        outcome = ["validated", "no-decorators", "raises"][eng.choose(3, "validate")]

        def validate(i2):
            def th():
                w.emit("dm.validate", dm)
                if outcome == "raises":
                    dm._fields["status"] = M["INVALID"]
                    raise exc("TypeError", "bad decorator")
                dm._fields["status"] = M["VALIDATED"] if outcome == "validated" else M["NO_DECORATORS"]
            return Coro(th, "dm.validate")

        def start(i2):
            def th():
                w.emit("dm.start", dm)
                if eng.choose(2, "start-raises") == 0:
                    raise exc("ValueError", "start failed")
            return Coro(th, "dm.start")
        dm._fields["validate"] = validate
        dm._fields["start"] = start
        created.append(dm)
        return dm

    hass = Rec(fields={"async_create_task": lambda i, c: w.emit("hass.create_task", c),
                       "data": Rec(fields={"get": lambda i, k, d=None: {}})}, name="hass")
    Fn = Rec(fields={"hass": hass}, name="Function")
    stubs = {"_LOGGER": logger_stub(), "Function": Fn, "FunctionDecoratorManager": fdm_ctor,
             "DecoratorManagerStatus": enum, "logging": PyModule("logging", {"getLogger": lambda i, n: logger_stub()}),
             "LOGGER_PATH": "custom_components.pyscript"}
    mod = Module(it, GC_PY, stubs=stubs)
    return mod, M, created


def mk_gctx(mod, triggers=(), delayed=(), dms=(), dms_delayed=(), auto_start=False):
    return Rec(cls=mod.env.vars["GlobalContext"], fields={
        "name": "file.x", "triggers": SymPySet(triggers), "triggers_delay_start": SymPySet(delayed),
        "dms": SymPySet(dms), "dms_delay_start": SymPySet(dms_delayed), "auto_start": auto_start}, name="gctx")


def mk_func(w, i):
    f = Rec(fields={}, name=f"func{i}")
    f._fields["trigger_stop"] = lambda interp: w.emit("trigger_stop", i)
    f._fields["trigger_start"] = lambda interp: w.emit("trigger_start", i)
    return f


def mk_dm(w, i):
    d = Rec(fields={}, name=f"dm{i}")
    d._fields["stop"] = lambda interp: Coro(lambda: w.emit("dm.stop.ran", i), f"dm{i}.stop")
    d._fields["start"] = lambda interp: Coro(lambda: w.emit("dm.start.ran", i), f"dm{i}.start")
    return d


def h_gc_stop(nf, nd):
    def h(eng):
        it = Interpreter(eng)
        w = World(eng)
        mod, M, _ = gc_module(eng, it, w)
        funcs = [mk_func(w, i) for i in range(nf)]
        dms = [mk_dm(w, i) for i in range(nd)]
        # any subset may still be waiting for a delayed start
        g = mk_gctx(mod, funcs, funcs[:1], dms, dms[:1], auto_start=bool(eng.choose(2, "auto")))
        U = "C09/GlobalContext.stop"
        kind, val = run_catching(it, lambda: it.call(it.getattr_(g, "stop"), [], {}))
        eng.cover(f"exit:{kind}")
        eng.oblige(f"{U}/post.no-exception", kind == "ok")
        eng.oblige(f"{U}/post.every-registered-function-stopped-once",
                   sorted(e[1] for e in w.events("trigger_stop")) == list(range(nf)))
        coros = [e[1] for e in w.events("hass.create_task")]
        eng.oblige(f"{U}/post.every-decorator-manager-stop-scheduled-once",
                   sorted(c.label for c in coros) == sorted(f"dm{i}.stop" for i in range(nd)))
        f = g._fields
        eng.oblige(f"{U}/post.registries-emptied",
                   list(f["triggers"]) == [] and list(f["triggers_delay_start"]) == [] and list(f["dms"]) == []
                   and list(f["dms_delay_start"]) == [])
        eng.oblige(f"{U}/post.auto-start-off", f["auto_start"] is False)
    return h


def h_gc_register(eng):
    """trigger_register: the function is registered with the context BEFORE it is started (so a stop between
    registration and start still reaches it); start-now iff auto_start."""
    it = Interpreter(eng)
    w = World(eng)
    mod, M, _ = gc_module(eng, it, w)
    auto = bool(eng.choose(2, "auto"))
    g = mk_gctx(mod, auto_start=auto)
    fn = mk_func(w, 0)
    U = "C09/GlobalContext.trigger_register"
    kind, val = run_catching(it, lambda: it.call(it.getattr_(g, "trigger_register"), [fn], {}))
    eng.cover("ran")
    eng.oblige(f"{U}/post.registered", kind == "ok" and fn in g._fields["triggers"])
    eng.oblige(f"{U}/post.start-now-iff-auto-start", val is auto)
    eng.oblige(f"{U}/post.delayed-iff-not-auto-start", (fn in g._fields["triggers_delay_start"]) == (not auto))
    # start(): everything delayed is started exactly once and the delay sets are emptied
    kind2, _ = run_catching(it, lambda: it.call(it.getattr_(g, "start"), [], {}))
    eng.oblige(f"{U}/start.delayed-started-once", kind2 == "ok" and len(w.events("trigger_start")) == (0 if auto else 1)
               and list(g._fields["triggers_delay_start"]) == [])


def h_gc_create_dm(eng):
    """create_decorator_manager: a validated manager is registered in dms BEFORE it is started; a manager that is
    not validated is neither registered nor started; errors are logged, not propagated."""
    it = Interpreter(eng)
    w = World(eng)
    mod, M, created = gc_module(eng, it, w)
    auto = bool(eng.choose(2, "auto"))
    g = mk_gctx(mod, auto_start=auto)
    logged = []
    ast_ctx = Rec(fields={"log_exception": lambda i, e: logged.append(e)}, name="ast_ctx")
    U = "C09/GlobalContext.create_decorator_manager"
    decs = [Rec(name="decA"), Rec(name="decB")]
    kind, val = run_catching(it, lambda: it.await_(it.call(it.getattr_(g, "create_decorator_manager"),
                                                           [decs, ast_ctx, Rec(name="func_var")], {})))
    eng.cover("ran")
    dm = created[0]
    validated = dm._fields["status"] is M["VALIDATED"]
    started = len(w.events("dm.start")) == 1
    eng.oblige(f"{U}/post.no-exception-escapes", kind == "ok")
    eng.oblige(f"{U}/post.all-decorators-added", dm._fields["decs"] == decs)
    eng.oblige(f"{U}/post.registered-iff-validated", (dm in g._fields["dms"]) == validated)
    eng.oblige(f"{U}/post.started-iff-validated-and-auto-start", started == (validated and auto))
    eng.oblige(f"{U}/post.delayed-iff-validated-and-not-auto", (dm in g._fields["dms_delay_start"]) == (validated and not auto))
    # registered before started: the dm.start event comes after the registration
    eng.oblige(f"{U}/post.errors-logged-once", len(logged) == (1 if (not validated and dm._fields["status"] is M["INVALID"]) or
                                                               (started and any(p == "start-raises=0" for p in eng.path_log)) else 0))


# ----------------------------------------------------------------------------------------------------------
# new subsystem: the function object goes away (redefined / deleted / last reference dropped): the finalizer that
# FunctionDecoratorManager.__init__ registers on the EvalFuncVar must deactivate the manager in EVERY state it can be in -
# running (stop it) and validated-but-waiting-for-its-context-to-start (never start it)
# ----------------------------------------------------------------------------------------------------------
D_PY = f"{PKG}/decorator.py"


def h_fdm_dropped(n):
    def h(eng):
        from .C08 import fdm_module
        it = Interpreter(eng)
        w = World(eng)
        amod, enum, M = abc_module(eng, it, w)
        mod, Fn, tasks, created = fdm_module(eng, it, w, amod)
        finals = []
        mod.env.vars["weakref"] = PyModule("weakref", {"finalize": lambda i, o, f: finals.append((o, f))})
        hass = Rec(fields={"async_create_task": lambda i, c: w.emit("hass.create_task", c)}, name="hass")
        amod.env.vars["DecoratorManager"].attrs["hass"] = hass
        FDM = mod.env.vars["FunctionDecoratorManager"]
        func = Rec(fields={"logger": logger_stub(), "name": "f"}, name="eval_func")
        func_var = Rec(fields={"func": func, "get_name": lambda i: "f"}, name="func_var")
        ast_ctx = Rec(fields={"get_global_ctx_name": lambda i: "file.x", "get_logger": lambda i: logger_stub()}, name="ast_ctx")
        U = "C09/FunctionDecoratorManager.finalizer"
        kind0, dm = run_catching(it, lambda: it.call(FDM, [ast_ctx, func_var], {}))
        eng.oblige(f"{U}/init.registers-one-finalizer-on-the-function-variable", kind0 == "ok" and len(finals) == 1 and finals[0][0] is func_var)
        if kind0 != "ok" or len(finals) != 1:
            return
        decs = mk_decorators(eng, w, n, fail_choice=False)
        dm._fields["_decorators"] = list(decs)
        state = ["VALIDATED", "RUNNING"][eng.choose(2, "state-when-dropped")]
        dm._fields["status"] = M[state]
        kind, val = run_catching(it, lambda: it.call(finals[0][1], [], {}))
        eng.cover(f"dropped:{state}")
        eng.oblige(f"{U}/post.no-exception", kind == "ok")
        if state == "RUNNING":
            coros = [e[1] for e in w.events("hass.create_task")]
            eng.oblige(f"{U}/running.stop-scheduled-once", len(coros) == 1)
            if len(coros) == 1:
                k2, _ = run_catching(it, lambda: it.await_(coros[0]))
                eng.oblige(f"{U}/running.every-decorator-stopped-once", k2 == "ok" and sorted(e[1] for e in w.events("stop")) == list(range(n)))
                eng.oblige(f"{U}/running.status-stopped", dm._fields["status"] is M["STOPPED"])
        else:
            # the global context starts later and schedules start() of everything that was waiting (GlobalContext.start): the
            # dropped function's decorators must not be started, whatever start() does otherwise
            k2, v2 = run_catching(it, lambda: it.await_(it.call(it.getattr_(dm, "start"), [], {})))
            ob = eng.oblige(f"{U}/waiting.a-later-context-start-starts-nothing", [e[1] for e in w.events("start")] == [])
            if ob.status == "refuted":
                ob.witness = {"signature": "dropped-before-context-start"}
            eng.oblige(f"{U}/waiting.never-running", dm._fields["status"] is not M["RUNNING"])
    return h


def h_evalfunc_trigger_stop(nt, with_service):
    """Legacy subsystem: EvalFunc.trigger_stop stops every trigger task of the function exactly once and FORGETS them, with or
    without @service names, so that a second stop (del f, then unload; garbage collection after a reload) or a later start of
    the context finds nothing to stop or start again."""
    def h(eng):
        from . import C12 as c12
        it, w, mod, Fn, S = c12.setup(eng)
        c12.install_contracts(it, w, Fn, S)
        emod = c12.load_eval(it, w, Fn)
        self_ = c12.mk_evalfunc(it, emod, w)
        trigs = []
        for i in range(nt):
            t = Rec(fields={}, name=f"trig{i}")
            t._fields["stop"] = (lambda i=i: (lambda interp: w.emit("trig.stop", i)))()
            t._fields["start"] = (lambda i=i: (lambda interp: w.emit("trig.start", i)))()
            trigs.append(t)
        self_._fields["trigger"] = list(trigs)
        if with_service:
            nm = it.to_sym_str("pyscript.f", DName(None))
            eng.assume(z3.And(z3.Select(S["own"].cols["dom"], nm.t), z3.Select(S["own"].cols[".v"], nm.t) == c12.coerce_ctx(it, "file.x").t,
                              c12.snap_count(S["cnt"].snapshot(), nm.t) >= 1))
            eng.assume(c12.I_svc(S["cnt"].snapshot(), S["own"].snapshot(), S["reg"].snapshot()))
            self_._fields["trigger_service"] = SymPySet(["pyscript.f"])
        U = "C09/EvalFunc.trigger_stop"
        kind, _ = run_catching(it, lambda: it.call(it.getattr_(self_, "trigger_stop"), [], {}))
        eng.cover(f"stop:{kind}")
        eng.oblige(f"{U}/post.no-exception", kind == "ok")
        eng.oblige(f"{U}/post.every-trigger-stopped-once", sorted(e[1] for e in w.events("trig.stop")) == list(range(nt)))
        ob = eng.oblige(f"{U}/post.triggers-forgotten", list(self_._fields["trigger"]) == [] and list(self_._fields["trigger_service"]) == [])
        if ob.status == "refuted":
            ob.witness = {"signature": "stopped-triggers-kept"}
        eng.oblige(f"{U}/post.services-released-once", len(w.events("service_remove")) == (1 if with_service else 0))
        # what the owners do later: a second stop, and a start of the context
        k2, _ = run_catching(it, lambda: it.call(it.getattr_(self_, "trigger_stop"), [], {}))
        k3, _ = run_catching(it, lambda: it.call(it.getattr_(self_, "trigger_start"), [], {}))
        ob = eng.oblige(f"{U}/post.second-stop-and-later-start-touch-nothing", k2 == "ok" and k3 == "ok" and len(w.events("trig.stop")) == nt
                        and len(w.events("trig.start")) == 0 and len(w.events("service_remove")) == (1 if with_service else 0))
        if ob.status == "refuted":
            ob.witness = {"signature": "stopped-triggers-kept"}
    return h


def replay_stop_twice(wj):
    from replay.native import run_native
    return run_native("c09_legacy_stop_twice", wj)


def replay_dropped(wj):
    from replay.native import run_native
    return run_native("c09_dropped_before_start", wj)


# ----------------------------------------------------------------------------------------------------------
# new subsystem: start / stop of the trigger decorators are inverse
# ----------------------------------------------------------------------------------------------------------
D_BASE = f"{PKG}/decorators/base.py"
DM_PY = f"{PKG}/decorators/mqtt.py"
DW_PY = f"{PKG}/decorators/webhook.py"
DT_PY = f"{PKG}/decorators/timing.py"


def dec_env(eng, it, w):
    """decorator_abc + decorators/base with a hass whose bus / mqtt / webhook / task creation are ghost effects."""
    amod, enum, M = abc_module(eng, it, w)
    bmod = Module(it, D_BASE, stubs={"_LOGGER": logger_stub(), "Decorator": amod.env.vars["Decorator"],
                                     "ABC": ClassRec("ABC"), "vol": PyModule("vol", {})})
    live = {"listen": [], "task": []}

    def async_listen(i, evtype, cb):
        tok = Rec(name="listener")
        live["listen"].append(tok)
        w.emit("listen", evtype, cb)

        def remove(i2):
            w.emit("unlisten", evtype)
            if tok in live["listen"]:
                live["listen"].remove(tok)
            else:
                w.emit("double-unlisten", evtype)
        return remove

    def create_bg_task(i, coro, name=None):
        t = Rec(fields={}, name="cycle_task")
        live["task"].append(t)
        w.emit("bg_task", coro)
        t._fields["cancel"] = lambda i2: (w.emit("task.cancel", t), live["task"].remove(t) if t in live["task"] else None)[0]
        t._fields["add_done_callback"] = lambda i2, cb: None
        return t

    hass = Rec(fields={"bus": Rec(fields={"async_listen": async_listen,
                                          "async_fire": lambda i, et, data=None, context=None: w.emit("bus.fire", et, data, context)}),
                       "async_create_background_task": create_bg_task},
               name="hass")
    return amod, bmod, M, hass, live


def mk_dm_rec(M, hass):
    return Rec(fields={"hass": hass, "status": M["RUNNING"], "name": "file.x.f", "logger": logger_stub(),
                       "startup_time": None}, name="dm")


def h_event_dec(eng):
    it = Interpreter(eng)
    w = World(eng)
    amod, bmod, M, hass, live = dec_env(eng, it, w)
    mod = Module(it, DE_PY, stubs={"_LOGGER": logger_stub(), "TriggerDecorator": amod.env.vars["TriggerDecorator"],
                                   "ExpressionDecorator": bmod.env.vars["ExpressionDecorator"],
                                   "DispatchData": amod.env.vars["DispatchData"], "vol": PyModule("vol", {})})
    cls = mod.env.vars["EventTriggerDecorator"]
    U = "C09/EventTriggerDecorator.start+stop"
    dec = Rec(cls=cls, fields={"args": [SV(z3.Const("evtype", EvTypeS))], "kwargs": {}, "dm": mk_dm_rec(M, hass)}, name="dec")
    k1, _ = run_catching(it, lambda: it.await_(it.call(it.getattr_(dec, "start"), [], {})))
    eng.cover("ran")
    eng.oblige(f"{U}/start.one-listener", k1 == "ok" and len(live["listen"]) == 1 and w.count("listen") == 1)
    k2, _ = run_catching(it, lambda: it.await_(it.call(it.getattr_(dec, "stop"), [], {})))
    eng.oblige(f"{U}/stop.listener-removed-exactly-once",
               k2 == "ok" and len(live["listen"]) == 0 and w.count("unlisten") == 1 and w.count("double-unlisten") == 0)
    # a decorator that was never started holds nothing and its stop releases nothing
    dec2 = Rec(cls=cls, fields={"args": [SV(z3.Const("evtype", EvTypeS))], "kwargs": {}, "dm": mk_dm_rec(M, hass)}, name="dec2")
    k3, _ = run_catching(it, lambda: it.await_(it.call(it.getattr_(dec2, "stop"), [], {})))
    eng.oblige(f"{U}/stop.never-started-releases-nothing", k3 == "ok" and w.count("unlisten") == 1)


def h_state_dec(eng):
    it = Interpreter(eng)
    w = World(eng)
    amod, bmod, M, hass, live = dec_env(eng, it, w)
    subs = []

    def notify_add(i, names, q):
        def th():
            ok = bool(eng.choose(2, "watching-something"))
            if ok:
                subs.append((names, q))
                w.emit("sub", names, q)
            return ok
        return Coro(th, "State.notify_add")

    def notify_del(i, names, q):
        w.emit("unsub", names, q)
        for k, (n, qq) in enumerate(subs):
            if n is names and qq is q:
                del subs[k]
                return

    StateStub = Rec(fields={"notify_add": notify_add, "notify_del": notify_del}, name="State")
    qs = []

    def Queue(i, n=0):
        q = Rec(name=f"queue{len(qs)}")
        qs.append(q)
        return q

    mod = Module(it, DS_PY, stubs={"_LOGGER": logger_stub(), "TriggerDecorator": amod.env.vars["TriggerDecorator"],
                                   "TriggerHandlerDecorator": amod.env.vars["TriggerHandlerDecorator"],
                                   "ExpressionDecorator": bmod.env.vars["ExpressionDecorator"],
                                   "AutoKwargsDecorator": bmod.env.vars["AutoKwargsDecorator"],
                                   "DispatchData": amod.env.vars["DispatchData"], "State": StateStub,
                                   "asyncio": PyModule("asyncio", {"Queue": Queue}), "vol": PyModule("vol", {}),
                                   "DecoratorManagerStatus": Rec(fields=M)})
    cls = mod.env.vars["StateTriggerDecorator"]
    U = "C09/StateTriggerDecorator.start+stop"
    names = NamesSet(mk_names(eng, 2), z3.Const("ident_obj", ObjS))
    dec = Rec(cls=cls, fields={"args": ["expr"], "kwargs": {}, "dm": mk_dm_rec(M, hass), "state_trig_ident": names,
                               "name": "state_trigger"}, name="dec")
    k1, _ = run_catching(it, lambda: it.await_(it.call(it.getattr_(dec, "start"), [], {})))
    eng.cover("ran")
    watching = len(subs) == 1
    eng.oblige(f"{U}/start.cycle-task-iff-subscribed", k1 == "ok" and len(live["task"]) == (1 if watching else 0))
    k2, _ = run_catching(it, lambda: it.await_(it.call(it.getattr_(dec, "stop"), [], {})))
    eng.oblige(f"{U}/stop.releases-subscription-and-task",
               k2 == "ok" and subs == [] and live["task"] == [] and w.count("unsub") == 1)
    eng.oblige(f"{U}/stop.unsubscribes-what-start-subscribed",
               all(e[1] is names and e[2] is qs[0] for e in w.events("unsub")) and len(qs) == 1)


def h_time_dec(eng):
    it = Interpreter(eng)
    w = World(eng)
    amod, bmod, M, hass, live = dec_env(eng, it, w)
    mod = Module(it, DT_PY, stubs={"_LOGGER": logger_stub(), "TriggerDecorator": amod.env.vars["TriggerDecorator"],
                                   "TriggerHandlerDecorator": amod.env.vars["TriggerHandlerDecorator"],
                                   "AutoKwargsDecorator": bmod.env.vars["AutoKwargsDecorator"],
                                   "DispatchData": amod.env.vars["DispatchData"], "vol": PyModule("vol", {}),
                                   "asyncio": PyModule("asyncio", {"CancelledError": EXC["CancelledError"]}),
                                   "DecoratorManagerStatus": Rec(fields=M)})
    cls = mod.env.vars["TimeTriggerDecorator"]
    U = "C09/TimeTriggerDecorator.start+stop"
    shutdown = bool(eng.choose(2, "run_on_shutdown"))
    dm = mk_dm_rec(M, hass)
    dm._fields["dispatch"] = lambda i, data: Coro(lambda: w.emit("dispatch", data), "dm.dispatch")
    dec = Rec(cls=cls, fields={"args": ["once(now)"], "kwargs": {}, "dm": dm, "timespec": ["once(now)"],
                               "run_on_shutdown": shutdown, "run_on_startup": False}, name="dec")
    k1, _ = run_catching(it, lambda: it.await_(it.call(it.getattr_(dec, "start"), [], {})))
    eng.cover("ran")
    eng.oblige(f"{U}/start.one-cycle-task", k1 == "ok" and len(live["task"]) == 1)
    k2, _ = run_catching(it, lambda: it.await_(it.call(it.getattr_(dec, "stop"), [], {})))
    eng.oblige(f"{U}/stop.cycle-task-cancelled", k2 == "ok" and live["task"] == [] and w.count("task.cancel") == 1)
    ds = w.events("dispatch")
    eng.oblige(f"{U}/stop.shutdown-run-once-iff-declared", len(ds) == (1 if shutdown else 0) and all(
        it.getattr_(e[1], "func_args").get("trigger_time") == "shutdown" for e in ds))

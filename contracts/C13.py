"""C13 - task.unique: at most one live owner per name.

Shared structure: Function.unique_name2task (name -> task), Function.unique_task2name (task -> set of names),
Function.our_tasks.  Representation invariant

    I_unique:  forall n, t.  n in unique_task2name[t]  <=>  unique_name2task[n] = t

Units under contract (real ASTs, function.py): task_unique (closure of task_unique_factory), run_coro,
unique_name_used, user_task_name2id (closure of task_name2id_factory), user_task_cancel.
"""
from __future__ import annotations

import z3

from pyvc.framework import Harness
from .common import *  # noqa

F_PY = f"{PKG}/function.py"
PROPERTY = "C13"

ASSUMPTIONS = [
    A_LOG, A_NOALIAS, A_COOP,
    "A-REAPER (liveness, not decided): the reaper task runs, and Task.cancel() makes the target end; the checks "
    "prove that the right task is *handed* to Function.reaper_cancel exactly once, not that it has ended",
    "asyncio.current_task() returns the running task; asyncio.sleep(d) is a yield point that either raises "
    "CancelledError or returns (both explored)",
    "at a yield point other tasks may change the shared tables arbitrarily subject to I_unique; stable facts: the "
    "suspended task is still in our_tasks iff it was before (only its own run_coro exit removes it)",
    "task names / context names are arbitrary strings (z3 String theory; cvc5 second opinion)",
    "objects of sort Task are always truthy (asyncio.Task defines no __bool__/__len__)",
]
LEVEL_TEXT = ("Proof, unbounded: I_unique (name->task and task->names tables are mutually consistent) is an inductive "
              "invariant of every mutator, for all table states, names, tasks and both kill_me values; task_unique's "
              "postconditions (caller owns the prefixed name, previous pyscript owner handed to the reaper exactly once, "
              "foreign tasks never, kill_me never takes over) and run_coro's release-on-every-exit are discharged on every "
              "path of the real ASTs; context separation is an obligation over all strings (fails: known finding).")
NOT_DECIDED = ["the cancelled task *has ended* (liveness of the reaper and of Task.cancel)"]
SHAPE_BOUNDS = {}
TRUSTED_BASE = []


def setup(eng, sleep_returns=True):
    it = Interpreter(eng)
    w = World(eng)
    n2t = Store(eng, "unique_name2task", TMap(StrS, TScalar(TaskS)))
    t2n = Store(eng, "unique_task2name", TMap(TaskS, TSet(StrS)))
    ours = Store(eng, "our_tasks", TSet(TaskS))
    t2ctx = Store(eng, "task2context", TMap(TaskS, TScalar(CtxS)))
    t2cb = Store(eng, "task2cb", TMap(TaskS, TStruct({"ctx": TScalar(ObjS), "cb": TMap(ObjS, TScalar(ObjS))})))
    cur = z3.Const("cur_task", TaskS)
    mod = Module(it, F_PY, stubs={"asyncio": asyncio_stub(w, cur, sleep_returns), "_LOGGER": logger_stub(),
                                 "traceback": traceback_stub(), "Context": PyTypeTok("Context")},
                 class_state={"Function": {"unique_name2task": n2t, "unique_task2name": t2n, "our_tasks": ours,
                                           "task2context": t2ctx, "task2cb": t2cb}})
    Fn = mod.env.vars["Function"]
    # callee contract: Function.reaper_cancel(task) -- ghost effect 'reap' (body: put_nowait on the reaper queue)
    Fn.attrs["reaper_cancel"] = lambda i, t: w.emit("reap", t)
    w.shared = [n2t, t2n, ours, t2ctx, t2cb]
    w.invariants = [lambda: [I_unique(n2t.snapshot(), t2n.snapshot())]]
    w.inv_name = "I_unique"
    # stable across yields: membership of the running task in our_tasks
    w.stable = [lambda snaps: [z3.Select(ours.cols["in"], cur) == z3.Select(snaps[2]["in"], cur)]]
    return it, w, mod, Fn, dict(n2t=n2t, t2n=t2n, ours=ours, t2ctx=t2ctx, t2cb=t2cb, cur=cur)


def I_unique(n2t, t2n):
    return Forall([StrS, TaskS],
                  lambda n, t: z3.And(z3.Select(t2n["dom"], t), z3.Select(z3.Select(t2n[".in"], t), n)) ==
                  z3.And(z3.Select(n2t["dom"], n), z3.Select(n2t[".v"], n) == t), "I_unique")


def owner_is(n2t, name, task):
    return z3.And(z3.Select(n2t["dom"], name), z3.Select(n2t[".v"], name) == task)


def h_task_unique(eng):
    it, w, mod, Fn, S = setup(eng)
    n2t, t2n, ours, cur = S["n2t"], S["t2n"], S["ours"], S["cur"]
    ctxname = z3.String("ctx_name")
    # the evaluator's global context is looked up when task.unique is CALLED (an evaluator switches context while it runs a
    # function defined in another file): a different name is current while the factory runs
    current = [z3.String("ctx_name_when_the_factory_ran")]
    ctx = Rec(fields={"get_global_ctx_name": lambda i: SV(current[0])}, name="ast_ctx")
    task_unique = it.call(it.getattr_(Fn, "task_unique_factory"), [ctx], {})
    current[0] = ctxname
    eng.assume(I_unique(n2t.snapshot(), t2n.snapshot()))
    name = z3.String("name")
    kill_me = z3.Bool("kill_me")
    full = z3.Concat(ctxname, z3.StringVal("."), name)
    N0, T0, O0 = n2t.snapshot(), t2n.snapshot(), ours.snapshot()
    prev_has = z3.Select(N0["dom"], full)
    prev = z3.Select(N0[".v"], full)
    kind, val = run_catching(it, lambda: it.await_(it.call(task_unique, [SV(name)], {"kill_me": SV(kill_me)})))
    U = "C13/Function.task_unique_factory.task_unique"
    reaps = w.events("reap")
    yielded = w.count("yield") > 0
    eng.cover(f"exit:{kind}:{val.cls.name if kind == 'exc' else ''}")

    def wit(extra=""):
        return lambda ob: {"signature": extra, "unit": "task_unique"}

    # I_unique re-established on every exit
    eng.oblige(f"{U}/post.I_unique", I_unique(n2t.snapshot(), t2n.snapshot()))
    if kind == "exc":
        # the only exception that may escape is CancelledError, and only from the kill_me wait
        eng.oblige(f"{U}/post.only-cancelled-escapes", val.cls.name == "CancelledError" and yielded)
        # kill_me with another live owner: the caller is handed to the reaper, nobody else
        eng.oblige(f"{U}/post.kill_me.reaps-caller-only",
                   len(reaps) == 1 and z3.And(it.eq(reaps[0][1], SV(cur)), kill_me, prev_has, prev != cur))
        return
    in_ours = z3.Select(ours.cols["in"], cur)
    # ownership (the caller is a pyscript task): caller owns the prefixed name
    eng.oblige(f"{U}/post.caller-owns-name", z3.Implies(in_ours, owner_is(n2t.snapshot(), full, cur)))
    eng.oblige(f"{U}/post.name-in-callers-set",
               z3.Implies(in_ours, z3.And(z3.Select(t2n.cols["dom"], cur),
                                          z3.Select(z3.Select(t2n.cols[".in"], cur), full))))
    if not yielded:
        # frame: no other name changes owner; caller keeps its other names
        eng.oblige(f"{U}/frame.other-names-unchanged",
                   Forall([StrS], lambda n: z3.Implies(n != full, z3.And(
                       z3.Select(n2t.cols["dom"], n) == z3.Select(N0["dom"], n),
                       z3.Select(n2t.cols[".v"], n) == z3.Select(N0[".v"], n))), "n"))
        eng.oblige(f"{U}/frame.our_tasks-unchanged", ours.cols["in"] == O0["in"])
        eng.oblige(f"{U}/frame.not-a-pyscript-task-changes-nothing",
                   z3.Implies(z3.Not(in_ours), z3.And(n2t.cols["dom"] == N0["dom"], n2t.cols[".v"] == N0[".v"],
                                                      t2n.cols["dom"] == T0["dom"], t2n.cols[".in"] == T0[".in"])))
        # previous owner (another pyscript task) is handed to the reaper exactly once; nobody else is
        must = z3.And(prev_has, prev != cur, z3.Select(O0["in"], prev), z3.Not(kill_me))
        if len(reaps) == 0:
            eng.oblige(f"{U}/post.previous-owner-cancelled", z3.Not(must))
        elif len(reaps) == 1:
            eng.oblige(f"{U}/post.previous-owner-cancelled", z3.And(must, it.eq(reaps[0][1], SV(prev))))
            eng.oblige(f"{U}/post.never-cancels-foreign-task", z3.Select(O0["in"], reaps[0][1].t))
        else:
            eng.oblige(f"{U}/post.previous-owner-cancelled", False)
        # kill_me: never returns normally without a yield while another task owns the name
        eng.oblige(f"{U}/post.kill_me.no-takeover", z3.Not(z3.And(kill_me, prev_has, prev != cur)))
    else:
        # returned after the kill_me wait elapsed (sleep returned): reaper was asked to cancel the caller
        eng.oblige(f"{U}/post.kill_me.reaps-caller-only",
                   len(reaps) >= 1 and z3.And(it.eq(reaps[0][1], SV(cur)), kill_me))
    # canary: the ownership postcondition is not trivially true
    eng.oblige(f"{U}/canary.caller-owns-name", z3.Not(z3.And(in_ours, owner_is(n2t.snapshot(), full, cur))),
               kind="canary")


def h_contexts_disjoint(eng):
    """Names of different global contexts never interact: the table key f'{ctx}.{name}' must be injective in
    (ctx, name) over *valid context names*.  Context names are dotted paths like file.x / scripts.a.b, so we
    only assume they are non-empty."""
    it, w, mod, Fn, S = setup(eng)
    keys = []
    for i in (1, 2):
        ctxname = z3.String(f"ctx_name{i}")
        ctx = Rec(fields={"get_global_ctx_name": (lambda c: lambda _i: SV(c))(ctxname)}, name="ast_ctx")
        used = it.getattr_(Fn, "unique_name_used")
        name = z3.String(f"name{i}")
        # run the real key construction of unique_name_used and capture the looked-up key
        n2t = S["n2t"]
        r = it.call(used, [ctx, SV(name)], {})
        keys.append((ctxname, name, r))
    (c1, n1, r1), (c2, n2, r2) = keys
    eng.cover("ran")
    k1 = z3.Concat(c1, z3.StringVal("."), n1)
    k2 = z3.Concat(c2, z3.StringVal("."), n2)
    # link: the unit's answer is membership of exactly that key
    eng.oblige("C13/Function.unique_name_used/post.result-is-membership-of-prefixed-name",
               z3.And(r1.t == z3.Select(S["n2t"].cols["dom"], k1), r2.t == z3.Select(S["n2t"].cols["dom"], k2)))

    def wit(ob):
        m = ob._z3model
        g = lambda t: m.eval(t, model_completion=True).as_string()
        return {"signature": "dotted-name-collision", "ctx1": g(c1), "name1": g(n1), "ctx2": g(c2), "name2": g(n2)}

    ob = eng.oblige("C13/key/contexts-never-interact",
                    z3.Implies(z3.And(c1 != c2, valid_ctx(c1), valid_ctx(c2)), k1 != k2))
    if ob.status == "refuted":
        ob.witness = wit(ob)


def valid_ctx(c):
    """Shape of real global-context names: non-empty dotted paths without empty components."""
    dot = z3.StringVal(".")
    return z3.And(z3.Length(c) > 0, z3.Not(z3.PrefixOf(dot, c)), z3.Not(z3.SuffixOf(dot, c)),
                  z3.Not(z3.Contains(c, z3.StringVal(".."))))


def replay_ctx_collision(w):
    from replay.native import run_native
    return run_native("c13_ctx_collision", w)


def run_coro_loopspecs(it, S, task):
    """Loop contracts of run_coro's finally block (sidecar, keyed by loop ordinal)."""
    n2t, t2n = S["n2t"], S["t2n"]
    N0 = n2t.snapshot()

    def inv_names(interp, env, visited, members):
        # names already visited are gone; all others are as at loop entry
        return [Forall([StrS], lambda n: z3.And(
            z3.Select(n2t.cols["dom"], n) == z3.And(z3.Select(N0["dom"], n), z3.Not(z3.Select(visited, n))),
            z3.Implies(z3.Not(z3.Select(visited, n)), z3.Select(n2t.cols[".v"], n) == z3.Select(N0[".v"], n))),
            "n")]

    return {"names": LoopSpec(inv_names, [n2t], "names")}


def h_run_coro(eng):
    """Release on exit: whatever way the wrapped coroutine ends, the task's names are released."""
    it, w, mod, Fn, S = setup(eng)
    n2t, t2n, ours, t2ctx, t2cb, cur = S["n2t"], S["t2n"], S["ours"], S["t2ctx"], S["t2cb"], S["cur"]
    U = "C13/Function.run_coro"
    eng.assume(I_unique(n2t.snapshot(), t2n.snapshot()))
    mode = ["return", "raise", "cancel"][eng.choose(3, "coro")]

    def body():
        # the user coroutine: arbitrary interleaving happened while it ran
        w.yield_point("user-coro", cancellable=False)
        if mode == "raise":
            raise exc("UserException")
        if mode == "cancel":
            raise exc("CancelledError")
        return SV(z3.Const("coro_result", ObjS))

    coro = Coro(body, "user-coro")
    fn = mod.func("Function.run_coro")
    number_loops(fn.node)
    # no done-callbacks registered in this harness (C14 covers them): task2cb has no entry for cur
    w.stable.append(lambda snaps: [z3.Not(z3.Select(t2cb.cols["dom"], cur))])
    # loop contract for `for name in cls.unique_task2name[task]`; key by ordinal: for0 = callbacks loop, for1 = names loop
    it.loop_specs[("Function.run_coro", "for1")] = LazySpec(lambda: run_coro_loopspecs(it, S, cur)["names"])
    kind, val = run_catching(it, lambda: it.await_(it.call(it.getattr_(Fn, "run_coro"), [coro], {})))
    eng.cover(f"exit:{mode}")
    N1, T1 = n2t.snapshot(), t2n.snapshot()
    eng.oblige(f"{U}/post.I_unique", I_unique(N1, T1))
    eng.oblige(f"{U}/post.names-released",
               Forall([StrS], lambda n: z3.Not(owner_is(N1, n, cur)), "n"))
    eng.oblige(f"{U}/post.task-forgotten",
               z3.And(z3.Not(z3.Select(T1["dom"], cur)), z3.Not(z3.Select(ours.cols["in"], cur)),
                      z3.Not(z3.Select(t2ctx.cols["dom"], cur))))
    if mode == "cancel":
        eng.oblige(f"{U}/post.cancel-propagates", kind == "exc" and val.cls.name == "CancelledError")
    else:
        eng.oblige(f"{U}/post.no-exception-escapes", kind == "ok")
    # frame: names of other tasks are untouched by the exit (relative to the last resumption)
    NL = w.last_snap["unique_name2task"]
    eng.oblige(f"{U}/frame.other-owners-unchanged",
               Forall([StrS], lambda n: z3.Implies(z3.Not(owner_is(NL, n, cur)), z3.And(
                   z3.Select(N1["dom"], n) == z3.Select(NL["dom"], n),
                   z3.Select(N1[".v"], n) == z3.Select(NL[".v"], n))), "n"))
    eng.oblige(f"{U}/canary.names-released", z3.Not(z3.Select(NL["dom"], z3.String("canary_name"))), kind="canary")


class LazySpec(LoopSpec):
    """LoopSpec whose invariant closes over store snapshots taken when the loop is reached."""

    def __init__(self, make):
        self.make = make
        self._real = None
        self.name = "lazy"

    def _get(self):
        if self._real is None:
            self._real = self.make()
            self.name = self._real.name
        return self._real

    @property
    def modifies(self):
        return self._get().modifies

    def inv(self, *a):
        return self._get().inv(*a)


def h_name2id(eng):
    """task.name2id(name): the task that owns `name` in the CALLER's current global context (resolved at call time), NameError
    if nobody does; reads only."""
    it, w, mod, Fn, S = setup(eng)
    n2t, t2n = S["n2t"], S["t2n"]
    ctxname = z3.String("ctx_name")
    current = [z3.String("ctx_name_when_the_factory_ran")]
    ctx = Rec(fields={"get_global_ctx_name": lambda i: SV(current[0])}, name="ast_ctx")
    name2id = it.call(it.getattr_(Fn, "task_name2id_factory"), [ctx], {})
    current[0] = ctxname
    eng.assume(I_unique(n2t.snapshot(), t2n.snapshot()))
    name = z3.String("name")
    full = z3.Concat(ctxname, z3.StringVal("."), name)
    N0, T0 = n2t.snapshot(), t2n.snapshot()
    kind, val = run_catching(it, lambda: it.call(name2id, [SV(name)], {}))
    U = "C13/Function.task_name2id_factory.user_task_name2id"
    eng.cover(f"exit:{kind}")
    has = z3.Select(N0["dom"], full)
    if kind == "ok":
        ob = eng.oblige(f"{U}/post.returns-the-owner-in-the-callers-current-context", z3.And(has, it.eq(val, SV(z3.Select(N0[".v"], full)))))
    else:
        ob = eng.oblige(f"{U}/post.name-error-only-when-nobody-owns-the-name-in-the-callers-current-context", z3.And(val.cls.name == "NameError", z3.Not(has)))
    if ob.status == "refuted":
        ob.witness = {"signature": "context-resolved-when-the-factory-ran"}
    eng.oblige(f"{U}/frame.reads-only", z3.And(n2t.cols["dom"] == N0["dom"], n2t.cols[".v"] == N0[".v"], t2n.cols["dom"] == T0["dom"], t2n.cols[".in"] == T0[".in"]))


def replay_name2id(wj):
    from replay.native import run_native
    return run_native("c13_name2id_other_context", wj)


def h_task_unique_decorator(eng):
    """@task_unique (decorator subsystem): every run claims the name through ITS OWN evaluator - the one the manager created for
    that run (data.call_ast_ctx) - because the global context the name is qualified with is read from that evaluator when
    task.unique is called; an evaluator of an earlier run may by then be inside a function of another file.  Two runs are handled
    in a row."""
    from pyvc.loader import Module
    it = Interpreter(eng)
    w = World(eng)
    U = "C13/TaskUniqueDecorator.handle_call"
    made, claims, used = [], [], []

    def factory(i, ctx):
        made.append(ctx)
        return lambda i2, name, **kw: Coro(lambda: claims.append((ctx, name)), "task.unique")

    def name_used(i, ctx, name):
        used.append((ctx, name))
        return bool(eng.choose(2, "name-in-use"))
    Fn = Rec(fields={"task_unique_factory": factory, "unique_name_used": name_used}, name="Function")
    mod = Module(it, f"{PKG}/decorators/task.py", stubs={"_LOGGER": logger_stub(), "Function": Fn, "CallHandlerDecorator": ClassRec("CallHandlerDecorator"),
                                                          "AutoKwargsDecorator": ClassRec("AutoKwargsDecorator"), "DispatchData": ClassRec("DispatchData"),
                                                          "vol": PyModule("vol", {"Schema": lambda i, *a, **k: None, "All": lambda i, *a, **k: None, "Length": lambda i, **k: None, "Optional": lambda i, *a, **k: "kill_me"}),
                                                          "cv": PyModule("cv", {"boolean": None}), "logging": PyModule("logging", {"getLogger": lambda i, n: logger_stub()})})
    cls = mod.env.vars["TaskUniqueDecorator"]
    kill_me = bool(eng.choose(2, "kill_me"))
    dec = Rec(cls=cls, fields={"args": ["n"], "kwargs": {}, "kill_me": kill_me, "name": "task_unique"}, name="task_unique_dec")
    ctxs = [Rec(name="run1_ast_ctx"), Rec(name="run2_ast_ctx")]
    results = []
    for c in ctxs:
        k, v = run_catching(it, lambda: it.await_(it.call(it.getattr_(dec, "handle_call"), [Rec(fields={"call_ast_ctx": c}, name="DispatchData")], {})))
        results.append((k, v))
    eng.cover("ran")
    eng.oblige(f"{U}/post.no-exception", all(k == "ok" for k, _ in results))
    for j, c in enumerate(ctxs):
        refused = kill_me and results[j][1] is False
        mine = [x for x in claims if x[0] is c]
        others = [x for x in claims if x[0] is not c and x[0] not in ctxs[:j]]
        ob = eng.oblige(f"{U}/post.each-run-claims-the-name-through-its-own-evaluator", (mine == []) if refused else (mine == [(c, "n")]))
        if ob.status == "refuted":
            ob.witness = {"signature": "claim-through-an-earlier-runs-evaluator", "run": j + 1}
        if kill_me:
            eng.oblige(f"{U}/post.kill_me-asks-about-this-runs-context", any(u[0] is c and u[1] == "n" for u in used))
    eng.oblige(f"{U}/post.no-claim-through-any-other-evaluator", all(x[0] in ctxs for x in claims) and len(claims) <= 2)


def harnesses():
    return [
        Harness("task_unique", h_task_unique, units=[(F_PY, "Function.task_unique_factory")]),
        Harness("task_unique.decorator", h_task_unique_decorator, units=[(f"{PKG}/decorators/task.py", "TaskUniqueDecorator.handle_call")]),
        Harness("task_name2id", h_name2id, units=[(F_PY, "Function.task_name2id_factory")], replay=replay_name2id),
        Harness("contexts_disjoint", h_contexts_disjoint, units=[(F_PY, "Function.unique_name_used")],
                replay=replay_ctx_collision),
        Harness("run_coro.release", h_run_coro, units=[(F_PY, "Function.run_coro")]),
        mutator_closure_harness("C13", "unique-maps", {"unique_name2task": {"cls", "Function"},
                                                       "unique_task2name": {"cls", "Function"}},
                                {"Function.task_unique_factory.task_unique", "Function.run_coro"}),
    ]

"""C08 - event / MQTT / webhook triggers deliver each message exactly once; event.fire; context parenting."""
from __future__ import annotations

import z3

from pyvc.framework import Harness
from .common import *  # noqa
from .tables import *  # noqa
from . import C09 as c09

PROPERTY = "C08"
F_PY = f"{PKG}/function.py"
T_PY = f"{PKG}/trigger.py"
D_PY = f"{PKG}/decorator.py"
DA_PY = f"{PKG}/decorator_abc.py"
DE_PY = f"{PKG}/decorators/event.py"

ASSUMPTIONS = [
    A_LOG, A_NOALIAS, A_COOP,
    "asyncio.Queue(0) is unbounded: put() never suspends and never loses or reorders items (FIFO)",
    "Home Assistant calls each registered bus listener / MQTT handler / webhook handler once per message, in order",
    "asyncio starts tasks in creation order; 'runs start in event order under overlap' for the new subsystem also "
    "depends on how long filter expressions await (scheduling; not decided)",
    "event payloads are modelled with two ordinary data keys and arbitrary values (keys that collide with "
    "trigger_type/event_type/context are outside the statement)",
    "Context(parent_id=x) creates a context whose parent is x (Home Assistant class; assumed)",
]
NOT_DECIDED = ["runs *start* in event order under overlap (asyncio ready-queue order)"]
SHAPE_BOUNDS = {"event data keys": "2 ordinary keys", "guards (TriggerHandlerDecorator) per function": "<= 2"}
LEVEL_TEXT = ("Proof. Fan-out (Event/Mqtt/Webhook.update) is verified for all subscriber sets with a loop invariant "
              "(each subscribed queue gets exactly one copy, nobody else anything); the new-subsystem chain "
              "_event_callback -> TriggerDecorator.dispatch -> FunctionDecoratorManager.dispatch creates exactly one task "
              "iff the filter and all guards accept, with kwargs = message + decorator kwargs; legacy call_action and "
              "new dispatch build Context(parent_id = incoming context id); event.fire emits exactly the given kwargs.")


def same(a, b):
    """Identity for symbolic values / records, equality for plain Python constants."""
    if isinstance(a, (str, int, float, bool, type(None))) and isinstance(b, (str, int, float, bool, type(None))):
        return type(a) is type(b) and a == b
    return a is b


# ----------------------------------------------------------------------------------------------------------
# fan-out: <Kind>.update
# ----------------------------------------------------------------------------------------------------------
def h_update(kind):
    def h(eng):
        it = Interpreter(eng)
        w = World(eng)
        tb = ListenTable(eng, it, w, kind)
        U = f"C08/{kind}.update"
        got = Store(eng, "ghost.delivered", TMap(QueueS, TScalar(z3.IntSort())))
        eng.assume(got.cols["dom"] == z3.K(QueueS, z3.BoolVal(False)))
        msgs = []

        def put(i, q, item):
            def th():
                msgs.append((q, item))
                # content of the message, checked at the moment it is put (every iteration of the loop)
                ok = isinstance(item, list) and len(item) == 2 and item[0] == kind.lower() and isinstance(item[1], dict) \
                    and item[1] is not func_args and sorted(item[1]) == sorted(func_args) \
                    and all(same(item[1][kk], func_args[kk]) for kk in func_args) \
                    and all(item[1] is not other[1][1] for other in msgs[:-1])
                eng.oblige(f"{U}/post.message-is-a-private-copy-of-the-arguments", ok)
                cur = z3.If(z3.Select(got.cols["dom"], q.t), z3.Select(got.cols[".v"], q.t), z3.IntVal(0))
                got.view().setitem(q, SV(cur + 1))
            return Coro(th, "queue.put")
        it.method_tables[("Queue", "put")] = put
        t = z3.Const("t", EvTypeS)
        x, y = SV(z3.Const("data_x", ObjS)), SV(z3.Const("data_y", ObjS))
        func_args = {"trigger_type": kind.lower(), "x": x, "y": y}
        N0 = tb.notify.snapshot()
        members = z3.Select(N0[".in"], t)

        def inv(interp, env, visited, mem):
            cnt = lambda q: z3.If(z3.Select(got.cols["dom"], q), z3.Select(got.cols[".v"], q), z3.IntVal(0))
            return [Forall([QueueS], lambda q: cnt(q) == z3.If(z3.Select(visited, q), z3.IntVal(1), z3.IntVal(0)), "q")]
        fn = tb.mod.func(f"{kind}.update")
        number_loops(fn.node)
        it.loop_specs[(f"{kind}.update", "for0")] = LoopSpec(inv, [got], "queues")
        k, v = run_catching(it, lambda: it.await_(it.call(it.getattr_(tb.cls, "update"), [SV(t), func_args], {})))
        eng.cover("ran")
        eng.oblige(f"{U}/post.no-exception", k == "ok")
        cnt = lambda q: z3.If(z3.Select(got.cols["dom"], q), z3.Select(got.cols[".v"], q), z3.IntVal(0))
        eng.oblige(f"{U}/post.each-subscriber-exactly-one-message-nobody-else",
                   Forall([QueueS], lambda q: cnt(q) == z3.If(tb.subscribed(t, q, (N0, None, None)), z3.IntVal(1), z3.IntVal(0)), "q"))
        eng.oblige(f"{U}/frame.table-unchanged", z3.And(tb.notify.cols["dom"] == N0["dom"], tb.notify.cols[".in"] == N0[".in"]))
    return h


def h_event_listener(eng):
    """Event.event_listener builds {trigger_type, event_type, context} + data and hands it to update."""
    it = Interpreter(eng)
    w = World(eng)
    tb = ListenTable(eng, it, w, "Event")
    U = "C08/Event.event_listener"
    seen = []
    tb.cls.attrs["update"] = lambda i, et, fa: Coro(lambda: seen.append((et, dict(fa))), "Event.update")
    tb.cls.attrs["update"]._contract = True
    et = SV(z3.Const("event_type", EvTypeS))
    ctx = SV(z3.Const("event_ctx", CtxS))
    x, y = SV(z3.Const("data_x", ObjS)), SV(z3.Const("data_y", ObjS))
    event = Rec(fields={"event_type": et, "context": ctx, "data": {"x": x, "y": y}}, name="event")
    k, v = run_catching(it, lambda: it.await_(it.call(it.getattr_(tb.cls, "event_listener"), [event], {})))
    eng.cover("ran")
    ok = k == "ok" and len(seen) == 1 and seen[0][0] is et and seen[0][1] == {
        "trigger_type": "event", "event_type": et, "context": ctx, "x": x, "y": y}
    eng.oblige(f"{U}/post.one-update-with-type-context-and-data", ok)


# ----------------------------------------------------------------------------------------------------------
# event.fire
# ----------------------------------------------------------------------------------------------------------
CONTEXT_TOK = PyTypeTok("Context")


def h_event_fire(eng):
    it = Interpreter(eng)
    w = World(eng)
    cur = z3.Const("cur_task", TaskS)
    t2ctx = Store(eng, "task2context", TMap(TaskS, TScalar(CtxS, pytype=CONTEXT_TOK)))
    fired = []
    hass = Rec(fields={"bus": Rec(fields={"async_fire": lambda i, et, data=None, context=None: fired.append((et, data, context))})}, name="hass")
    mod = Module(it, F_PY, stubs={"asyncio": asyncio_stub(w, cur), "_LOGGER": logger_stub(), "Context": CONTEXT_TOK,
                                 "traceback": traceback_stub(), "SupportsResponse": Rec(fields={"NONE": "none"})},
                 class_state={"Function": {"task2context": t2ctx, "hass": hass}})
    Fn = mod.env.vars["Function"]
    U = "C08/Function.event_fire"
    kindc = ["absent", "Context", "other-value"][eng.choose(3, "context-kw")]
    kwargs = {"x": SV(z3.Const("p_x", ObjS)), "y": SV(z3.Const("p_y", ObjS))}
    if kindc == "Context":
        kwargs["context"] = SV(z3.Const("explicit_ctx", CtxS), pytype=CONTEXT_TOK)
    elif kindc == "other-value":
        kwargs["context"] = SV(z3.Const("ctx_param", StrS))
    given = dict(kwargs)
    et = SV(z3.Const("event_type", EvTypeS))
    k, v = run_catching(it, lambda: it.await_(it.call(it.getattr_(Fn, "event_fire"), [et], kwargs)))
    eng.cover(f"{kindc}:{k}")
    eng.oblige(f"{U}/post.fires-exactly-once", k == "ok" and len(fired) == 1 and fired[0][0] is et)
    if len(fired) != 1:
        return
    data, c = fired[0][1], fired[0][2]
    want = {kk: vv for kk, vv in given.items() if not (kk == "context" and kindc == "Context")}
    ob = eng.oblige(f"{U}/post.event-carries-exactly-the-given-parameters",
                    sorted(data) == sorted(want) and all(same(data[kk], want[kk]) for kk in want))
    if ob.status == "refuted":
        ob.witness = {"signature": f"context-kw={kindc}", "context_kw": kindc}
    if kindc == "Context":
        eng.oblige(f"{U}/post.explicit-context-used", c is given["context"])
    else:
        has = z3.Select(t2ctx.cols["dom"], cur)
        if c is None:
            eng.oblige(f"{U}/post.default-context-is-the-runs-context", z3.Not(has))
        else:
            c = it.split_none(c) if isinstance(c, SV) and c.none is not None else c
            eng.oblige(f"{U}/post.default-context-is-the-runs-context",
                       z3.And(has, c.t == z3.Select(t2ctx.cols[".v"], cur)) if c is not None else z3.Not(has))
    # store_hass_context: binds the context to the running task only
    T0 = t2ctx.snapshot()
    newc = SV(z3.Const("new_ctx", CtxS), pytype=CONTEXT_TOK)
    it.call(it.getattr_(Fn, "store_hass_context"), [newc], {})
    eng.oblige("C08/Function.store_hass_context/post.bound-to-current-task",
               z3.And(z3.Select(t2ctx.cols["dom"], cur), z3.Select(t2ctx.cols[".v"], cur) == newc.t))
    eng.oblige("C08/Function.store_hass_context/frame.other-tasks",
               Forall([TaskS], lambda t: z3.Implies(t != cur, z3.And(
                   z3.Select(t2ctx.cols["dom"], t) == z3.Select(T0["dom"], t),
                   z3.Select(t2ctx.cols[".v"], t) == z3.Select(T0[".v"], t))), "t"))


def replay_event_fire(wj):
    from replay.native import run_native
    return run_native("c08_event_fire", wj)


# ----------------------------------------------------------------------------------------------------------
# new subsystem chain: _event_callback -> TriggerDecorator.dispatch -> FunctionDecoratorManager.dispatch
# ----------------------------------------------------------------------------------------------------------
def fdm_module(eng, it, w, amod):
    """decorator.py with Function / AstEval / Context as ghost-effect contracts."""
    created = []

    def AstEval(i, name, gctx, *a):
        r = Rec(fields={"name": name, "global_ctx": gctx}, name="action_ast_ctx")
        created.append(r)
        return r

    def Context(i, parent_id=None):
        c = Rec(fields={"parent_id": parent_id, "id": SV(eng.fresh("ctxid", ObjS))}, name="hass_context")
        c._cls = CONTEXT_CLS
        return c

    tasks = []

    def create_task(i, coro, ast_ctx=None):
        t = Rec(fields={"coro": coro, "ast_ctx": ast_ctx}, name=f"task{len(tasks)}")
        tasks.append(t)
        w.emit("create_task", coro, ast_ctx)
        return t

    Fn = Rec(fields={"create_task": create_task, "install_ast_funcs": lambda i, a: None,
                     "task_done_callback_ctx": lambda i, t, a: w.emit("cb_ctx", t, a),
                     "store_hass_context": lambda i, c: w.emit("store_ctx", c)}, name="Function")
    A = amod.env.vars
    mod = Module(it, D_PY, stubs={"_LOGGER": logger_stub(), "Function": Fn, "AstEval": AstEval, "Context": CONTEXT_CLS_CTOR(Context),
                                 "DecoratorManager": A["DecoratorManager"], "TriggerHandlerDecorator": A["TriggerHandlerDecorator"],
                                 "TriggerDecorator": A["TriggerDecorator"], "CallHandlerDecorator": A["CallHandlerDecorator"],
                                 "CallResultHandlerDecorator": A["CallResultHandlerDecorator"], "DispatchData": A["DispatchData"],
                                 "DecoratorManagerStatus": A["DecoratorManagerStatus"], "weakref": PyModule("weakref", {"finalize": lambda i, o, f: None}),
                                 "Decorator": A["Decorator"],
                                 "asyncio": PyModule("asyncio", {"CancelledError": EXC["CancelledError"], "TimeoutError": EXC["TimeoutError"]})})
    return mod, Fn, tasks, created


CONTEXT_CLS = ClassRec("Context")


def CONTEXT_CLS_CTOR(ctor):
    """The name `Context` must work both as a constructor and in isinstance(): a ClassRec with a host __init__."""
    c = CONTEXT_CLS

    def init(i, self_, parent_id=None):
        self_._fields["parent_id"] = parent_id
        self_._fields["id"] = SV(i.eng.fresh("ctxid", ObjS))
    init._is_method = True
    c.attrs["__init__"] = init
    return c


def h_new_chain(n_guards):
    def h(eng):
        it = Interpreter(eng)
        w = World(eng)
        amod, bmod, M, hass, live = c09.dec_env(eng, it, w)
        fmod, Fn, tasks, created = fdm_module(eng, it, w, amod)
        emod = Module(it, DE_PY, stubs={"_LOGGER": logger_stub(), "TriggerDecorator": amod.env.vars["TriggerDecorator"],
                                        "ExpressionDecorator": bmod.env.vars["ExpressionDecorator"],
                                        "DispatchData": amod.env.vars["DispatchData"], "vol": PyModule("vol", {})})
        FDM = fmod.env.vars["FunctionDecoratorManager"]
        ETD = emod.env.vars["EventTriggerDecorator"]
        THD = amod.env.vars["TriggerHandlerDecorator"]
        U = "C08/new-subsystem"
        gctx = Rec(name="gctx")
        eval_func = Rec(fields={"global_ctx_name": "file.x", "name": "f", "global_ctx": gctx, "logger": logger_stub()}, name="eval_func")
        has_filter = bool(eng.choose(2, "has-filter"))
        filt = {"result": None}

        def filter_eval(i, vars_):
            def th():
                w.emit("filter", dict(vars_))
                # a filter is any Python expression: it accepts iff its value is TRUE IN A BOOLEAN CONTEXT (None, 0, '' reject;
                # 1, a non-empty string accept), not only for the objects True / False
                r = ["true", "false", "raises", "none", "zero", "one"][eng.choose(6, "filter")]
                filt["result"] = r
                if r == "raises":
                    raise exc("UserException", "bad filter")
                return {"true": True, "false": False, "none": None, "zero": 0, "one": 1}[r]
            return Coro(th, "filter.eval")

        expr = Rec(fields={"eval": filter_eval}, name="filter_expr") if has_filter else None
        guards = []
        for gi in range(n_guards):
            g = Rec(cls=THD, fields={}, name=f"guard{gi}")

            def hd(i, data, gi=gi):
                def th():
                    w.emit("guard", gi)
                    return [True, False, None][eng.choose(3, f"guard{gi}")]
                return Coro(th, f"guard{gi}.handle_dispatch")
            g._fields["handle_dispatch"] = hd
            guards.append(g)
        dm = Rec(cls=FDM, fields={"hass": hass, "status": M["RUNNING"], "name": "file.x.f", "logger": logger_stub(),
                                  "eval_func": eval_func, "_decorators": [], "ast_ctx": Rec(name="def_ast_ctx")}, name="dm")
        handled = []
        dm._fields["handle_exception"] = lambda i, e: Coro(lambda: handled.append(e), "dm.handle_exception")
        deckw = {"kwargs": {"extra": SV(z3.Const("dec_extra", ObjS)), "x": SV(z3.Const("dec_x_override", ObjS))}} if eng.choose(2, "dec-kwargs") else {}
        dec = Rec(cls=ETD, fields={"args": [SV(z3.Const("evtype", EvTypeS))], "kwargs": deckw, "dm": dm,
                                   "_ast_expression": expr, "name": "event_trigger"}, name="event_dec")
        dm._fields["_decorators"] = [dec] + guards
        in_ctx = Rec(cls=CONTEXT_CLS, fields={"id": SV(z3.Const("incoming_ctx_id", ObjS)), "parent_id": None}, name="incoming_ctx")
        x, y = SV(z3.Const("data_x", ObjS)), SV(z3.Const("data_y", ObjS))
        event = Rec(fields={"event_type": dec._fields["args"][0], "context": in_ctx, "data": {"x": x, "y": y}}, name="event")
        k, v = run_catching(it, lambda: it.await_(it.call(it.getattr_(dec, "_event_callback"), [event], {})))
        eng.cover(f"ran:{k}")
        eng.oblige(f"{U}/post.nothing-escapes-into-home-assistant", k == "ok")
        accept = (not has_filter or filt["result"] in ("true", "one"))
        guard_events = [e[1] for e in w.events("guard")]
        rejected_by_guard = any(p.endswith("=1") and p.startswith("guard") for p in eng.path_log)
        want_task = accept and not rejected_by_guard
        ob = eng.oblige(f"{U}/post.exactly-one-task-iff-filter-and-guards-accept", len(tasks) == (1 if want_task else 0))
        if ob.status == "refuted" and filt["result"] in ("none", "zero", "one"):
            ob.witness = {"signature": "filter-value-not-a-bool", "filter_value": filt["result"]}
        if has_filter:
            fe = w.events("filter")
            eng.oblige(f"{U}/post.filter-sees-the-message", len(fe) == 1 and fe[0][1] == {
                "trigger_type": "event", "event_type": dec._fields["args"][0], "context": in_ctx, "x": x, "y": y})
            eng.oblige(f"{U}/post.filter-exception-reported-once-no-run", (len(handled) == 1) == (filt["result"] == "raises"))
        if accept:
            # guards are consulted in order until one rejects
            upto = next((i for i, p in enumerate([p for p in eng.path_log if p.startswith("guard")]) if p.endswith("=1")), None)
            eng.oblige(f"{U}/post.guards-consulted-in-order-until-one-rejects",
                       guard_events == list(range(n_guards if upto is None else upto + 1)))
        if not want_task or len(tasks) != 1:
            return
        t = tasks[0]
        eng.oblige(f"{U}/post.task-has-its-own-evaluator-registered-for-callbacks",
                   len(created) == 1 and t._fields["ast_ctx"] is created[0] and [e[1:] for e in w.events("cb_ctx")] == [(t, created[0])])
        # run the task body (_call) with a stub user function: kwargs and context parenting
        calls = []

        def call_func(i, func, name, *a, **kw):
            return Coro(lambda: calls.append((func, a, dict(kw))), "call_func")
        created[0]._fields["call_func"] = call_func
        k2, v2 = run_catching(it, lambda: it.await_(t._fields["coro"]))
        want_kw = {"trigger_type": "event", "event_type": dec._fields["args"][0], "context": in_ctx, "x": x, "y": y}
        want_kw.update(deckw.get("kwargs", {}))
        eng.oblige(f"{U}/task.calls-function-once-with-message-plus-decorator-kwargs",
                   k2 == "ok" and len(calls) == 1 and calls[0][0] is eval_func and calls[0][1] == () and
                   sorted(calls[0][2]) == sorted(want_kw) and all(same(calls[0][2][kk], want_kw[kk]) for kk in want_kw))
        st = w.events("store_ctx")
        eng.oblige(f"{U}/task.context-parent-is-the-incoming-context",
                   len(st) == 1 and isinstance(st[0][1], Rec) and st[0][1]._fields.get("parent_id") is in_ctx._fields["id"])
        # the context is stored by the NEW task (inside _call), i.e. after create_task, not by the dispatcher
        order = [e[0] for e in w.trace if e[0] in ("create_task", "store_ctx")]
        eng.oblige(f"{U}/task.context-stored-inside-the-new-task", order == ["create_task", "store_ctx"])
    return h


# ----------------------------------------------------------------------------------------------------------
# legacy: TrigInfo.call_action
# ----------------------------------------------------------------------------------------------------------
def h_call_action(eng):
    it = Interpreter(eng)
    w = World(eng)
    tmod, Fn = c09.trig_module(eng, it, w)
    created, tasks = [], []

    def AstEval(i, name, gctx, *a, **k):
        r = Rec(fields={"name": name, "global_ctx": gctx}, name="action_ast_ctx")
        created.append(r)
        return r

    def create_task(i, coro, ast_ctx=None):
        t = Rec(fields={"coro": coro, "ast_ctx": ast_ctx}, name=f"task{len(tasks)}")
        tasks.append(t)
        w.emit("create_task", coro, ast_ctx)
        return t

    Fn._fields.update({"create_task": create_task, "store_hass_context": lambda i, c: w.emit("store_ctx", c),
                       "task_done_callback_ctx": lambda i, t, a: w.emit("cb_ctx", t, a),
                       "task_unique_factory": lambda i, a: (lambda i2, name: Coro(lambda: w.emit("task_unique", name), "task_unique")),
                       "unique_name_used": lambda i, a, n: SV(z3.Const("unique_name_in_use", z3.BoolSort())),
                       "hass": Rec(fields={"bus": Rec(fields={"async_fire": lambda i, *a, **k: w.emit("fire", a, k)})})})
    tmod.env.vars["AstEval"] = AstEval
    CONTEXT_CLS_CTOR(None)
    tmod.env.vars["Context"] = CONTEXT_CLS
    U = "C08/TrigInfo.call_action"
    gctx = Rec(name="gctx")
    action = Rec(fields={"global_ctx_name": "file.x", "name": "f", "global_ctx": gctx}, name="action")
    uniq = ["none", "unique", "unique-kill_me"][eng.choose(3, "task_unique")]
    ti = Rec(cls=tmod.env.vars["TrigInfo"], fields={
        "name": "file.x.f", "action": action,
        "task_unique": None if uniq == "none" else "myname",
        "task_unique_kwargs": None if uniq != "unique-kill_me" else {"kill_me": True}}, name="TrigInfo")
    has_ctx = bool(eng.choose(2, "incoming-has-context"))
    in_ctx = Rec(cls=CONTEXT_CLS, fields={"id": SV(z3.Const("incoming_ctx_id", ObjS)), "parent_id": None}, name="incoming_ctx")
    func_args = {"trigger_type": "event", "x": SV(z3.Const("data_x", ObjS))}
    if has_ctx:
        func_args["context"] = in_ctx
    k, v = run_catching(it, lambda: it.call(it.getattr_(ti, "call_action"), ["event", func_args], {}))
    eng.cover(f"ran:{k}")
    eng.oblige(f"{U}/post.no-exception", k == "ok")
    blocked = uniq == "unique-kill_me" and any(p.startswith("L") and "and" in p for p in eng.path_log) and v is False
    if v is False:
        eng.oblige(f"{U}/post.kill_me-blocks-only-when-name-in-use", uniq == "unique-kill_me" and len(tasks) == 0)
        return
    eng.oblige(f"{U}/post.exactly-one-task", v is True and len(tasks) == 1)
    if len(tasks) != 1:
        return
    t = tasks[0]
    eng.oblige(f"{U}/post.own-evaluator-registered-for-callbacks",
               len(created) == 1 and t._fields["ast_ctx"] is created[0] and [e[1:] for e in w.events("cb_ctx")] == [(t, created[0])])
    calls = []
    created[0]._fields["call_func"] = lambda i, func, name, *a, **kw: Coro(lambda: calls.append((func, a, dict(kw))), "call_func")
    created[0]._fields["log_exception"] = lambda i, e: w.emit("log_exception", e)
    k2, v2 = run_catching(it, lambda: it.await_(t._fields["coro"]))
    eng.oblige(f"{U}/task.calls-function-once-with-the-arguments",
               k2 == "ok" and len(calls) == 1 and calls[0][0] is action and sorted(calls[0][2]) == sorted(func_args)
               and all(same(calls[0][2][kk], func_args[kk]) for kk in func_args))
    st = w.events("store_ctx")
    eng.oblige(f"{U}/task.context-parent-is-the-incoming-context",
               len(st) == 1 and isinstance(st[0][1], Rec) and
               (st[0][1]._fields.get("parent_id") is in_ctx._fields["id"] if has_ctx else st[0][1]._fields.get("parent_id") is None))
    order = [e[0] for e in w.trace if e[0] in ("create_task", "store_ctx", "task_unique")]
    eng.oblige(f"{U}/task.context-then-task_unique-inside-the-new-task",
               order == ["create_task", "store_ctx"] + (["task_unique"] if uniq != "none" else []))


def bounded_dual(seed_base, programs):
    def run(seed):
        from replay.native import run_native
        return run_native("cx_dual_bounded", {"seed": seed_base + seed, "programs": programs}, timeout=1500)
    return run


def h_mqtt_handler(which):
    """The MQTT message handler (legacy: the closure made per subscription; new: the decorator's bound method): every message
    yields its OWN argument set - trigger_type, topic, payload, qos, retain of THAT message, and payload_obj exactly when THAT
    payload is JSON.  Two messages are handled in a row (JSON or not, by the path) so that nothing can carry over."""
    def h(eng):
        it = Interpreter(eng)
        w = World(eng)
        U = f"C08/mqtt-message-handler[{which}]"
        sent = []
        valid = [bool(eng.choose(2, "first-payload-is-json")), bool(eng.choose(2, "second-payload-is-json"))]
        parsed = [SV(z3.Const("parsed_payload_1", ObjS)), SV(z3.Const("parsed_payload_2", ObjS))]
        msgs = [Rec(fields={"topic": SV(z3.Const(f"topic_{k}", ObjS)), "payload": SV(z3.Const(f"payload_{k}", ObjS)), "qos": SV(z3.Const(f"qos_{k}", ObjS)),
                            "retain": SV(z3.Const(f"retain_{k}", ObjS))}, name=f"mqttmsg{k}") for k in (1, 2)]

        def loads(i, payload):
            k = 0 if payload is msgs[0]._fields["payload"] else 1
            if not valid[k]:
                raise exc("ValueError", "not json")
            return parsed[k]
        jsonm = PyModule("json", {"loads": loads})
        if which == "legacy":
            tb = ListenTable(eng, it, w, "Mqtt")
            tb.mod.env.vars["json"] = jsonm
            cls = tb.cls
            cls.attrs["update"] = lambda i, topic, fa: Coro(lambda: sent.append((topic, dict(fa), fa)), "Mqtt.update")
            cls.attrs["update"]._is_method = False
            handler = it.call(it.getattr_(cls, "mqtt_message_handler_maker"), ["a/b"], {})
            call = lambda m: it.await_(it.call(handler, [m], {}))
        else:
            import ast as _ast
            from pyvc.loader import parse_file
            from pyvc.interp import Env
            tree, _ = parse_file(f"{PKG}/decorators/mqtt.py")
            c = next(n for n in tree.body if isinstance(n, _ast.ClassDef) and n.name == "MQTTTriggerDecorator")
            fn = next(n for n in c.body if isinstance(n, _ast.AsyncFunctionDef) and n.name == "_mqtt_message_handler")
            self_ = Rec(fields={"has_expression": lambda i: False, "dispatch": lambda i, d: Coro(lambda: sent.append(("a/b", dict(d._fields["func_args"]), d._fields["func_args"])), "dispatch")}, name="mqtt_dec")
            DD = lambda i, fa: Rec(fields={"func_args": fa}, name="DispatchData")

            def call(m):
                env = Env(vars={"self": self_, "mqttmsg": m, "json": jsonm, "DispatchData": DD})
                return it.exec_block(fn.body, env)
        k1, _ = run_catching(it, lambda: call(msgs[0]))
        k2, _ = run_catching(it, lambda: call(msgs[1]))
        eng.cover(f"ran:{k1}:{k2}")
        eng.oblige(f"{U}/post.no-exception", k1 == "ok" and k2 == "ok")
        eng.oblige(f"{U}/post.one-delivery-per-message", len(sent) == 2)
        if len(sent) != 2:
            return
        for k in (0, 1):
            want = {"trigger_type": "mqtt", "topic": msgs[k]._fields["topic"], "payload": msgs[k]._fields["payload"], "qos": msgs[k]._fields["qos"], "retain": msgs[k]._fields["retain"]}
            if valid[k]:
                want["payload_obj"] = parsed[k]
            got = sent[k][1]
            ob = eng.oblige(f"{U}/post.arguments-are-those-of-this-message", set(got) == set(want) and all(got[x] is want[x] or got[x] == want[x] for x in want))
            if ob.status == "refuted":
                ob.witness = {"signature": "mqtt-arguments-carried-over", "which": which, "json": valid}
        eng.oblige(f"{U}/post.each-message-gets-its-own-dictionary", sent[0][2] is not sent[1][2])
    return h


def h_webhook_handler(which):
    """The webhook request handler (legacy: Webhook.webhook_handler; new: WebhookTriggerDecorator._handler, both cut out of their
    class mechanically): every request yields exactly trigger_type, webhook_id and the payload OF THAT REQUEST - the JSON body when
    the content type says json, otherwise the form fields (first value of each key).  Two requests in a row."""
    def h(eng):
        import ast as _ast
        from pyvc.loader import parse_file
        from pyvc.interp import Env
        it = Interpreter(eng)
        w = World(eng)
        U = f"C08/webhook-handler[{which}]"
        sent = []
        kinds = [["json", "form"][eng.choose(2, "first-request-content")], ["json", "form"][eng.choose(2, "second-request-content")]]
        bodies = [SV(z3.Const(f"json_body_{k}", ObjS)) for k in (1, 2)]
        fields = [{"a": SV(z3.Const(f"form_a_{k}", ObjS)), "b": SV(z3.Const(f"form_b_{k}", ObjS))} for k in (1, 2)]

        def mk_request(k):
            md = Rec(fields={"keys": lambda i: ["a", "b"], "getone": lambda i, key: fields[k][key]}, name=f"multidict{k}")
            return Rec(fields={"headers": Rec(fields={"get": lambda i, name, default="": ("application/json; charset=utf-8" if kinds[k] == "json" else "application/x-www-form-urlencoded")}, name="headers"),
                               "json": lambda i: Coro(lambda: bodies[k], "request.json"), "post": lambda i: Coro(lambda: md, "request.post")}, name=f"request{k}")
        path, cname, fname = ((WH_PY, "Webhook", "webhook_handler") if which == "legacy" else (f"{PKG}/decorators/webhook.py", "WebhookTriggerDecorator", "_handler"))
        tree, _ = parse_file(path)
        c = next(n for n in tree.body if isinstance(n, _ast.ClassDef) and n.name == cname)
        fn = next(n for n in c.body if isinstance(n, _ast.AsyncFunctionDef) and n.name == fname)
        deliver = lambda tag: (lambda i, *a: Coro(lambda: sent.append((tag, a)), tag))
        cls_ = Rec(fields={"update": lambda i, wid, fa: Coro(lambda: sent.append((wid, dict(fa), fa)), "Webhook.update")}, name="Webhook")
        self_ = Rec(fields={"has_expression": lambda i: False, "dispatch": lambda i, d: Coro(lambda: sent.append(("hook", dict(d._fields["func_args"]), d._fields["func_args"])), "dispatch")}, name="webhook_dec")
        hdrs = PyModule("hdrs", {"CONTENT_TYPE": "Content-Type"})
        DD = lambda i, fa: Rec(fields={"func_args": fa}, name="DispatchData")
        ks = []
        for k in (0, 1):
            env = Env(vars={"cls": cls_, "self": self_, "hass": Rec(name="hass"), "webhook_id": "hook", "request": mk_request(k), "hdrs": hdrs, "DispatchData": DD})
            kk, _ = run_catching(it, lambda: it.exec_block(fn.body, env))
            ks.append(kk)
        eng.cover(f"ran:{ks}")
        eng.oblige(f"{U}/post.no-exception", ks == ["ok", "ok"])
        eng.oblige(f"{U}/post.one-delivery-per-request", len(sent) == 2)
        if len(sent) != 2:
            return
        for k in (0, 1):
            got = sent[k][1]
            ok = set(got) == {"trigger_type", "webhook_id", "payload"} and got["trigger_type"] == "webhook" and got["webhook_id"] == "hook"
            if ok and kinds[k] == "json":
                ok = got["payload"] is bodies[k]
            elif ok:
                ok = isinstance(got["payload"], dict) and set(got["payload"]) == {"a", "b"} and all(got["payload"][x] is fields[k][x] for x in ("a", "b"))
            eng.oblige(f"{U}/post.arguments-are-those-of-this-request", ok)
        eng.oblige(f"{U}/post.each-request-gets-its-own-dictionary", sent[0][2] is not sent[1][2])
    return h


# ----------------------------------------------------------------------------------------------------------
# AstEval.eval(new_state_vars): the scope a trigger / filter / active expression is evaluated in.  Contract, for every
# history of earlier calls on the same evaluator: when the expression runs, the local scope holds exactly this message's
# variables - nothing of an earlier message (a key the earlier message had and this one lacks must be undefined, not stale) -
# and the dictionary the caller passed is not written.
# ----------------------------------------------------------------------------------------------------------
def h_expression_scope(eng):
    from . import C17 as c17
    it, mod, ctx, S = c17.setup(eng)
    U = "C08/AstEval.eval"
    seen = []

    def aeval(i, node):
        def th():
            t = ctx._fields.get("local_sym_table")
            seen.append(dict(t) if isinstance(t, dict) else t)
            return SV(z3.Const("expr_value", ObjS))
        return Coro(th, "aeval")
    installed = {"log.info": Rec(name="log.info"), "task.unique": Rec(name="task.unique")}
    ctx._fields.update({"ast": Rec(name="parsed-expression"), "aeval": aeval, "local_sym_table": {}})
    # Function.install_ast_funcs(ctx) ends in ctx.set_local_sym_table(table of the ast functions)
    it.call(it.getattr_(ctx, "set_local_sym_table"), [installed], {})
    v1, v2 = SV(z3.Const("payload1", ObjS)), SV(z3.Const("payload2", ObjS))
    first = {"trigger_type": "event", "event_type": "ev", "brightness": v1, "only_in_first": SV(z3.Const("extra1", ObjS))}
    second = {"trigger_type": "event", "event_type": "ev", "brightness": v2}
    merge = bool(eng.choose(2, "merge_local"))
    kw = {"merge_local": True} if merge else {}
    first_in, second_in = dict(first), dict(second)
    k1, r1 = run_catching(it, lambda: it.await_(it.call(it.getattr_(ctx, "eval"), [first_in], dict(kw))))
    k2, r2 = run_catching(it, lambda: it.await_(it.call(it.getattr_(ctx, "eval"), [second_in], dict(kw))))
    eng.cover(f"exit:{k1}:{k2}:{merge}")
    eng.oblige(f"{U}/post.no-exception", k1 == "ok" and k2 == "ok" and len(seen) == 2)
    if len(seen) != 2:
        return
    eng.oblige(f"{U}/frame.the-callers-dictionaries-are-not-written", first_in == first and second_in == second)
    if not merge:
        eng.oblige(f"{U}/frame.the-installed-function-table-is-not-written", sorted(installed) == ["log.info", "task.unique"])
    if merge:
        # merge_local=True (callers that want to keep earlier locals) is the documented exception: this message's values win
        eng.oblige(f"{U}/post.merge-keeps-earlier-locals-and-this-message-wins", all(seen[1].get(k) is v for k, v in second.items()))
        return
    ob = eng.oblige(f"{U}/post.first-message-scope-is-exactly-its-variables", seen[0] == first)
    if ob.status == "refuted":
        ob.witness = {"signature": "expression-scope-not-fresh", "what": "scope"}
    ob = eng.oblige(f"{U}/post.later-message-scope-holds-nothing-of-an-earlier-message", seen[1] == second)
    if ob.status == "refuted":
        ob.witness = {"signature": "expression-scope-keeps-earlier-message", "what": "scope"}


def replay_scope(wj):
    from replay.native import run_native
    return run_native("c08_filter_scope", wj, timeout=120)


def harnesses():
    hs = [Harness("AstEval.eval.scope", h_expression_scope, units=[(f"{PKG}/eval.py", "AstEval.eval"), (f"{PKG}/eval.py", "AstEval.set_local_sym_table")], replay=replay_scope)]
    for kind, path in (("Event", EV_PY), ("Mqtt", MQ_PY), ("Webhook", WH_PY)):
        hs.append(Harness(f"{kind}.update", h_update(kind), units=[(path, f"{kind}.update")]))
    hs.append(Harness("Event.event_listener", h_event_listener, units=[(EV_PY, "Event.event_listener")]))
    hs.append(Harness("Function.event_fire", h_event_fire, units=[(F_PY, "Function.event_fire"), (F_PY, "Function.store_hass_context")],
                      replay=replay_event_fire))
    for n in (0, 1, 2):
        hs.append(Harness(f"new-chain[guards={n}]", h_new_chain(n),
                          units=[(DE_PY, "EventTriggerDecorator._event_callback"), (DA_PY, "TriggerDecorator.dispatch"),
                                 (D_PY, "FunctionDecoratorManager.dispatch"), (D_PY, "FunctionDecoratorManager._call"),
                                 (f"{PKG}/decorators/base.py", "ExpressionDecorator.check_expression_vars")],
                          replay=lambda wj: __import__("replay.native", fromlist=["run_native"]).run_native("c08_event_filter_value", wj)))
    hs.append(Harness("mqtt-handler[legacy]", h_mqtt_handler("legacy"), units=[(MQ_PY, "Mqtt.mqtt_message_handler_maker")],
                      replay=lambda wj: __import__("replay.native", fromlist=["run_native"]).run_native("c08_mqtt_stale_payload_obj", wj)))
    hs.append(Harness("mqtt-handler[new]", h_mqtt_handler("new"), units=[(f"{PKG}/decorators/mqtt.py", "MQTTTriggerDecorator._mqtt_message_handler")],
                      replay=lambda wj: __import__("replay.native", fromlist=["run_native"]).run_native("c08_mqtt_stale_payload_obj", wj)))
    hs.append(Harness("webhook-handler[legacy]", h_webhook_handler("legacy"), units=[(WH_PY, "Webhook.webhook_handler")]))
    hs.append(Harness("webhook-handler[new]", h_webhook_handler("new"), units=[(f"{PKG}/decorators/webhook.py", "WebhookTriggerDecorator._handler")]))
    hs.append(Harness("TrigInfo.call_action", h_call_action, units=[(T_PY, "TrigInfo.call_action")]))
    hs.append(Harness("bounded.dual-subsystems", bounded_dual(500, 100), units=[(T_PY, "TrigInfo.trigger_watch"), (D_PY, "FunctionDecoratorManager.dispatch")], kind="bounded"))
    for k in range(1, 5):
        hs.append(Harness(f"bounded.dual-subsystems[thorough {k}/4]", bounded_dual(500 + 10 * k, 300), units=[(T_PY, "TrigInfo.trigger_watch"), (D_PY, "FunctionDecoratorManager.dispatch")], kind="bounded", tier="thorough"))
    return hs

"""C17 - import and builtin restrictions hold for every import form.

Units (eval.py): AstEval.ast_import, ast_importfrom, ast_name (builtin exclusion), ast_eval_exec_factory.
Module names are arbitrary strings (z3 String theory): the allow-list test must be exact membership."""
from __future__ import annotations

import ast

import z3

from pyvc.framework import Harness
from pyvc.interp import Raised, Coro, exc, SymPySet, TYPES
from pyvc.loader import Module
from pyvc.stmts import Interpreter, PyModule
from pyvc.values import Rec, ClassRec, SV, USort
from .common import A_LOG, PKG, logger_stub, run_catching, World

PROPERTY = "C17"
E_PY = f"{PKG}/eval.py"
C_PY = f"{PKG}/const.py"
StrS = z3.StringSort()
ObjS = USort("Obj")

ASSUMPTIONS = [
    A_LOG,
    "GlobalContext.module_import(name, level) returns the pyscript module/app package of that name or None (it finds "
    "exactly the files under modules/ and apps/): assumed contract; importlib.import_module / sys.modules deliver the "
    "installed module of that name (ghost effect 'real_import')",
    "module names are arbitrary strings (z3 strings; cvc5 second opinion)",
    "hasattr(builtins, name) is an uninterpreted predicate of the name; the builtins named in BUILTIN_EXCLUDE exist",
    "async_setup_entry (prefix up to State.set_pyscript_config, cut out mechanically): Function/Event/Mqtt/TrigTime/State/Webhook/"
    "GlobalContextMgr/DecoratorRegistry .init, update_yaml_config and the executor jobs do not write hass.data[DOMAIN] (stubs); the "
    "rest of async_setup_entry (service registration, listeners) is not under contract",
]
NOT_DECIDED = ["which files module_import finds (C10/C11 territory)"]
SHAPE_BOUNDS = {"names in one import statement": "<= 2", "names in one from-import": "<= 2 (+ the * form)"}
LEVEL_TEXT = ("Proof over all strings: ast_import / ast_importfrom raise ModuleNotFoundError exactly when the name is "
              "neither a pyscript module nor allow-listed and allow_all_imports is off, bind nothing on that path, and "
              "bind exactly the documented names otherwise; an excluded builtin name never resolves to the builtin; "
              "eval()/exec() run the text through a fresh AstEval (same handlers).")


def load_allowed(it):
    cm = Module(it, C_PY, stubs={})
    return cm.env.vars["ALLOWED_IMPORTS"]


def setup(eng):
    it = Interpreter(eng)
    allowed = load_allowed(it)
    assert isinstance(allowed, SymPySet) and len(allowed) > 5
    trace = []
    allow_all = z3.Bool("allow_all_imports")
    is_pyscript_module = z3.Function("is_pyscript_module", StrS, z3.IntSort(), z3.BoolSort())

    def module_import(i, name, level):
        def th():
            trace.append(("module_import", name, level))
            nt = name.t if isinstance(name, SV) else z3.StringVal(name)
            if eng.branch(is_pyscript_module(nt, z3.IntVal(level)), "is-pyscript-module"):
                return mk_module("pyscript", name)
            return None
        return Coro(th, "module_import")

    def mk_module(kind, name):
        return Rec(fields={"__dict__": {"pub": SV(z3.Const(f"{kind}.pub", ObjS)), "_priv": SV(z3.Const(f"{kind}._priv", ObjS)),
                                        "other": SV(z3.Const(f"{kind}.other", ObjS))},
                           "pub": SV(z3.Const(f"{kind}.pub", ObjS)), "other": SV(z3.Const(f"{kind}.other", ObjS)),
                           "_priv": SV(z3.Const(f"{kind}._priv", ObjS)), "kind": kind, "modname": name}, name=f"module<{kind}>")

    def import_module(i, name):
        trace.append(("real_import", name))
        return mk_module("installed", name)

    def executor(i, fn, *a):
        return Coro(lambda: i.call(fn, list(a), {}), "executor")

    binds = []

    class _T:
        pass
    sym = Rec(fields={"__setitem__": lambda i, k, v: binds.append((k, v))}, name="sym_table")
    cfg = Rec(fields={"data": Rec(fields={"get": lambda i, k, d=None: SV(allow_all) if k == "allow_all_imports" else d})}, name="config_entry")
    hass = Rec(fields={"async_add_executor_job": executor}, name="hass")
    stubs = {"_LOGGER": logger_stub(), "Function": Rec(fields={"hass": hass, "get": lambda i, n: None}),
             "importlib": PyModule("importlib", {"import_module": import_module}),
             "sys": PyModule("sys", {"modules": {}}), "ALLOWED_IMPORTS": allowed, "CONF_ALLOW_ALL_IMPORTS": "allow_all_imports",
             "ast": PyModule("ast", {n: getattr(ast, n) for n in dir(ast) if not n.startswith("_")}),
             "State": Rec(fields={"exist": lambda i, n: False}, name="State"),
             "logging": PyModule("logging", {"getLogger": lambda i, n: logger_stub()})}
    mod = Module(it, E_PY, stubs=stubs)
    ctx = Rec(cls=mod.env.vars["AstEval"], fields={"global_ctx": Rec(fields={"module_import": module_import}),
                                                   "config_entry": cfg, "sym_table": sym, "name": "file.x"}, name="AstEval")
    return it, mod, ctx, dict(trace=trace, binds=binds, allowed=allowed, allow_all=allow_all, is_pm=is_pyscript_module)


def in_allowed(S, n):
    return z3.Or(*[n == z3.StringVal(a) for a in S["allowed"]])


def alias(name, asname=None):
    a = ast.alias(name="x", asname=asname)
    a.name = name
    return a


def h_import(n_names):
    def h(eng):
        it, mod, ctx, S = setup(eng)
        U = "C17/AstEval.ast_import"
        names = [z3.String(f"modname{i}") for i in range(n_names)]
        with_as = bool(eng.choose(2, "asname"))
        node = ast.Import(names=[alias(SV(n), f"alias{i}" if with_as else None) for i, n in enumerate(names)])
        kind, val = run_catching(it, lambda: it.await_(it.call(it.getattr_(ctx, "ast_import"), [node], {})))
        eng.cover(f"exit:{kind}")
        pm = [S["is_pm"](n, z3.IntVal(0)) for n in names]
        ok_i = [z3.Or(pm[i], S["allow_all"], in_allowed(S, names[i])) for i in range(n_names)]

        def wit(ob, i):
            m = ob._z3model
            if m is None:
                return {"signature": f"import-form,names={n_names}", "form": "import", "solver": "cvc5"}
            return {"signature": f"import-form,names={n_names}", "form": "import", "index": i,
                    "names": [m.eval(n, model_completion=True).as_string() for n in names],
                    "allow_all": bool(m.eval(S["allow_all"], model_completion=True)),
                    "is_pyscript_module": [bool(m.eval(p, model_completion=True)) for p in pm]}
        nb = len(S["binds"])
        if kind == "exc":
            ob = eng.oblige(f"{U}/post.only-ModuleNotFoundError", val.cls.name == "ModuleNotFoundError")
            # the statement fails at the FIRST name that is not importable; names before it were bound (Python does
            # the same), the failing name and all later ones bind nothing
            ob = eng.oblige(f"{U}/post.error-only-for-a-forbidden-name", z3.And(nb < n_names, z3.Not(ok_i[nb]) if nb < n_names else False,
                                                                              *[ok_i[j] for j in range(nb)]))
            if ob.status == "refuted":
                ob.witness = wit(ob, nb)
        else:
            ob = eng.oblige(f"{U}/post.success-only-if-every-name-is-importable", z3.And(*ok_i) if ok_i else True)
            if ob.status == "refuted":
                ob.witness = wit(ob, 0)
            eng.oblige(f"{U}/post.binds-each-name-once", nb == n_names and all(
                (b[0] == f"alias{i}" if with_as else (isinstance(b[0], SV) and b[0].t.eq(names[i]))) for i, b in enumerate(S["binds"])))
            # a pyscript module takes precedence over an installed module of the same name
            for i, b in enumerate(S["binds"]):
                eng.oblige(f"{U}/post.pyscript-module-takes-precedence", pm[i] == (b[1]._fields["kind"] == "pyscript"))
        # nothing is really imported for a forbidden name
        for e in S["trace"]:
            if e[0] == "real_import":
                nt = e[1].t
                ob = eng.oblige(f"{U}/post.never-imports-a-forbidden-module", z3.Or(S["allow_all"], in_allowed(S, nt)))
                if ob.status == "refuted":
                    ob.witness = wit(ob, 0)
    return h


def h_importfrom(form):
    def h(eng):
        it, mod, ctx, S = setup(eng)
        U = "C17/AstEval.ast_importfrom"
        m = z3.String("modname")
        level = [0, 1][eng.choose(2, "level")]
        if form == "star":
            aliases = [alias("*")]
        elif form == "as":
            aliases = [alias("pub", "mypub")]
        else:
            aliases = [alias("pub"), alias("other")]
        node = ast.ImportFrom(module="x", names=aliases, level=level)
        node.module = SV(m)
        kind, val = run_catching(it, lambda: it.await_(it.call(it.getattr_(ctx, "ast_importfrom"), [node], {})))
        eng.cover(f"exit:{kind}")
        stubs = z3.Or(m == z3.StringVal("stubs"), z3.PrefixOf(z3.StringVal("stubs."), m))
        pm = S["is_pm"](m, z3.IntVal(level))
        ok = z3.Or(pm, S["allow_all"], in_allowed(S, m))
        nb = len(S["binds"])

        def wit(ob):
            mm = ob._z3model
            if mm is None:
                return {"signature": f"from-import,{form}", "form": "from", "solver": "cvc5"}
            return {"signature": f"from-import,{form}", "form": "from", "names": [mm.eval(m, model_completion=True).as_string()],
                    "allow_all": bool(mm.eval(S["allow_all"], model_completion=True)), "is_pyscript_module": [bool(mm.eval(pm, model_completion=True))]}
        if kind == "exc":
            eng.oblige(f"{U}/post.only-ModuleNotFoundError", val.cls.name == "ModuleNotFoundError")
            ob = eng.oblige(f"{U}/post.error-iff-forbidden-and-binds-nothing",
                            z3.And(nb == 0, z3.Or(z3.And(z3.Not(stubs), z3.Not(ok)), z3.And(stubs, form == "as"))))
            if ob.status == "refuted":
                ob.witness = wit(ob)
        else:
            real = [e for e in S["trace"] if e[0] == "real_import"]
            ob = eng.oblige(f"{U}/post.success-iff-allowed", z3.Or(stubs, ok))
            if ob.status == "refuted":
                ob.witness = wit(ob)
            # from-imports below 'stubs' are ignored: they bind nothing and import nothing
            if nb == 0:
                eng.oblige(f"{U}/post.binds-nothing-only-for-stubs", z3.And(stubs, len(real) == 0, len(S["trace"]) == 0))
            else:
                eng.oblige(f"{U}/post.stubs-never-bind", z3.Not(stubs))
                keys = [b[0] for b in S["binds"]]
                want = {"star": ["pub", "other"], "as": ["mypub"], "two": ["pub", "other"]}[form]
                eng.oblige(f"{U}/post.binds-exactly-the-requested-public-names", sorted(keys) == sorted(want))
            for e in real:
                ob = eng.oblige(f"{U}/post.never-imports-a-forbidden-module", z3.Or(S["allow_all"], in_allowed(S, e[1].t)))
                if ob.status == "refuted":
                    ob.witness = wit(ob)
    return h


def replay_import(wj):
    from replay.native import run_native
    return run_native("c17_imports", wj, timeout=300)


def h_builtin_exclusion(eng):
    it, mod, ctx, S = setup(eng)
    U = "C17/AstEval.ast_name"
    is_builtin = z3.Function("python_has_builtin", StrS, z3.BoolSort())
    builtin_val = z3.Function("python_builtin", StrS, ObjS)
    name = z3.String("identifier")
    excluded = mod.env.vars["BUILTIN_EXCLUDE"]
    logger_print = SV(z3.Const("pyscript_logger_print", ObjS))

    def hasattr_b(i, obj, nm):
        return SV(is_builtin(nm.t if isinstance(nm, SV) else z3.StringVal(nm)))

    def getattr_b(i, obj, nm, *d):
        return SV(builtin_val(nm.t if isinstance(nm, SV) else z3.StringVal(nm)))
    it.builtins["hasattr"] = hasattr_b
    it.builtins["getattr"] = getattr_b
    mod.env.vars["builtins"] = Rec(name="builtins")
    mod.env.vars["BUILTIN_AST_FUNCS_FACTORY"] = {}
    f = ctx._fields
    # at module level, or inside a function that declares ARBITRARY sets of names global / local (every branch of the lookup)
    if eng.choose(2, "inside-a-function"):
        from pyvc.values import Store, TSet
        from pyvc.interp import SymPySet
        gn = Store(eng, "curr_func.global_names", TSet(StrS))
        ln = Store(eng, "curr_func.local_names", TSet(StrS))
        f["curr_func"] = Rec(fields={"global_names": gn.view(), "local_names": ln.view(), "nonlocal_names": SymPySet([])}, name="curr_func")
        f["sym_table"] = {}
        f["global_sym_table"] = {}
    else:
        f["curr_func"] = None
        f["sym_table"] = {}
        f["global_sym_table"] = f["sym_table"]
    # Function.install_ast_funcs puts pyscript's print/log functions into the local symbol table
    f["local_sym_table"] = {"print": logger_print}
    for x in excluded:
        eng.assume(is_builtin(z3.StringVal(x)))
    node = ast.Name(id="x", ctx=ast.Load())
    node.id = SV(name)
    # restrict to plain identifiers (no dots: state-variable lookups are C16)
    eng.assume(z3.Not(z3.Contains(name, z3.StringVal("."))))
    eng.assume(z3.Length(name) > 0)
    eng.assume(logger_print.t != builtin_val(name))  # pyscript's print function is not the builtin object
    kind, val = run_catching(it, lambda: it.await_(it.call(it.getattr_(ctx, "ast_name"), [node], {})))
    eng.cover(f"exit:{kind}")
    ex = z3.Or(*[name == z3.StringVal(x) for x in excluded])
    if kind == "ok" and isinstance(val, SV) and val.t.sort() == ObjS:
        got_builtin = val.t == builtin_val(name)
        ob = eng.oblige(f"{U}/post.excluded-builtin-never-reachable", z3.Implies(got_builtin, z3.And(z3.Not(ex), z3.SubString(name, 0, 1) != z3.StringVal("_"))))
        if ob.status == "refuted":
            ob.witness = {"signature": "excluded-builtin-reachable", "name": ob._z3model.eval(name, model_completion=True).as_string()}
        eng.oblige(f"{U}/post.print-is-the-logger-function", z3.Implies(name == z3.StringVal("print"), val.t == logger_print.t))
    elif kind == "ok":
        # EvalName (undefined) : only for names that are neither builtins nor pyscript functions
        eng.oblige(f"{U}/post.undefined-only-if-not-an-allowed-builtin",
                   z3.Or(z3.Not(is_builtin(name)), ex, z3.SubString(name, 0, 1) == z3.StringVal("_")))


I_PY = f"{PKG}/__init__.py"


def h_setup_entry_prefix(eng):
    """The import / builtin restrictions are read from hass.data[DOMAIN][CONFIG_ENTRY].data (AstEval.__init__, GlobalContext).
    async_setup_entry - run for the first set-up, for every reload, and again when the integration is removed and configured
    anew - must therefore install THE ENTRY IT IS GIVEN there, whatever an earlier set-up left behind.  The statements of
    async_setup_entry up to State.set_pyscript_config(...) are cut mechanically out of the function and run on an arbitrary
    earlier hass.data; everything they call is a no-effect stub (assumed)."""
    import ast as _ast
    from pyvc.interp import Env
    from pyvc.loader import find_def, parse_file
    it = Interpreter(eng)
    w = World(eng)
    tree, _ = parse_file(I_PY)
    fn = find_def(tree, "async_setup_entry")
    end = next((i for i, st in enumerate(fn.body) if "set_pyscript_config" in _ast.unparse(st)), None)
    U = "C17/async_setup_entry#prefix"
    eng.oblige(f"{U}/shape.slice-found", end is not None)
    if end is None:
        return
    stmts = fn.body[:end + 1]
    entry = Rec(fields={"data": {"allow_all_imports": bool(eng.choose(2, "new-allow"))}}, name="config_entry_given")
    earlier = ["none", "same-process-earlier-entry", "domain-without-entry"][eng.choose(3, "earlier-set-up")]
    old_entry = Rec(fields={"data": {"allow_all_imports": True}}, name="config_entry_earlier")
    data = {}
    if earlier == "same-process-earlier-entry":
        data["pyscript"] = {"config_entry": old_entry, "unsub_listeners": [1]}
    elif earlier == "domain-without-entry":
        data["pyscript"] = {}
    noop = lambda i, *a, **k: None
    cls = lambda nm: Rec(fields={"init": noop, "register_functions": noop, "set_pyscript_config": lambda i, d: w.emit("set_pyscript_config", d),
                                 "hass": (None if earlier == "none" else Rec(name="hass-earlier"))}, name=nm)
    hass = Rec(fields={"data": data, "config": Rec(fields={"path": lambda i, *a: "/cfg/pyscript"}),
                       "async_add_executor_job": lambda i, f, *a: Coro(lambda: bool(eng.choose(2, "folder-exists")), "executor")}, name="hass")
    env = Env(vars={"hass": hass, "config_entry": entry, "Function": cls("Function"), "Event": cls("Event"), "Mqtt": cls("Mqtt"), "TrigTime": cls("TrigTime"),
                    "State": cls("State"), "Webhook": cls("Webhook"), "GlobalContextMgr": cls("GlobalContextMgr"), "DecoratorRegistry": cls("DecoratorRegistry"),
                    "update_yaml_config": lambda i, h, c: Coro(lambda: bool(eng.choose(2, "yaml-changed")), "update_yaml_config"),
                    "os": PyModule("os", {"path": PyModule("os.path", {"isdir": "isdir"}), "makedirs": "makedirs"}),
                    "_LOGGER": logger_stub(), "FOLDER": "pyscript", "DOMAIN": "pyscript", "CONFIG_ENTRY": "config_entry", "UNSUB_LISTENERS": "unsub_listeners"})
    k, v = run_catching(it, lambda: it.exec_block(stmts, env))
    eng.cover(f"ran:{k}:{earlier}")
    eng.oblige(f"{U}/post.no-exception", k == "ok")
    dom = data.get("pyscript")
    ob = eng.oblige(f"{U}/post.the-entry-given-is-the-one-the-interpreter-will-consult", isinstance(dom, dict) and dom.get("config_entry") is entry)
    if ob.status == "refuted":
        ob.witness = {"signature": "stale-config-entry", "earlier": earlier}
    ev = w.events("set_pyscript_config")
    eng.oblige(f"{U}/post.state-configured-from-the-entry-given", len(ev) == 1 and ev[0][1] is entry._fields["data"])


def h_eval_exec(eng):
    """eval()/exec() of source text run it through a fresh AstEval built on the same global context: the import
    obligations above therefore apply to code run that way."""
    it, mod, ctx, S = setup(eng)
    U = "C17/ast_eval_exec_factory"
    created = []

    def AstEvalCtor(i, name, gctx, *a):
        r = Rec(fields={"name": name, "global_ctx": gctx, "ast": Rec(name="parsed"), "sym_table": None, "sym_table_stack": None,
                        "local_sym_table": None, "global_sym_table": None, "curr_func": "unset"}, name="eval_ast")
        r._fields["parse"] = lambda i2, src, fn=None, mode="exec": created.append(("parse", r, src, mode))
        r._fields["aeval"] = lambda i2, node: Coro(lambda: (created.append(("aeval", r, node)), SV(z3.Const("eval_result", ObjS)))[1], "aeval")
        created.append(("new", r, name, gctx))
        return r
    mod.env.vars["AstEval"] = AstEvalCtor
    gctx = Rec(name="gctx")
    table = {"g": 1}
    outer = Rec(fields={"name": "file.x", "global_ctx": gctx, "local_sym_table": {"print": 1}, "sym_table_stack": [],
                        "sym_table": table, "global_sym_table": table, "user_locals": {}, "curr_func": None}, name="ast_ctx")
    mode = ["eval", "exec"][eng.choose(2, "mode")]
    fn = it.call(mod.env.vars["ast_eval_exec_factory"], [outer, mode], {})
    src = SV(z3.String("source_text"))
    kind, val = run_catching(it, lambda: it.await_(it.call(fn, [src], {})))
    eng.cover("ran")
    news = [c for c in created if c[0] == "new"]
    parses = [c for c in created if c[0] == "parse"]
    evals = [c for c in created if c[0] == "aeval"]
    eng.oblige(f"{U}/post.text-is-run-by-a-fresh-AstEval-on-the-same-context",
               kind == "ok" and len(news) == 1 and news[0][3] is gctx and len(parses) == 1 and parses[0][2] is src
               and parses[0][3] == mode and len(evals) == 1 and evals[0][1] is news[0][1] and evals[0][2] is news[0][1]._fields["ast"])
    eng.oblige(f"{U}/post.module-level-code-runs-against-the-callers-globals",
               news and news[0][1]._fields["sym_table"] is table and news[0][1]._fields["curr_func"] is None)


def harnesses():
    hs = []
    for n in (1, 2):
        hs.append(Harness(f"ast_import[{n}]", h_import(n), units=[(E_PY, "AstEval.ast_import")], replay=replay_import))
    for form in ("two", "as", "star"):
        hs.append(Harness(f"ast_importfrom[{form}]", h_importfrom(form), units=[(E_PY, "AstEval.ast_importfrom")], replay=replay_import))
    hs.append(Harness("ast_name.builtin-exclusion", h_builtin_exclusion, units=[(E_PY, "AstEval.ast_name")],
                      replay=lambda wj: __import__("replay.native", fromlist=["run_native"]).run_native("c17_excluded_builtin", wj, timeout=300)))
    hs.append(Harness("async_setup_entry.prefix", h_setup_entry_prefix, units=[(I_PY, "async_setup_entry")]))
    hs.append(Harness("eval_exec", h_eval_exec, units=[(E_PY, "ast_eval_exec_factory")]))
    return hs

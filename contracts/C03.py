"""C03 - functions, scoping, closures and classes behave like Python.

Parts (see DESIGN 4 / C03):
  binding      EvalFunc.call up to the body: resulting local table or TypeError equals CPython's own binding of the
               same call shape (the spec IS CPython: `def f(<sig>): return locals()` called with placeholders);
               only documented deviation: unexpected keywords that are all reserved trigger keywords are dropped.
  definition   ast_functiondef: decorator expressions, then defaults, each once, in Python's order; user decorators
               applied innermost first (EFFECT domain).
  lookup       ast_name: first hit in the specified order, UnboundLocalError / NameError exactly when local-but-unbound.
  names        static local/global/nonlocal classification (get_names_set) against the stdlib symtable (bounded).
  closures / classes / recursion / @pyscript_compile: bounded native differential against CPython.
"""
from __future__ import annotations

import ast
import itertools

import z3

from pyvc.framework import Harness
from pyvc.interp import Raised, Coro, exc, SymPySet
from pyvc.values import Rec, ClassRec, SV, USort
from .common import A_LOG, PKG, run_catching
from .effect_common import EvalHarness, template, E_PY
from . import C01 as c01
from specs.pyspec import PyStmtSpec

PROPERTY = "C03"
ObjS = USort("Obj")
TRIGGER_KWARGS = {"context", "event_type", "old_value", "payload", "payload_obj", "qos", "retain", "topic", "trigger_type",
                  "trigger_time", "var_name", "value", "webhook_id"}

ASSUMPTIONS = c01.ASSUMPTIONS[:3] + [
    "argument binding: values are opaque (binding never inspects them); the oracle is CPython binding the same call "
    "shape, computed on every run",
    "closures, classes, bound methods, recursion and @pyscript_compile rely on metaclasses, descriptors and native "
    "compilation: outside the contract language, covered by the bounded native differential only",
]
NOT_DECIDED = ["closures / classes / descriptors / @pyscript_compile beyond the bounded differential"]
SHAPE_BOUNDS = {"signature": "<= 2 positional-only, <= 2 positional-or-keyword, <= 2 keyword-only parameters, optional *args/**kwargs, "
                "every default pattern", "call": "<= 4 positional and <= 3 keyword arguments from {p1,a1,a2,k1,k2, an unknown name, a reserved trigger keyword}: all 206 080 (signature, call) shapes"}
LEVEL_TEXT = ("Proof by shape (all values): argument binding of the real EvalFunc.call equals CPython's binding on the "
              "property's whole shape domain (exhaustive: 644 signatures x 320 call shapes); definition-time "
              "evaluation order and name lookup order proved on templates; closures/classes are a bounded native "
              "differential, never counted as proved.")


# ----------------------------------------------------------------------------------------------------------
# argument binding
# ----------------------------------------------------------------------------------------------------------
def signatures():
    out = []
    for npos in range(3):
        for nreg in range(3):
            for ndef in range(min(npos + nreg, 2) + 1):
                for var in (False, True):
                    for nkw in range(3):
                        kwdefs = [()] if nkw == 0 else ([(False,), (True,)] if nkw == 1 else [(False, False), (False, True), (True, True), (True, False)])
                        for kd in kwdefs:
                            for kwarg in (False, True):
                                out.append((npos, nreg, ndef, var, nkw, kd, kwarg))
    return out


def sig_source(sig):
    npos, nreg, ndef, var, nkw, kd, kwarg = sig
    pos = [f"p{i + 1}" for i in range(npos)]
    reg = [f"a{i + 1}" for i in range(nreg)]
    allp = pos + reg
    parts = []
    for i, n in enumerate(allp):
        d = i >= len(allp) - ndef
        parts.append(f"{n}=D['{n}']" if d else n)
        if i == npos - 1:
            parts.append("/")
    if var:
        parts.append("*va")
    elif nkw:
        parts.append("*")
    for i in range(nkw):
        n = f"k{i + 1}"
        parts.append(f"{n}=D['{n}']" if kd[i] else n)
    if kwarg:
        parts.append("**kw")
    return ", ".join(parts)


def call_shapes():
    pool = ["p1", "a1", "a2", "k1", "k2", "zz", "trigger_type"]
    shapes = []
    for npos in range(5):
        for r in range(4):
            for kws in itertools.combinations(pool, r):
                shapes.append((npos, kws))
    return shapes


def cpython_bind(sigsrc, npos, kws):
    """The oracle: CPython binding the call shape; placeholders are strings naming the argument."""
    D = {n: f"default:{n}" for n in ("p1", "p2", "a1", "a2", "k1", "k2")}
    g = {"D": D}
    exec(f"def f({sigsrc}):\n    return locals()\n", g)
    try:
        r = g["f"](*[f"pos{i}" for i in range(npos)], **{k: f"kw:{k}" for k in kws})
        return ("ok", r)
    except TypeError:
        return ("TypeError", None)


def h_eval_defaults(eng):
    """The binding proof below STARTS from the representation of a signature's defaults that EvalFunc.eval_defaults leaves on the
    function object (defaults, kw_defaults aligned with the keyword-only parameters, num_posn_arg).  This harness runs the real
    eval_defaults on every signature of the shape domain and checks that it produces exactly that representation, so the two
    compose: a definition followed by a call binds like CPython."""
    eng.max_steps = 10 ** 8
    H = EvalHarness(eng)
    it = H.it
    V = H.mod.env.vars
    U = "C03/EvalFunc.eval_defaults"
    eng.cover("ran")
    bad = []
    for sig in signatures():
        sigsrc = sig_source(sig)
        fdef = ast.parse(f"def f({sigsrc}):\n    pass\n".replace("D['", "D_").replace("']", "")).body[0]
        npo, nreg, ndef, var, nkw, kd, kwarg = sig
        allp = [f"p{i + 1}" for i in range(npo)] + [f"a{i + 1}" for i in range(nreg)]
        want_defaults = [f"default:{n}" for n in allp[len(allp) - ndef:]] if ndef else []
        want_kw = [{"ok": kd[i], "val": f"default:k{i + 1}" if kd[i] else None} for i in range(nkw)]
        order = []

        def aeval(i, node, order=order):
            def th():
                order.append(node.id)
                return "default:" + node.id[2:]
            return Coro(th, "aeval")
        ctx = Rec(fields={"aeval": aeval}, name="ast_ctx")
        func = Rec(cls=V["EvalFunc"], fields={"func_def": fdef, "name": "f", "defaults": None, "kw_defaults": None, "num_posonly_arg": npo, "num_posn_arg": None}, name="EvalFunc")
        kind, val = run_catching(it, lambda: it.await_(it.call(it.getattr_(func, "eval_defaults"), [ctx], {})))
        f = func._fields
        ok = (kind == "ok" and list(f["defaults"] or []) == want_defaults and [dict(x) for x in (f["kw_defaults"] or [])] == want_kw
              and f["num_posn_arg"] == npo + nreg - len(want_defaults))
        if not ok:
            bad.append(sigsrc)
    ob = eng.oblige(f"{U}/post.representation-is-the-one-the-binding-proof-starts-from", bad == [])
    if ob.status == "refuted":
        # (a different representation need not bind differently for every signature: hand the replay the ones where a required
        # keyword-only parameter stands next to a defaulted one first)
        pick = sorted(bad, key=lambda t: (("k1, k2=D" not in t) and ("k1=D['k1'], k2" not in t), len(t)))[:5]
        ob.witness = {"signature": "defaults-representation", "sig": pick[0], "sigs": pick, "n_bad": len(bad)}


def replay_defaults(wj):
    """a signature whose defaults are represented differently: bind a few calls natively against CPython"""
    from replay.native import run_native
    r = {"reproduced": False}
    for sig in wj.get("sigs") or [wj.get("sig", "*, k1, k2=D['k2']")]:
        for npos, kws in ((0, ("k1",)), (0, ("k2",)), (0, ("k1", "k2")), (1, ()), (2, ("k1",)), (0, ())):
            r = run_native("c03_binding", {"sig": sig.replace("D['", "").replace("']", "_default"), "npos": npos, "kws": list(kws)})
            if r.get("reproduced") or r.get("error"):
                return r
    return r


def h_binding(chunk, nchunks, stride):
    def h(eng):
        eng.max_steps = 10 ** 9
        eng.wall_budget = 3000.0
        H = EvalHarness(eng)
        it = H.it
        V = H.mod.env.vars
        U = "C03/EvalFunc.call/binding"
        sigs = signatures()
        shapes = call_shapes()
        cases = [(s, c) for s in sigs for c in shapes]
        mine = cases[chunk::nchunks][::stride]
        eng.cover("ran")
        n_bad = 0
        G = Rec(name="gctx")
        for sig, (npos, kws) in mine:
            sigsrc = sig_source(sig)
            fdef = ast.parse(f"def f({sigsrc}):\n    pass\n".replace("D['", "D_").replace("']", "")).body[0]
            npo, nreg, ndef, var, nkw, kd, kwarg = sig
            allp = [f"p{i + 1}" for i in range(npo)] + [f"a{i + 1}" for i in range(nreg)]
            defaults = [f"default:{n}" for n in allp[len(allp) - ndef:]] if ndef else []
            kw_defaults = [{"ok": kd[i], "val": f"default:k{i + 1}" if kd[i] else None} for i in range(nkw)]
            seen = {}
            ctx = Rec(fields={"global_sym_table": Rec(name="T"), "sym_table": Rec(name="caller"), "sym_table_stack": [],
                              "global_ctx": G, "curr_func": None, "user_locals": {}, "code_str": "", "code_list": []}, name="ast_ctx")

            def aeval(i, node, ctx=ctx, seen=seen):
                def th():
                    seen["table"] = dict(ctx._fields["sym_table"])
                    return None
                return Coro(th, "aeval")
            ctx._fields["aeval"] = aeval
            func = Rec(cls=V["EvalFunc"], fields={"func_def": fdef, "name": "f", "global_ctx": G, "global_ctx_name": "file.x",
                                                  "defaults": defaults, "kw_defaults": kw_defaults, "num_posonly_arg": npo,
                                                  "num_posn_arg": npo + nreg - len(defaults), "local_sym_table": {},
                                                  "code_str": "", "code_list": []}, name="EvalFunc")
            args = [f"pos{i}" for i in range(npos)]
            kwargs = {k: f"kw:{k}" for k in kws}
            kind, val = run_catching(it, lambda: it.await_(it.call(it.getattr_(func, "call"), [ctx] + args, kwargs)))
            got = ("ok", seen.get("table")) if kind == "ok" else (val.cls.name, None)
            want = cpython_bind(sigsrc, npos, kws)
            # documented deviation: unexpected keywords that are all reserved trigger keywords are silently dropped
            if want[0] == "TypeError" and not kwarg and kws:
                known = set(allp[npo:]) | {f"k{i + 1}" for i in range(nkw)}
                extra = [k for k in kws if k not in known]
                if extra and set(extra) <= TRIGGER_KWARGS:
                    w2 = cpython_bind(sigsrc, npos, [k for k in kws if k not in extra])
                    want = w2
            ok = got == want
            label = f"def f({sigsrc}) called with {npos} positional, keywords {list(kws)}"
            signame = sigsrc.replace("D['", "<").replace("']", ">")
            ob = eng.oblige(f"{U}/def f({signame})", ok, detail=None if ok else {"case": label, "pyscript": str(got), "cpython": str(want)})
            if not ok:
                n_bad += 1
                cls = "posonly-name-reused-as-keyword-with-**kw" if (npo and kwarg and any(k in allp[:npo] for k in kws)) else "other"
                ob.witness = {"signature": cls, "sig": sigsrc.replace("D['", "").replace("']", "_default"), "npos": npos, "kws": list(kws),
                              "pyscript": str(got), "cpython": str(want)}
    return h


def replay_binding(wj):
    from replay.native import run_native
    return run_native("c03_binding", wj)


NCHUNKS = 16


def b_random_func(seed_base, programs):
    def run(seed):
        from replay.native import run_native
        return run_native("c01_random_bounded", {"seed": seed_base + seed, "programs": programs, "what": "func", "max_failures": 5}, timeout=1500)
    return run


def harnesses():
    hs = []
    for c in range(NCHUNKS):
        # the whole shape domain of the property (206 080 call shapes) is cheap enough for the quick tier
        if c == 0:
            hs.append(Harness("eval_defaults.representation", h_eval_defaults, units=[(E_PY, "EvalFunc.eval_defaults")], replay=replay_defaults))
        hs.append(Harness(f"binding[{c}/{NCHUNKS}]", h_binding(c, NCHUNKS, 1), units=[(E_PY, "EvalFunc.call")], replay=replay_binding))
    return hs


# ----------------------------------------------------------------------------------------------------------
# definition time: decorators, then defaults, each once, in Python's order; decorators applied innermost first
# ----------------------------------------------------------------------------------------------------------
DEFN = {
    "FunctionDef.defaults": "def f(a=_c0, b=_c1, *, k=_c2):\n    _s0",
    "FunctionDef.decorated": "@_c0\n@_c1\ndef f(a=_c2, *, k=_c3):\n    _s0",
    "FunctionDef.one-decorator": "@_c0\ndef f(a=_c1):\n    _s0",
}


class DefSpec(PyStmtSpec):
    """8.7: the decorator expressions are evaluated when the function is defined, in the scope that contains the
    function definition; then the default parameter values, left to right; the function object is created and the
    decorators are applied in nested fashion (the last decorator first); the result is bound to the name."""

    def ex_FunctionDef(self, n):
        it = self.it
        decs = [self.ev(d) for d in n.decorator_list]
        for d in n.args.defaults:
            self.ev(d)
        for d in n.args.kw_defaults:
            if d is not None:
                self.ev(d)
        func = SV(z3.Const("const:the-function-being-defined", ObjS))
        for d in reversed(decs):
            func = it.prim("call[.|]", [it.obj(d), it.obj(func)])
        self.store_name(n.name, func)


def h_definition(name, src):
    def h(eng):
        H = EvalHarness(eng)
        it = H.it
        it.new_function_classes = ("EvalFunc", "EvalFuncVar")
        U = f"C03/{name}"
        f = H.ctx._fields
        f["code_list"], f["code_str"], f["dec_eval_depth"] = [], "", 0
        gctx = f["global_ctx"]
        gctx._fields.update({"get_name": lambda i: "file.x", "set_logger_name": lambda i, n: None, "global_sym_table": H.vars,
                             "get_decorator_by_expr": lambda i, a, d: Coro(lambda: None, "get_decorator_by_expr"),
                             "trigger_register": lambda i, fn: False})
        f["get_global_ctx"] = lambda i: gctx
        node = template(src, "exec")
        impl = H.impl_completion(node)
        spec_node = template(src, "exec")
        S = DefSpec(H.it, H.vars)
        spec = H.outcome_completion(lambda: S.completion(lambda: S.ex(spec_node)))
        eng.cover(f"{impl[0]}/{spec[0]}")
        H.compare(U, impl, spec, witness={"signature": name, "template": name, "source": c01.native_source(src), "mode": "exec"}, value=False)
    return h


def replay_definition(wj):
    from replay.native import run_native
    return run_native("c03_definition_order", wj)


# ----------------------------------------------------------------------------------------------------------
# name lookup order (ast_name), membership of the name in every table symbolic
# ----------------------------------------------------------------------------------------------------------
def h_lookup(in_function):
    def h(eng):
        from pyvc.stmts import Interpreter, PyModule
        from pyvc.loader import Module
        from .common import logger_stub
        it = Interpreter(eng)
        U = f"C03/AstEval.ast_name[{'function' if in_function else 'module'}]"
        B = z3.BoolSort()
        flags = {k: z3.Bool(f"in_{k}") for k in ("declared_global", "locals", "local_is_cell", "cell_defined", "pyscript_funcs",
                                                 "globals", "is_local_name", "ast_factory", "builtins", "excluded", "registered")}
        vals = {k: SV(z3.Const(f"value_from_{k}", ObjS)) for k in ("locals", "cell", "pyscript_funcs", "globals", "ast_factory", "builtins", "registered")}
        eng.assume(z3.Distinct(*[v.t for v in vals.values()]))

        def table(flag, value):
            return Rec(fields={"__contains__": lambda i, k: SV(flag), "__getitem__": lambda i, k: value}, name="table")
        V = {}
        EvalLocalVar = ClassRec("EvalLocalVar")
        cell = Rec(cls=EvalLocalVar, fields={}, name="cell")

        def cell_get(i):
            if eng.branch(flags["cell_defined"], "cell-defined"):
                return vals["cell"]
            raise exc("NameError", "name 'n' is not defined")
        cell._fields["get"] = cell_get

        def locals_get(i, k):
            if eng.branch(flags["local_is_cell"], "local-is-cell"):
                return cell
            return vals["locals"]
        loc = Rec(fields={"__contains__": lambda i, k: SV(flags["locals"]), "__getitem__": locals_get}, name="locals")
        glob = table(flags["globals"], vals["globals"])
        curr_func = Rec(fields={"global_names": Rec(fields={"__contains__": lambda i, k: SV(flags["declared_global"])}),
                                "local_names": Rec(fields={"__contains__": lambda i, k: SV(flags["is_local_name"])})}, name="curr_func") if in_function else None
        stubs = {"_LOGGER": logger_stub(), "EvalLocalVar": EvalLocalVar,
                 "BUILTIN_AST_FUNCS_FACTORY": Rec(fields={"__contains__": lambda i, k: SV(flags["ast_factory"]),
                                                          "__getitem__": lambda i, k: (lambda i2, ctx: vals["ast_factory"])}),
                 "BUILTIN_EXCLUDE": Rec(fields={"__contains__": lambda i, k: SV(flags["excluded"])}),
                 "builtins": Rec(name="builtins"),
                 "Function": Rec(fields={"get": lambda i, n: vals["registered"] if eng.branch(flags["registered"], "registered") else None}),
                 "State": Rec(fields={"exist": lambda i, n: False}),
                 "ast": PyModule("ast", {n: getattr(ast, n) for n in dir(ast) if not n.startswith("_")}),
                 "logging": PyModule("logging", {"getLogger": lambda i, n: logger_stub()})}
        mod = Module(it, E_PY, stubs=stubs)
        it.builtins["hasattr"] = lambda i, o, n: SV(flags["builtins"])
        it.builtins["getattr"] = lambda i, o, n, *d: vals["builtins"]
        ctx = Rec(cls=mod.env.vars["AstEval"], fields={"curr_func": curr_func, "sym_table": loc if in_function else glob,
                                                       "global_sym_table": glob, "local_sym_table": table(flags["pyscript_funcs"], vals["pyscript_funcs"]),
                                                       "name": "file.x"}, name="AstEval")
        node = ast.Name(id="n", ctx=ast.Load())
        kind, val = run_catching(it, lambda: it.await_(it.call(it.getattr_(ctx, "ast_name"), [node], {})))
        eng.cover(f"exit:{kind}")
        F = flags
        got = lambda key: (isinstance(val, SV) and val.t.eq(vals[key].t)) if kind == "ok" else False
        undefined = kind == "ok" and isinstance(val, Rec) and val._cls is not None and val._cls.name == "EvalName"
        builtin_ok = z3.And(F["builtins"], z3.Not(F["excluded"]))
        # the specified order: Python's (declared global -> locals / cells -> module globals -> builtins), where
        # pyscript's own functions (print, log.*, task.*, eval, exec, ...) rank with the builtins, then registered
        # functions / services
        if in_function:
            spec = [("declared_global", z3.And(F["declared_global"], F["globals"]), "globals"),
                    ("locals", z3.And(z3.Not(F["declared_global"]), F["locals"], z3.Not(F["local_is_cell"])), "locals"),
                    ("cell", z3.And(z3.Not(F["declared_global"]), F["locals"], F["local_is_cell"], F["cell_defined"]), "cell"),
                    ("globals", z3.And(z3.Not(F["declared_global"]), z3.Not(F["locals"]), F["globals"], z3.Not(F["is_local_name"])), "globals")]
            rest_pre = z3.And(z3.Not(F["declared_global"]), z3.Not(F["locals"]), z3.Not(F["globals"]))
        else:
            spec = [("globals", F["globals"], "globals")]
            rest_pre = z3.Not(F["globals"])
        spec += [("pyscript_funcs", z3.And(rest_pre, F["pyscript_funcs"]), "pyscript_funcs"),
                 ("ast_factory", z3.And(rest_pre, z3.Not(F["pyscript_funcs"]), F["ast_factory"]), "ast_factory"),
                 ("builtins", z3.And(rest_pre, z3.Not(F["pyscript_funcs"]), z3.Not(F["ast_factory"]), builtin_ok), "builtins"),
                 ("registered", z3.And(rest_pre, z3.Not(F["pyscript_funcs"]), z3.Not(F["ast_factory"]), z3.Not(builtin_ok), F["registered"]), "registered")]
        for label, cond, key in spec:
            ob = eng.oblige(f"{U}/post.resolves-to-{label}-when-specified", z3.Implies(cond, got(key)))
            if ob.status == "refuted":
                ob.witness = {"signature": f"lookup:{label}", "in_function": in_function,
                              "flags": {k: bool(ob._z3model.eval(v, model_completion=True)) for k, v in F.items()},
                              "got": "exception:" + val.cls.name if kind == "exc" else ("undefined" if undefined else
                                     next((k for k in vals if got(k)), "?"))}
        if in_function:
            eng.oblige(f"{U}/post.declared-global-missing-is-NameError",
                       z3.Implies(z3.And(F["declared_global"], z3.Not(F["globals"])), kind == "exc" and val.cls.name == "NameError"))
            eng.oblige(f"{U}/post.unbound-cell-is-a-NameError-family-error",
                       z3.Implies(z3.And(z3.Not(F["declared_global"]), F["locals"], F["local_is_cell"], z3.Not(F["cell_defined"])),
                                  kind == "exc" and val.cls.name in ("NameError", "UnboundLocalError")))
            ob = eng.oblige(f"{U}/post.local-but-unbound-is-UnboundLocalError",
                            z3.Implies(z3.And(z3.Not(F["declared_global"]), z3.Not(F["locals"]), F["is_local_name"], F["globals"]),
                                       kind == "exc" and val.cls.name == "UnboundLocalError"))
            if ob.status == "refuted":
                ob.witness = {"signature": "", "in_function": True}
    return h


def replay_lookup(wj):
    from replay.native import run_native
    return run_native("c03_lookup_order", wj)


def b_programs(seed):
    from replay.native import run_native
    return run_native("c03_programs_bounded", {"seed": seed}, timeout=900)


_base_harnesses = harnesses


def harnesses():  # noqa: F811
    hs = _base_harnesses()
    for name, src in DEFN.items():
        hs.append(Harness(name, h_definition(name, src), units=[(E_PY, "AstEval.ast_functiondef"), (E_PY, "EvalFunc.eval_defaults"),
                                                                  (E_PY, "EvalFunc.eval_decorators")], replay=replay_definition, max_paths=6000))
    hs.append(Harness("ast_name.lookup[module]", h_lookup(False), units=[(E_PY, "AstEval.ast_name")], replay=replay_lookup))
    hs.append(Harness("ast_name.lookup[function]", h_lookup(True), units=[(E_PY, "AstEval.ast_name")], replay=replay_lookup))
    hs.append(Harness("programs.native-differential", b_programs, units=[(E_PY, "AstEval.ast_functiondef"), (E_PY, "AstEval.ast_classdef"),
                                                                           (E_PY, "EvalFunc.resolve_nonlocals"), (E_PY, "AstEval.get_names_set")], kind="bounded"))
    hs.append(Harness("random.functions-native-differential", b_random_func(9000, 400), units=[(E_PY, "EvalFunc.call"), (E_PY, "AstEval.ast_functiondef"), (E_PY, "AstEval.ast_classdef")], kind="bounded"))
    for k in range(1, 9):
        hs.append(Harness(f"random.functions-native-differential[thorough {k}/8]", b_random_func(9000 + 100 * k, 1500),
                          units=[(E_PY, "EvalFunc.call"), (E_PY, "AstEval.ast_functiondef"), (E_PY, "AstEval.ast_classdef")], kind="bounded", tier="thorough"))
    return hs

"""C15 - task.wait_until returns for the first qualifying trigger and always cleans up.

New subsystem   DecoratorRegistry.wait_until + WaitUntilDecoratorManager.{__init__, dispatch, handle_exception, wait_until}
                on the contracts of DecoratorManager.{validate,start,stop} (C09) and of the trigger decorators (start holds a
                subscription until stop; both may suspend):  for every exit - first dispatch, timeout dispatch, exception in a
                condition, cancellation of the waiting task at EVERY await - nothing the call started is still held; the return
                value is the first dispatch's dictionary / {'trigger_type': 'timeout'} / {'trigger_type': 'none'}; later dispatches
                are ignored.
Legacy          TrigTime.wait_until: ghost multiset of subscriptions on the four tables; for every exit path (each return, each
                raise, CancelledError at each await) the multiset equals its entry value; return values for the first message.
"""
from __future__ import annotations

import z3

from pyvc.framework import Harness
from pyvc.interp import Raised, Coro, exc, SymPySet, PathEnd, EXC, _Continue, _Break, _Return
from pyvc.loader import Module, number_loops
from pyvc.stmts import Interpreter, PyModule
from pyvc.values import Rec, SV, ClassRec
from .common import A_LOG, A_COOP, A_REAL, PKG, logger_stub, run_catching, World
from . import C04 as c04
from . import C08 as c08
from . import C09 as c09

PROPERTY = "C15"
T_PY = f"{PKG}/trigger.py"
D_PY = f"{PKG}/decorator.py"
R = z3.RealSort()

ASSUMPTIONS = [
    A_LOG, A_COOP, A_REAL,
    "contract of a trigger decorator (proved per class in C09): start() creates its subscriptions / listeners / timer task, "
    "stop() releases exactly those and is harmless on a never-started decorator; both may suspend and be cancelled there",
    "asyncio: awaiting a Future suspends until set_result / set_exception or cancellation of the awaiting task; task.cancel() "
    "raises CancelledError at the await the task is suspended in",
    "which message qualifies (state / event expressions, holds) is C04 / C05 / C08; here the first qualifying message is an input",
]
NOT_DECIDED = ["occurrences before the call: subscriptions start inside the call, so earlier events are not queued (table contracts, C09)",
               "hold logic inside wait_until: proved in C05 (legacy.wait_until.step / .start for TrigTime._wait_until; the new subsystem "
               "runs StateTriggerDecorator._cycle, C05 new.step / new.start); whole histories additionally bounded there"]
SHAPE_BOUNDS = {"trigger kinds per call": "state, event, mqtt, webhook, time - any subset in the legacy harness; <= 2 trigger decorators + timeout in the new one"}
LEVEL_TEXT = ("Proof: on every exit path of task.wait_until, including cancellation at each await, the subscriptions / listeners / "
              "timers started by the call are released, in both subsystems; the value returned is that of the first dispatch, "
              "'timeout' for the timeout trigger (0 included) and 'none' without arguments.")


# ----------------------------------------------------------------------------------------------------------
# new subsystem
# ----------------------------------------------------------------------------------------------------------
class Fut(Rec):
    pass


def sval(a):
    """a concrete Python string out of a (possibly symbolic but constant) string value"""
    if isinstance(a, SV) and z3.is_seq(a.t):
        t = z3.simplify(a.t)
        return t.as_string() if z3.is_string_value(t) else repr(t)
    return a


def new_env(eng, kinds, timeout):
    it = Interpreter(eng)
    it.obj_may_be_none = True
    w = World(eng)
    amod, enum, M = c09.abc_module(eng, it, w)
    fmod, Fn, tasks, created = c08.fdm_module(eng, it, w, amod)
    held = []          # ghost: what is currently subscribed
    made = []
    TD = amod.env.vars["TriggerDecorator"]

    def mk_class(name):
        c = Rec(name=f"class:{name}")
        c._fields["kwargs_schema"] = Rec(fields={"schema": {"state_hold": 1} if name == "state_trigger" else {}}, name="schema")
        c._fields["_is_trigger"] = True

        def ctor(it_, args, kwargs):
            d = Rec(cls=TD, fields={"args": list(args), "kwargs": dict(kwargs), "name": name, "dm": None, "_made_by": name}, name=f"{name}#{len(made)}")
            made.append(d)

            def validate(it2):
                def th():
                    w.emit("validate", d)
                    w.yield_point(f"{name}.validate", cancellable=True)
                return Coro(th, f"{name}.validate")

            def start(it2):
                def th():
                    # may suspend before the subscription exists (mqtt) ...
                    w.yield_point(f"{name}.start", cancellable=True)
                    held.append(d)
                    w.emit("started", d)
                return Coro(th, f"{name}.start")

            def stop(it2):
                def th():
                    w.emit("stop", d)
                    if d in held:
                        held.remove(d)
                return Coro(th, f"{name}.stop")
            d._fields.update({"validate": validate, "start": start, "stop": stop})
            return d
        c._fields["__call__"] = ctor
        return c
    classes = {k: mk_class(k) for k in ("state_trigger", "event_trigger", "time_trigger")}
    classes["state_active"] = Rec(fields={"_is_trigger": False}, name="class:state_active")
    REG = fmod.env.vars["DecoratorRegistry"]
    REG.attrs["_decorators"] = classes
    fmod.env.vars["issubclass"] = lambda it_, c, base: bool(isinstance(c, Rec) and c._fields.get("_is_trigger"))
    fut = {"obj": None}

    def create_future(it_):
        f = Fut(name="future")
        st = {"done": False, "result": None, "exc": None}
        f._fields["_st"] = st
        f._fields["done"] = lambda it2: st["done"]
        f._fields["exception"] = lambda it2: st["exc"]

        def set_result(it2, v):
            if st["done"]:
                raise exc("RuntimeError", "InvalidStateError")
            st.update(done=True, result=v)

        def set_exception(it2, e):
            if st["done"]:
                raise exc("RuntimeError", "InvalidStateError")
            st.update(done=True, exc=e)
        f._fields["set_result"] = set_result
        f._fields["set_exception"] = set_exception
        fut["obj"] = f
        return f
    hass = Rec(fields={"loop": Rec(fields={"create_future": create_future}, name="loop")}, name="hass")
    amod.env.vars["DecoratorManager"].attrs["hass"] = hass
    fmod.env.vars["State"] = Rec(fields={"set": lambda it_, *a, **k: None}, name="State")
    ast_ctx = Rec(fields={"name": "file.x.f", "get_logger": lambda it_: logger_stub(), "log_exception": lambda it_, e: w.emit("log_exception", e)}, name="ast_ctx")
    return it, w, amod, fmod, M, held, made, fut, ast_ctx, REG


def h_new_wait_until(eng):
    U = "C15/DecoratorRegistry.wait_until"
    eng.max_steps = 3_000_000
    kinds = [["event_trigger"], ["state_trigger", "event_trigger"], []][eng.choose(3, "triggers")]
    timeout = [None, 0, 5][eng.choose(3, "timeout")]
    it, w, amod, fmod, M, held, made, fut, ast_ctx, REG = new_env(eng, kinds, timeout)
    kwargs = {k: [f"<{k} spec>"] for k in kinds}
    if timeout is not None:
        kwargs["timeout"] = timeout
    if "state_trigger" in kinds and eng.choose(2, "state_hold-given"):
        kwargs["state_hold"] = 3
    # what happens while the caller is suspended on the future
    outcome = ["trigger-dispatch", "timeout-dispatch", "condition-exception", "cancelled"][eng.choose(4, "while-waiting")]
    first_data = {}
    WU = fmod.env.vars["WaitUntilDecoratorManager"]
    DD = amod.env.vars["DispatchData"]

    def env_acts(dm):
        """the environment while the waiting task is suspended on the future"""
        trig = [d for d in made if d._fields["_made_by"] != "time_trigger" or d is not dm._fields.get("timeout_decorator")]
        trig = [d for d in trig if d is not dm._fields.get("timeout_decorator")]
        if outcome == "trigger-dispatch" and trig:
            d = trig[0]
            data = Rec(cls=DD, fields={"func_args": {"trigger_type": "event", "marker": "first"}, "trigger": d, "trigger_context": {}}, name="data1")
            first_data["d"] = data
            it.await_(it.call(it.getattr_(dm, "dispatch"), [data], {}))
            # a second occurrence after the first one: ignored
            data2 = Rec(cls=DD, fields={"func_args": {"trigger_type": "event", "marker": "second"}, "trigger": d, "trigger_context": {}}, name="data2")
            it.await_(it.call(it.getattr_(dm, "dispatch"), [data2], {}))
            return "resolved"
        if outcome == "timeout-dispatch" and dm._fields.get("timeout_decorator") is not None:
            td = dm._fields["timeout_decorator"]
            data = Rec(cls=DD, fields={"func_args": {"trigger_type": "time", "trigger_time": "t"}, "trigger": td, "trigger_context": {}}, name="data_timeout")
            first_data["d"] = data
            it.await_(it.call(it.getattr_(dm, "dispatch"), [data], {}))
            return "resolved"
        if outcome == "condition-exception" and trig:
            first_data["exc"] = exc("UserException", "bad expression").exc
            it.await_(it.call(it.getattr_(dm, "handle_exception"), [first_data["exc"]], {}))
            return "resolved"
        if outcome == "cancelled":
            return "cancel"
        return "nothing"   # no applicable event: the caller would wait forever
    dmref = {}
    orig_await = it.await_

    def await_(v):
        if isinstance(v, Fut):
            st = v._fields["_st"]
            if not st["done"]:
                w.yield_point("await future", cancellable=False)
                dm = next((d._fields["dm"] for d in made if d._fields.get("dm") is not None), None)
                dmref["dm"] = dm
                act = env_acts(dm) if dm is not None else ("cancel" if outcome == "cancelled" else "nothing")
                if act == "cancel":
                    raise exc("CancelledError")
                if act == "nothing":
                    dmref["waits_forever"] = True
                    raise PathEnd()
            if st["exc"] is not None:
                raise Raised(st["exc"])
            return st["result"]
        return orig_await(v)
    it.await_ = await_
    try:
        k, v = run_catching(it, lambda: it.await_(it.call(it.getattr_(REG, "wait_until"), [ast_ctx], dict(kwargs))))
    except PathEnd:
        k, v = "waits-forever", None
    eng.cover(f"exit:{k}:{outcome}")
    cancelled_somewhere = k == "exc" and v.cls.name == "CancelledError"

    def W(ob, what):
        if ob.status == "refuted":
            ob.witness = {"signature": f"new:{what}", "subsystem": "new", "what": what, "timeout": timeout, "triggers": kinds}
        return ob
    # cleanup on EVERY exit
    if k != "waits-forever":
        W(eng.oblige(f"{U}/post.nothing-the-call-started-is-still-held", held == []), "cancel" if cancelled_somewhere else "leak")
    if not kwargs:
        eng.oblige(f"{U}/post.no-arguments-returns-none", k == "ok" and v == {"trigger_type": "none"})
        return
    if k == "waits-forever":
        # only legitimate when nothing can ever resolve the wait in this scenario: a dispatch the scenario has no decorator for
        applicable = (outcome == "trigger-dispatch" and kinds) or (outcome == "timeout-dispatch" and timeout is not None) or (outcome == "condition-exception" and kinds) or outcome == "cancelled"
        W(eng.oblige(f"{U}/post.a-declared-timeout-or-trigger-can-end-the-wait", not applicable), "timeout-zero" if timeout == 0 else "waits-forever")
        return
    if cancelled_somewhere:
        return
    if outcome == "trigger-dispatch" and kinds and k == "ok":
        eng.oblige(f"{U}/post.returns-the-first-dispatch-dictionary", isinstance(v, dict) and v.get("marker") == "first")
    if outcome == "timeout-dispatch" and timeout is not None and k == "ok":
        W(eng.oblige(f"{U}/post.timeout-returns-trigger_type-timeout", v == {"trigger_type": "timeout"}), "timeout-value")
    if outcome == "condition-exception" and kinds:
        eng.oblige(f"{U}/post.exception-in-a-condition-reaches-the-caller", k == "exc" and v is first_data.get("exc"))
    if timeout is not None and "dm" in dmref and k == "ok":
        tds = [d for d in made if d._fields["_made_by"] == "time_trigger"]
        W(eng.oblige(f"{U}/post.timeout-is-a-once-now-plus-timeout-trigger", len(tds) == 1 and [sval(a) for a in tds[0]._fields["args"]] == [f"once(now + {timeout}s)"]), "timeout-zero" if timeout == 0 else "timeout-spec")


def h_new_unknown_args(eng):
    U = "C15/DecoratorRegistry.wait_until[unknown-argument]"
    it, w, amod, fmod, M, held, made, fut, ast_ctx, REG = new_env(eng, [], None)
    k, v = run_catching(it, lambda: it.await_(it.call(it.getattr_(REG, "wait_until"), [ast_ctx], {"event_trigger": ["e"], "no_such_argument": 1})))
    eng.cover(f"exit:{k}")
    eng.oblige(f"{U}/post.rejected-before-anything-is-started", k == "exc" and v.cls.name == "ValueError" and held == [] and w.count("started") == 0)


# ----------------------------------------------------------------------------------------------------------
# legacy: TrigTime.wait_until
# ----------------------------------------------------------------------------------------------------------
def h_legacy_wait_until(eng):
    U = "C15/TrigTime.wait_until"
    eng.max_steps = 4_000_000
    it = Interpreter(eng)
    it.obj_may_be_none = True
    w = World(eng)
    mod, Fn = c09.trig_module(eng, it, w)
    has = {k: bool(eng.choose(2, f"has-{k}")) for k in ("state", "event", "mqtt", "webhook")}
    timeout = [None, 0, 5][eng.choose(3, "timeout")]
    filt = {k: (bool(eng.choose(2, f"{k}-filter")) if has[k] else False) for k in ("event", "mqtt", "webhook")}
    clock = c04.VClock(eng, w)
    it.method_tables[("Real", "total_seconds")] = lambda interp, obj: obj
    parse_fails = {}
    evals = []

    def AstEvalStub(it_, name, gctx, logger_name=None):
        kind = name.split(" ")[-1]
        r = Rec(name=f"AstEval<{kind}>")

        def parse(it2, src, mode=None):
            if kind != "state_trigger" and eng.choose(2, f"{kind}-filter-syntax-error") == 1:
                parse_fails[kind] = True
                raise exc("SyntaxError", "bad filter")

        def ev(it2, vars_):
            def th():
                w.yield_point(f"{kind}.eval", cancellable=True)
                evals.append(kind)
                o = ["true", "false", "raises"][eng.choose(3, f"{kind}-value")]
                if o == "raises":
                    raise exc("UserException", "bad expression")
                return o == "true"
            return Coro(th, f"{kind}.eval")

        def get_names(it2):
            return Coro(lambda: SymPySet(["d.e"]), "get_names")
        r._fields.update({"parse": parse, "eval": ev, "get_names": get_names})
        return r
    mod.env.vars["AstEval"] = AstEvalStub
    mod.env.vars["STATE_RE"] = Rec(fields={"match": lambda it_, s_: None}, name="STATE_RE")
    mod.env.vars["time"].attrs["monotonic"] = lambda it_: clock.read()
    mod.env.vars["dt_now"] = lambda it_: clock.read()
    as_t = lambda x: x.t if isinstance(x, SV) else z3.RealVal(x)
    mod.env.vars["dt"] = PyModule("dt", {"timedelta": lambda it_, seconds=0: SV(as_t(seconds))})
    mod.env.vars["max"] = lambda it_, a, b: SV(z3.If(as_t(a) >= as_t(b), as_t(a), as_t(b)))
    msgs = []
    if has["state"]:
        msgs.append("state")
    for k in ("event", "mqtt", "webhook"):
        if has[k]:
            msgs.append(k)
    arrival = (msgs + ["timeout"])[eng.choose(len(msgs) + 1, "first-arrival")] if msgs else "timeout"
    armed = {}

    def q_get(it_, q):
        def th():
            w.yield_point("notify_q.get", cancellable=True)
            to = armed.pop("timeout", None)
            if arrival == "timeout":
                if to is None:
                    raise PathEnd()   # nothing ever arrives and no timer: the caller waits (no exit to check)
                clock.waited(to, fired=True)
                raise exc("TimeoutError")
            clock.waited(to, fired=False)
            armed["consumed"] = True
            if arrival == "state":
                return ["state", [{"d.e": "new"}, {"trigger_type": "state", "var_name": "d.e", "value": "new", "old_value": "old", "marker": "msg"}]]
            return [arrival, {"trigger_type": arrival, "marker": "msg"}]
        return Coro(th, "notify_q.get")
    it.method_tables[("Queue", "get")] = q_get
    from .common import QueueS
    mod.env.vars["asyncio"].attrs["Queue"] = lambda it_, n=0: SV(z3.Const("wait_until_q", QueueS))

    arms = []

    def wait_for(it_, aw, timeout=None):
        armed["timeout"] = timeout
        arms.append((timeout, clock.cur))
        return aw
    mod.env.vars["asyncio"].attrs["wait_for"] = wait_for
    mod.env.vars["asyncio"].attrs["sleep"] = lambda it_, s_: Coro(lambda: w.yield_point("sleep", cancellable=True), "sleep")
    mod.env.vars["ident_any_values_changed"] = lambda it_, fa, ids: False
    mod.env.vars["ident_values_changed"] = lambda it_, fa, ids: True
    mod.env.vars["State"]._fields["set"] = lambda it_, *a, **k: None
    cls = mod.env.vars["TrigTime"]
    # the wait loop lives in wait_until itself or in the body it delegates to
    loop_fn = "TrigTime.wait_until"
    for q in ("TrigTime._wait_until", "TrigTime.wait_until"):
        try:
            fn = mod.func(q)
        except Exception:  # noqa
            continue
        number_loops(fn.node)
        if any(getattr(n, "_ordinal", None) == "while0" for n in __import__("ast").walk(fn.node)):
            loop_fn = q
            break
    result = {}

    def at_loop(interp, node, env):
        # one iteration of the wait loop: break -> the epilogue runs; continue -> still waiting (subscriptions must be intact)
        before = c09.held_subscriptions(w)
        # an arbitrary iteration: earlier iterations (non-qualifying messages) may have taken any amount of time
        result["t_call"] = clock.cur
        clock.waited()
        try:
            interp.exec_block(node.body, env)
            result["loop"] = "fallthrough"
        except _Continue:
            result["loop"] = "continue"
        except _Break:
            result["loop"] = "break"
            return
        result["held_while_waiting"] = (before, c09.held_subscriptions(w))
        raise PathEnd()
    it.loop_specs[(loop_fn, "while0")] = at_loop
    ast_ctx = Rec(fields={"name": "file.x.f", "get_global_ctx": lambda it_: Rec(name="gctx"), "get_logger_name": lambda it_: "log"}, name="ast_ctx")
    kwargs = {"state_check_now": [True, False][eng.choose(2, "state_check_now")]}
    if has["state"]:
        kwargs["state_trigger"] = "d.e == '1'"
    if has["event"]:
        kwargs["event_trigger"] = ["ev", "x == 1"] if filt["event"] else "ev"
    if has["mqtt"]:
        kwargs["mqtt_trigger"] = ["topic", "x == 1"] if filt["mqtt"] else "topic"
    if has["webhook"]:
        kwargs["webhook_trigger"] = ["hook", "x == 1"] if filt["webhook"] else "hook"
    if timeout is not None:
        kwargs["timeout"] = timeout
    held0 = c09.held_subscriptions(w)
    try:
        k, v = run_catching(it, lambda: it.await_(it.call(it.getattr_(cls, "wait_until"), [ast_ctx], kwargs)))
    except PathEnd:
        k, v = "still-waiting", None
    eng.cover(f"exit:{k}")
    held1 = c09.held_subscriptions(w)

    def W(ob, what):
        if ob.status == "refuted":
            ob.witness = {"signature": f"legacy:{what}", "subsystem": "legacy", "what": what}
        return ob
    if timeout is not None and arms and "t_call" in result and isinstance(arms[0][0], SV):
        # no time trigger and no pending hold here: the wait is armed with the time that is LEFT of the timeout, counted
        # from the call (not from the current iteration)
        left = result["t_call"] + timeout - arms[0][1]
        W(eng.oblige(f"{U}/loop.wait-is-armed-with-what-is-left-of-the-timeout", arms[0][0].t == z3.If(left >= 0, left, 0)), "timeout-remaining")
    if k == "still-waiting":
        if "held_while_waiting" in result:
            b, a = result["held_while_waiting"]
            eng.oblige(f"{U}/loop.a-non-qualifying-message-keeps-the-subscriptions", a == b)
        return
    cancelled = k == "exc" and v.cls.name == "CancelledError"
    what = "cancel" if cancelled else ("filter-parse-error" if parse_fails else "leak")
    W(eng.oblige(f"{U}/post.subscriptions-as-before-the-call-on-every-exit", held1 == held0), what)
    if cancelled or k != "ok":
        return
    if not any(has.values()):
        eng.oblige(f"{U}/post.no-trigger-returns-timeout-or-none", v == ({"trigger_type": "timeout"} if timeout is not None else {"trigger_type": "none"}))
        return
    if result.get("loop") == "break" and (arrival == "timeout" or not armed.get("consumed")):
        eng.oblige(f"{U}/post.timeout-returns-trigger_type-timeout", v == {"trigger_type": "timeout"})
    if result.get("loop") == "break" and arrival in ("event", "mqtt", "webhook") and isinstance(v, dict) and armed.get("consumed"):
        eng.oblige(f"{U}/post.returns-the-first-qualifying-message", v.get("marker") == "msg" and v.get("trigger_type") == arrival)


def replay_c15(wj):
    from replay.native import run_native
    what = wj.get("what")
    m = {"cancel": "cancel", "timeout-zero": "timeout-zero-with-trigger", "filter-parse-error": "filter-parse-error", "leak": "initial-check-error",
         "waits-forever": "event", "timeout-value": "event", "timeout-spec": "timeout-zero", "timeout-remaining": "timeout-with-traffic"}
    return run_native("c15_wait_until", {"what": m.get(what, "cancel"), "subsystem": wj.get("subsystem")}, timeout=300)


def bounded_c15(seed):
    from replay.native import run_native
    fails, cases = [], 0
    for what in ("cancel", "timeout-zero", "timeout-zero-with-trigger", "filter-parse-error", "expression-error", "initial-check-error", "event", "timeout-with-traffic"):
        r = run_native("c15_wait_until", {"what": what}, timeout=300)
        cases += 2
        if r.get("error"):
            return {"error": r["error"], "cases": 0}
        if r.get("reproduced"):
            for sub, why in (r.get("failing") or {}).items():
                fails.append({"signature": f"{sub}:{what}", "subsystem": sub, "scenario": what, "why": why, "observed": r["observed"].get(sub)})
    return {"unit": "task.wait_until end to end", "method": "scripted calls on the real subsystems (cancel, timeout=0, filter syntax error, expression error, event)",
            "bound": "8 scenarios x 2 subsystems", "cases": cases, "failures": fails, "reproduced": bool(fails)}


def harnesses():
    return [
        Harness("new.wait_until", h_new_wait_until, units=[(D_PY, "DecoratorRegistry.wait_until"), (D_PY, "WaitUntilDecoratorManager.__init__"),
                (D_PY, "WaitUntilDecoratorManager.dispatch"), (D_PY, "WaitUntilDecoratorManager.handle_exception"), (D_PY, "WaitUntilDecoratorManager.wait_until")],
                replay=replay_c15, max_paths=40000),
        Harness("new.wait_until[unknown-argument]", h_new_unknown_args, units=[(D_PY, "DecoratorRegistry.wait_until")]),
        Harness("legacy.wait_until", h_legacy_wait_until, units=[(T_PY, "TrigTime.wait_until"), (T_PY, "TrigTime._wait_until")], replay=replay_c15, max_paths=60000),
        Harness("bounded.end-to-end", bounded_c15, units=[(T_PY, "TrigTime.wait_until"), (D_PY, "DecoratorRegistry.wait_until")], kind="bounded"),
    ]

"""C12 - a @service exists exactly while declared.

Ghost registry `reg` models Home Assistant's service table (assumed contract of hass.services.async_register /
async_remove: a map (domain, service) -> handler).  Abstract view of pyscript's own tables:

    count(k)  = service_cnt[k] if k in service_cnt else 0
    I_svc:  forall k.  k in reg  <=>  count(k) >= 1  <=>  k in service2global_ctx      (and count(k) >= 0)

Contracts (function.py): service_register, service_remove.  Pairing lemma (eval.py EvalFunc.trigger_init /
trigger_stop; decorators/service.py ServiceDecorator.start / stop): a live function holds exactly as many
registrations as it will remove.
"""
from __future__ import annotations

import ast as _ast

import z3

from pyvc.framework import Harness
from .common import *  # noqa

F_PY = f"{PKG}/function.py"
E_PY = f"{PKG}/eval.py"
S_PY = f"{PKG}/decorators/service.py"
PROPERTY = "C12"
CtxNameS = USort("CtxName")

ASSUMPTIONS = [
    A_LOG, A_NOALIAS,
    "hass.services behaves as a map keyed by (domain, service): async_register inserts/overwrites, async_remove "
    "deletes (ghost registry `reg`); async_set_service_schema and State.get_service_params have no effect on it",
    "domain and service are dot-free strings (Home Assistant slugs), so the table key f'{domain}.{service}' is "
    "injective; checked where pyscript itself splits a name (count('.') == 1)",
    "registration and removal are synchronous (no await inside service_register/service_remove), hence atomic",
    "native scenarios only: Home Assistant's service-description loader (homeassistant.helpers.service.async_get_all_descriptions, "
    "called by State.get_service_params) is stubbed as 'no service has a description' (it needs a real HomeAssistant object)",
    "the caller's handling of a failing trigger_init (AstEval.ast_functiondef: log, then trigger_stop) is not under contract; the "
    "legacy refusal harness performs that call itself, and the bounded random life cycles exercise the real caller",
]
NOT_DECIDED = ["'calls the most recent definition': which handler HA invokes is HA's map semantics (assumed); "
               "the check proves the handler registered last is the one stored"]
SHAPE_BOUNDS = {"@service names per decorator": "<= 2 (all coincidence patterns; with two names, the last one free / owned by this context / owned by another context)"}
LEVEL_TEXT = ("Proof, unbounded in table contents: service_register / service_remove are verified against their "
              "contracts for all tables, names and contexts, and I_svc (registered <=> count >= 1 <=> owned) is "
              "inductive; the pairing lemma (registrations made == registrations that will be removed) is checked on "
              "the real trigger_init / trigger_stop and ServiceDecorator.start / stop, shape-bounded on the number of "
              "names in one decorator (<= 2), including the refusal of a name owned by another context (nothing registered, "
              "no callback replaced, tables as before). Whole life cycles through the interpreter (definition, refusal, call, "
              "unload; both subsystems) only by a labelled bounded random stand-in against an ownership model.")


def count(S, k):
    return z3.If(z3.Select(S["cnt"].cols["dom"], k), z3.Select(S["cnt"].cols[".v"], k), z3.IntVal(0))


def snap_count(cnt, k):
    return z3.If(z3.Select(cnt["dom"], k), z3.Select(cnt[".v"], k), z3.IntVal(0))


def I_svc(cnt, own, reg):
    return Forall([NameS], lambda k: z3.And(
        snap_count(cnt, k) >= 0,
        z3.Select(reg["dom"], k) == (snap_count(cnt, k) >= 1),
        z3.Select(own["dom"], k) == (snap_count(cnt, k) >= 1)), "I_svc")


def setup(eng, inline_contracts=False):
    it = Interpreter(eng)
    w = World(eng)
    cnt = Store(eng, "service_cnt", TMap(NameS, TScalar(z3.IntSort())))
    own = Store(eng, "service2global_ctx", TMap(NameS, TScalar(CtxNameS)))
    reg = Store(eng, "ghost_hass_services", TMap(NameS, TScalar(ObjS)))
    S = dict(cnt=cnt, own=own, reg=reg)

    def key_of(domain, service):
        return it.concat_str([domain, ".", service])

    def async_register(i, domain, service, callback, supports_response=None):
        w.emit("register", key_of(domain, service), callback, supports_response)
        reg.view().setitem(key_of(domain, service), to_obj(i, callback))

    def async_remove(i, domain, service):
        w.emit("remove", key_of(domain, service))
        reg.view().delitem(key_of(domain, service))

    hass = Rec(fields={"services": Rec(fields={"async_register": async_register, "async_remove": async_remove})},
               name="hass")
    SR = Rec(fields={"NONE": "none", "ONLY": "only", "OPTIONAL": "optional"}, name="SupportsResponse")
    mod = Module(it, F_PY, stubs={"_LOGGER": logger_stub(), "traceback": traceback_stub(),
                                 "SupportsResponse": SR, "Context": PyTypeTok("Context")},
                 class_state={"Function": {"service_cnt": cnt, "service2global_ctx": own, "hass": hass}})
    Fn = mod.env.vars["Function"]
    return it, w, mod, Fn, S


_objs = {}


def to_obj(interp, v):
    """Give an arbitrary Python-level value (closure, bound method) an Obj identity."""
    if isinstance(v, SV) and v.t.sort() == ObjS:
        return v
    key = id(v)
    if key not in _objs:
        _objs[key] = (v, z3.Const(f"obj#{len(_objs)}", ObjS))
    return SV(_objs[key][1])


# ----------------------------------------------------------------------------------------------------------
# spec functions (the mathematical side of the two contracts)
# ----------------------------------------------------------------------------------------------------------
def spec_register(C0, O0, R0, key, ctx, cb):
    """Returns (raises ValueError?, post-state predicate builder)."""
    owned_by_other = z3.And(z3.Select(O0["dom"], key), z3.Select(O0[".v"], key) != ctx)
    return owned_by_other


def check_register_post(eng, U, S, C0, O0, R0, key, ctx, cb, kind, val):
    cnt, own, reg = S["cnt"], S["own"], S["reg"]
    other = spec_register(C0, O0, R0, key, ctx, cb)
    if kind == "exc":
        eng.oblige(f"{U}/post.error-iff-owned-by-other-context", z3.And(other, val.cls.name == "ValueError"))
        # rejected: abstract state unchanged everywhere
        eng.oblige(f"{U}/post.rejected-leaves-tables-unchanged", Forall([NameS], lambda k: z3.And(
            snap_count(cnt.snapshot(), k) == snap_count(C0, k),
            z3.Select(own.cols["dom"], k) == z3.Select(O0["dom"], k),
            z3.Implies(z3.Select(O0["dom"], k), z3.Select(own.cols[".v"], k) == z3.Select(O0[".v"], k)),
            z3.Select(reg.cols["dom"], k) == z3.Select(R0["dom"], k),
            z3.Implies(z3.Select(R0["dom"], k), z3.Select(reg.cols[".v"], k) == z3.Select(R0[".v"], k))), "k"))
        return
    eng.oblige(f"{U}/post.error-iff-owned-by-other-context", z3.Not(other))
    eng.oblige(f"{U}/post.count-incremented", snap_count(cnt.snapshot(), key) == snap_count(C0, key) + 1)
    eng.oblige(f"{U}/post.registered-with-callback",
               z3.And(z3.Select(reg.cols["dom"], key), z3.Select(reg.cols[".v"], key) == cb))
    eng.oblige(f"{U}/post.owner-recorded",
               z3.And(z3.Select(own.cols["dom"], key), z3.Select(own.cols[".v"], key) == ctx))
    eng.oblige(f"{U}/frame.other-keys-unchanged", Forall([NameS], lambda k: z3.Implies(k != key, z3.And(
        snap_count(cnt.snapshot(), k) == snap_count(C0, k),
        z3.Select(own.cols["dom"], k) == z3.Select(O0["dom"], k),
        z3.Select(own.cols[".v"], k) == z3.Select(O0[".v"], k),
        z3.Select(reg.cols["dom"], k) == z3.Select(R0["dom"], k),
        z3.Select(reg.cols[".v"], k) == z3.Select(R0[".v"], k))), "k"))


def h_register(eng):
    it, w, mod, Fn, S = setup(eng)
    cnt, own, reg = S["cnt"], S["own"], S["reg"]
    U = "C12/Function.service_register"
    C0, O0, R0 = cnt.snapshot(), own.snapshot(), reg.snapshot()
    eng.assume(I_svc(C0, O0, R0))
    dom, srv = z3.Const("domain", PartS), z3.Const("service", PartS)
    ctx = z3.Const("ctx", CtxNameS)
    cb = z3.Const("callback", ObjS)
    key = join_fn2(dom, srv)
    kind, val = run_catching(it, lambda: it.call(it.getattr_(Fn, "service_register"),
                                                 [SV(ctx), PartV(dom), PartV(srv), SV(cb)], {}))
    eng.cover(f"exit:{kind}")
    eng.oblige(f"{U}/post.I_svc", I_svc(cnt.snapshot(), own.snapshot(), reg.snapshot()))
    check_register_post(eng, U, S, C0, O0, R0, key, ctx, cb, kind, val)
    if kind == "ok":
        eng.oblige(f"{U}/canary.count-incremented", snap_count(cnt.snapshot(), key) != snap_count(C0, key) + 1,
                   kind="canary")


def join_fn2(a, b):
    from pyvc.values import join_fn
    return join_fn(2)(a, b)


def h_remove(eng):
    it, w, mod, Fn, S = setup(eng)
    cnt, own, reg = S["cnt"], S["own"], S["reg"]
    U = "C12/Function.service_remove"
    C0, O0, R0 = cnt.snapshot(), own.snapshot(), reg.snapshot()
    eng.assume(I_svc(C0, O0, R0))
    dom, srv = z3.Const("domain", PartS), z3.Const("service", PartS)
    ctx = z3.Const("ctx", CtxNameS)
    key = join_fn2(dom, srv)
    # precondition: the caller holds a registration
    eng.assume(snap_count(C0, key) >= 1)
    kind, val = run_catching(it, lambda: it.call(it.getattr_(Fn, "service_remove"),
                                                 [SV(ctx), PartV(dom), PartV(srv)], {}))
    eng.cover(f"exit:{kind}")
    eng.oblige(f"{U}/post.no-exception", kind == "ok")
    eng.oblige(f"{U}/post.I_svc", I_svc(cnt.snapshot(), own.snapshot(), reg.snapshot()))
    eng.oblige(f"{U}/post.count-decremented", snap_count(cnt.snapshot(), key) == snap_count(C0, key) - 1)
    eng.oblige(f"{U}/post.unregistered-iff-last",
               z3.Select(reg.cols["dom"], key) == (snap_count(C0, key) >= 2))
    eng.oblige(f"{U}/post.handler-kept-while-still-declared",
               z3.Implies(snap_count(C0, key) >= 2, z3.Select(reg.cols[".v"], key) == z3.Select(R0[".v"], key)))
    eng.oblige(f"{U}/frame.other-keys-unchanged", Forall([NameS], lambda k: z3.Implies(k != key, z3.And(
        snap_count(cnt.snapshot(), k) == snap_count(C0, k),
        z3.Select(own.cols["dom"], k) == z3.Select(O0["dom"], k),
        z3.Select(own.cols[".v"], k) == z3.Select(O0[".v"], k),
        z3.Select(reg.cols["dom"], k) == z3.Select(R0["dom"], k),
        z3.Select(reg.cols[".v"], k) == z3.Select(R0[".v"], k))), "k"))
    eng.oblige(f"{U}/canary.count-decremented", snap_count(cnt.snapshot(), key) != snap_count(C0, key) - 1,
               kind="canary")


# ----------------------------------------------------------------------------------------------------------
# callee contracts used at call sites (modular: callers see the contract, not the body)
# ----------------------------------------------------------------------------------------------------------
def install_contracts(it, w, Fn, S):
    cnt, own, reg = S["cnt"], S["own"], S["reg"]

    def c_register(interp, ctx, domain, service, callback, supports_response=None):
        key = as_dname(interp, interp.concat_str([domain, ".", service]))
        cbo = to_obj(interp, callback)
        w.emit("service_register", key, ctx, callback, supports_response)
        C0, O0 = cnt.snapshot(), own.snapshot()
        ctxv = coerce_ctx(interp, ctx)
        other = z3.And(z3.Select(O0["dom"], key.t), z3.Select(O0[".v"], key.t) != ctxv.t)
        if interp.eng.branch(other, "owned-by-other"):
            raise exc("ValueError", "already defined")
        cnt.view().setitem(key, SV(snap_count(C0, key.t) + 1))
        own.view().setitem(key, ctxv)
        reg.view().setitem(key, cbo)

    def c_remove(interp, ctx, domain, service):
        key = as_dname(interp, interp.concat_str([domain, ".", service]))
        w.emit("service_remove", key)
        C0 = cnt.snapshot()
        # precondition of the contract: the caller holds a registration
        interp.eng.oblige("C12/callsite/Function.service_remove.pre.holds-a-registration",
                          snap_count(C0, key.t) >= 1, kind="pre")
        cnt.view().setitem(key, SV(snap_count(C0, key.t) - 1))
        last = snap_count(C0, key.t) <= 1
        if interp.eng.branch(last, "last"):
            reg.view().delitem(key)
            own.view().delitem(key)

    Fn.attrs["service_register"] = c_register
    Fn.attrs["service_remove"] = c_remove


def as_dname(interp, k):
    return interp.to_sym_str(k, DName(None)) if isinstance(k, str) else k


_ctx_consts = {}


def coerce_ctx(interp, ctx):
    if isinstance(ctx, SV) and ctx.t.sort() == CtxNameS:
        return ctx
    if isinstance(ctx, str):
        return SV(z3.Const(f"strconst:{ctx}", CtxNameS))     # the same constant coerce_scalar gives a concrete string
    raise OutOfReach(f"context name {ctx!r}")


# ----------------------------------------------------------------------------------------------------------
# pairing lemma, legacy subsystem
# ----------------------------------------------------------------------------------------------------------
def load_eval(it, w, Fn):
    def set_schema(i, hass, domain, name, desc):
        w.emit("schema", domain, name)

    def get_logger(i, name):
        return logger_stub()

    stubs = {
        "_LOGGER": logger_stub(), "Function": Fn, "logging": PyModule("logging", {"getLogger": get_logger}),
        "async_set_service_schema": set_schema, "OrderedDict": lambda i, *a, **k: dict(*a, **k),
        "SupportsResponse": Rec(fields={"NONE": "none", "ONLY": "only", "OPTIONAL": "optional"}),
        "DOMAIN": "pyscript", "SERVICE_RELOAD": "reload", "SERVICE_JUPYTER_KERNEL_START": "jupyter_kernel_start",
        "LOGGER_PATH": "custom_components.pyscript", "WEBHOOK_METHODS": SymPySetOf(["GET", "HEAD", "POST", "PUT"]),
    }
    return Module(it, E_PY, stubs=stubs)


def SymPySetOf(xs):
    from pyvc.interp import SymPySet
    return SymPySet(xs)


def mk_evalfunc(it, emod, w, name="f", services=None):
    from pyvc.interp import SymPySet
    tree = _ast.parse(f"def {name}(a, b=1):\n    pass\n").body[0]
    EvalFunc = emod.env.vars["EvalFunc"]
    gctx = Rec(fields={"set_logger_name": lambda i, n: None, "global_sym_table": {}}, name="global_ctx")
    self_ = Rec(cls=EvalFunc, fields={
        "func_def": tree, "name": name, "global_ctx": gctx, "global_ctx_name": "file.x", "logger": logger_stub(),
        "decorators": [], "doc_string": None, "trigger": [], "trigger_service": SymPySet(), "dm_decorators": [],
    }, name="EvalFunc")
    return self_


def h_pairing_legacy(n_names):
    def h(eng):
        it, w, mod, Fn, S = setup(eng)
        cnt, own, reg = S["cnt"], S["own"], S["reg"]
        install_contracts(it, w, Fn, S)
        emod = load_eval(it, w, Fn)
        U = "C12/EvalFunc.trigger_init+trigger_stop"
        C0, O0, R0 = cnt.snapshot(), own.snapshot(), reg.snapshot()
        eng.assume(I_svc(C0, O0, R0))
        names = []
        for i in range(n_names):
            d, s = z3.Const(f"dom{i}", PartS), z3.Const(f"srv{i}", PartS)
            # the builtin service names are rejected by the code; keep them out of this harness' scope
            eng.assume(z3.And(s != part_const_("reload"), s != part_const_("jupyter_kernel_start")))
            t = join_fn2(d, s)
            from pyvc.values import name_axioms_for
            for ax in name_axioms_for(t):
                eng.assume(ax)
            names.append(DName(t))
        self_ = mk_evalfunc(it, emod, w)
        self_._fields["decorators"] = [["service", list(names) if names else None, None]]
        registered = []
        trig_ctx = Rec(fields={"get_name": lambda i: "file.x",
                               "trigger_register": lambda i, f: (registered.append(f), True)[1],
                               "get_trig_info": lambda i, n, a: Rec(name="TrigInfo")}, name="trig_ctx")
        eff_names = names if names else [it.to_sym_str("pyscript.f", DName(None))]
        # the last name may be owned by another context (only with two names: the interesting case is a refusal AFTER a
        # name that could be registered); all other names are free or owned by this context
        conflict = n_names == 2 and bool(eng.choose(2, "last-name-owned-by-another-context"))
        for j, nm in enumerate(eff_names):
            mine = z3.Or(z3.Not(z3.Select(O0["dom"], nm.t)), z3.Select(O0[".v"], nm.t) == coerce_ctx(it, "file.x").t)
            if conflict and j == len(eff_names) - 1:
                eng.assume(z3.And(z3.Select(O0["dom"], nm.t), z3.Select(O0[".v"], nm.t) != coerce_ctx(it, "file.x").t))
            else:
                eng.assume(mine)
        kind, val = run_catching(it, lambda: it.await_(it.call(it.getattr_(self_, "trigger_init"), [trig_ctx, "f"], {})))
        eng.cover(f"init:{kind}")
        if conflict:
            eng.oblige(f"{U}/init.refused-name-fails-the-init", kind == "exc" and val.cls.name == "ValueError")
            ob = eng.oblige(f"{U}/init.refused-name-replaces-no-callback", len(w.events("service_register")) == 0)
            if ob.status == "refuted":
                ob.witness = {"signature": "refused-name", "subsystem": "legacy"}
            # the caller (AstEval.ast_functiondef) logs the error and stops the function's triggers
            kind2, val2 = run_catching(it, lambda: it.call(it.getattr_(self_, "trigger_stop"), [], {}))
            eng.oblige(f"{U}/init.refused-name-leaves-the-table-as-before", Forall([NameS], lambda k: z3.And(
                snap_count(cnt.snapshot(), k) == snap_count(C0, k),
                z3.Select(reg.cols["dom"], k) == z3.Select(R0["dom"], k),
                z3.Select(own.cols["dom"], k) == z3.Select(O0["dom"], k)), "k"))
            return
        eng.oblige(f"{U}/init.no-exception", kind == "ok")
        if kind != "ok":
            return
        regs = w.events("service_register")
        # every declared name is registered (count rose) and the function is registered with its context for stop
        for i, nm in enumerate(eff_names):
            eng.oblige(f"{U}/init.declared-service-is-registered",
                       z3.And(z3.Select(reg.cols["dom"], nm.t), snap_count(cnt.snapshot(), nm.t) >= snap_count(C0, nm.t) + 1))
        eng.oblige(f"{U}/init.function-registered-with-context-for-stop", len(registered) == 1)
        eng.oblige(f"{U}/init.I_svc", I_svc(cnt.snapshot(), own.snapshot(), reg.snapshot()))
        # now the function goes away: trigger_stop must undo exactly what trigger_init did
        kind2, val2 = run_catching(it, lambda: it.call(it.getattr_(self_, "trigger_stop"), [], {}))
        eng.oblige(f"{U}/stop.no-exception", kind2 == "ok")

        def wit(ob):
            m = ob._z3model
            same = [[bool(m.eval(a.t == b.t, model_completion=True)) for b in eff_names] for a in eff_names]
            dup = any(same[i][j] for i in range(len(same)) for j in range(len(same)) if i != j)
            return {"signature": "duplicate-name-in-one-decorator" if dup else "distinct-names",
                    "n_names": len(eff_names), "coincide": same}

        ob = eng.oblige(f"{U}/pairing.stop-restores-counts", Forall([NameS], lambda k: z3.And(
            snap_count(cnt.snapshot(), k) == snap_count(C0, k),
            z3.Select(reg.cols["dom"], k) == z3.Select(R0["dom"], k),
            z3.Select(own.cols["dom"], k) == z3.Select(O0["dom"], k)), "k"))
        if ob.status == "refuted":
            ob.witness = wit(ob)
        eng.oblige(f"{U}/stop.I_svc", I_svc(cnt.snapshot(), own.snapshot(), reg.snapshot()))
    return h


def part_const_(s):
    from pyvc.values import part_const
    return part_const(s)


def replay_pairing(w):
    from replay.native import run_native
    if w.get("signature") == "refused-name":
        return replay_owner_name(w)
    return run_native("c12_duplicate_service_name", w)


# ----------------------------------------------------------------------------------------------------------
# pairing, new subsystem: ServiceDecorator.start / stop
# ----------------------------------------------------------------------------------------------------------
def h_pairing_new(eng):
    it, w, mod, Fn, S = setup(eng)
    cnt, own, reg = S["cnt"], S["own"], S["reg"]
    install_contracts(it, w, Fn, S)
    U = "C12/ServiceDecorator.start+stop"

    async_params = []

    def get_service_params(i):
        def th():
            w.yield_point("State.get_service_params", cancellable=False)
        return Coro(th, "get_service_params")

    StateStub = Rec(fields={"get_service_params": get_service_params}, name="State")
    # Home Assistant's async_set_service_schema (outside the repository) may reject a description (e.g. a yaml docstring that
    # is not a mapping): it raises on the k-th call, k chosen by the path (0 = never)
    schema_calls = []
    schema_fails_at = [0]

    def set_schema(i, *a):
        schema_calls.append(a)
        w.emit("schema")
        if schema_fails_at[0] == len(schema_calls):
            raise exc("TypeError", "bad service description")

    DecBase = ClassRec("Decorator")
    smod = Module(it, S_PY, stubs={"_LOGGER": logger_stub(), "Function": Fn, "State": StateStub,
                                   "Decorator": DecBase, "DOMAIN": "pyscript",
                                   "async_set_service_schema": set_schema,
                                   "SupportsResponse": Rec(fields={"NONE": "none"})})
    SD = smod.env.vars["ServiceDecorator"]
    C0, O0, R0 = cnt.snapshot(), own.snapshot(), reg.snapshot()
    eng.assume(I_svc(C0, O0, R0))
    d, s = z3.Const("dom", PartS), z3.Const("srv", PartS)
    key = join_fn2(d, s)
    # a second name (alias) of the same function: @service(name1, name2)
    two = bool(eng.choose(2, "two-names"))
    d2, s2 = z3.Const("dom2", PartS), z3.Const("srv2", PartS)
    key2 = join_fn2(d2, s2)
    eng.assume(key2 != key)
    ctxname = z3.Const("ctx", CtxNameS)
    gctx = Rec(fields={"get_name": lambda i: SV(ctxname)}, name="global_ctx")
    # the evaluator's own name differs in general from its global context's name (e.g. 'file.x.func' for a run)
    ast_ctx = Rec(fields={"name": SV(z3.Const("ast_ctx_name", CtxNameS)), "global_ctx": gctx,
                          "get_global_ctx_name": lambda i: SV(ctxname)}, name="ast_ctx")
    dm = Rec(fields={"ast_ctx": ast_ctx}, name="dm")
    pairs = [[PartV(d), PartV(s)]] + ([[PartV(d2), PartV(s2)]] if two else [])
    dec = Rec(cls=SD, fields={"args": pairs, "kwargs": {"supports_response": "none"}, "dm": dm,
                              "description": {}}, name="ServiceDecorator")
    # the names are free or already owned by this global context
    eng.assume(z3.Or(z3.Not(z3.Select(O0["dom"], key)), z3.Select(O0[".v"], key) == ctxname))
    conflict = two and bool(eng.choose(2, "second-name-owned-by-another-context"))
    if two and not conflict:
        eng.assume(z3.Or(z3.Not(z3.Select(O0["dom"], key2)), z3.Select(O0[".v"], key2) == ctxname))
    if conflict:
        eng.assume(z3.And(z3.Select(O0["dom"], key2), z3.Select(O0[".v"], key2) != ctxname))
    if not conflict:
        schema_fails_at[0] = eng.choose(3 if two else 2, "schema-raises-at-call")
    kind, val = run_catching(it, lambda: it.await_(it.call(it.getattr_(dec, "start"), [], {})))
    eng.cover(f"start:{kind}")
    if schema_fails_at[0]:
        # start fails part-way: exactly the registrations made so far are undone - not more (a name of this decorator that
        # was not registered yet may be registered by another function of the same context), not fewer
        regs0, rems0 = w.events("service_register"), w.events("service_remove")
        eng.oblige(f"{U}/start.failure-part-way-fails-the-start", kind == "exc" and val.cls.name == "TypeError")
        ob = eng.oblige(f"{U}/start.failure-part-way-removes-exactly-the-names-registered-so-far",
                        len(rems0) == len(regs0) == schema_fails_at[0] and all(it.eq(a[1], b[1]) for a, b in zip(regs0, rems0)))
        if ob.status == "refuted":
            ob.witness = {"signature": "partial-start-rollback", "fails_at": schema_fails_at[0], "names": 2 if two else 1}
        C1 = cnt.snapshot()
        eng.oblige(f"{U}/start.failure-part-way-leaves-the-counts-as-before", Forall([NameS], lambda k: snap_count(C1, k) == snap_count(C0, k), "k"))
        return
    if conflict:
        # a refused name: start fails and leaves NONE of the decorator's names registered (all or nothing)
        rems0 = w.events("service_remove")
        eng.oblige(f"{U}/start.refused-name-fails-the-start", kind == "exc" and val.cls.name == "ValueError")
        # (either nothing was registered before the refusal was noticed, or each registration made was removed again)
        regs0 = w.events("service_register")
        ob = eng.oblige(f"{U}/start.refused-name-rolls-back-the-names-already-registered",
                        len(rems0) == len(regs0) and all(it.eq(a[1], b[1]) for a, b in zip(regs0, rems0)))
        if ob.status == "refuted":
            ob.witness = {"signature": "refused-name", "subsystem": "new"}
        # registering a name replaces Home Assistant's callback for it, which no rollback restores: a later call would reach
        # this refused definition instead of the most recent declared one
        ob = eng.oblige(f"{U}/start.refused-name-replaces-no-callback", len(regs0) == 0)
        if ob.status == "refuted":
            ob.witness = {"signature": "refused-name", "subsystem": "new"}
        R1, C1, O1 = reg.snapshot(), cnt.snapshot(), own.snapshot()
        eng.oblige(f"{U}/start.refused-name-leaves-the-table-as-before", Forall([NameS], lambda k: z3.And(
            z3.Select(R1["dom"], k) == z3.Select(R0["dom"], k),
            snap_count(C1, k) == snap_count(C0, k),
            z3.Select(O1["dom"], k) == z3.Select(O0["dom"], k)), "k"))
        return
    eng.oblige(f"{U}/start.no-exception", kind == "ok")
    regs = w.events("service_register")
    keys = [key] + ([key2] if two else [])
    eng.oblige(f"{U}/start.registers-each-name-exactly-once", len(regs) == len(keys) and all(it.eq(r[1], DName(k)) for r, k in zip(regs, keys)))
    # the owner recorded for cross-context protection must be the *global context* name
    ob = eng.oblige(f"{U}/start.owner-is-global-context-name",
                    len(regs) == len(keys) and all(it.eq(r[2], SV(ctxname)) for r in regs))
    if ob.status == "refuted":
        ob.witness = {"signature": "owner-is-evaluator-name"}
    kind2, val2 = run_catching(it, lambda: it.await_(it.call(it.getattr_(dec, "stop"), [], {})))
    rems = w.events("service_remove")
    eng.oblige(f"{U}/stop.removes-each-name-exactly-once", kind2 == "ok" and len(rems) == len(keys) and all(it.eq(r[1], DName(k)) for r, k in zip(rems, keys)))


def replay_owner_name(w):
    from replay.native import run_native
    if w.get("signature") == "partial-start-rollback":
        return run_native("c12_partial_start", {"fails_at": 1})
    if w.get("signature") == "refused-name":
        for order in ("accepted-first", "refused-first"):
            r = run_native("c12_refused_name", dict(w, order=order))
            if r.get("reproduced") or r.get("error"):
                return r
        return r
    return run_native("c12_owner_is_evaluator_name", w)


def bounded_random(seed_base, programs):
    def run(seed):
        from replay.native import run_native
        return run_native("c12_random_bounded", {"seed": seed_base + seed, "programs": programs}, timeout=1500)
    return run


_B_UNITS = [(E_PY, "AstEval.ast_functiondef"), (E_PY, "EvalFunc.trigger_init"), (E_PY, "EvalFunc.trigger_stop"),
            (S_PY, "ServiceDecorator.start"), (S_PY, "ServiceDecorator.stop"), (F_PY, "Function.service_register"), (F_PY, "Function.service_remove")]


def harnesses():
    hs = [
        Harness("service_register", h_register, units=[(F_PY, "Function.service_register")]),
        Harness("service_remove", h_remove, units=[(F_PY, "Function.service_remove")]),
        Harness("pairing.new", h_pairing_new, units=[(S_PY, "ServiceDecorator.start"), (S_PY, "ServiceDecorator.stop")],
                replay=replay_owner_name),
    ]
    for n in (0, 1, 2):
        hs.append(Harness(f"pairing.legacy[{n}]", h_pairing_legacy(n),
                          units=[(E_PY, "EvalFunc.trigger_init"), (E_PY, "EvalFunc.trigger_stop")],
                          replay=replay_pairing))
    hs.append(mutator_closure_harness("C12", "service-tables", {"service_cnt": {"cls", "Function"},
                                                                "service2global_ctx": {"cls", "Function"}},
                                      {"Function.service_register", "Function.service_remove"}))
    # bounded stand-in for the whole life cycle (definition through the interpreter, refusal, roll-back by the caller, unload):
    # the parts between the contracts above that are not under contract themselves (AstEval.ast_functiondef, GlobalContext.stop,
    # DecoratorManager.start/stop).  Deleting / redefining a name is NOT generated: when the old function's services go away then
    # depends on when CPython finalises the function object (property C09's not-decided clause).
    hs.append(Harness("bounded.random-life-cycles", bounded_random(0, 60), units=_B_UNITS, kind="bounded"))
    # the fixed history behind the recorded finding C12-call-reaches-removed-definition (so that it is reported on every run,
    # not only when the random sequences happen to contain it)
    hs.append(Harness("bounded.removed-definition", lambda seed: __import__("replay.native", fromlist=["run_native"]).run_native("c12_removed_definition_still_called", {}),
                      units=[(F_PY, "Function.service_register"), (F_PY, "Function.service_remove")], kind="bounded"))
    for k in range(1, 4):
        hs.append(Harness(f"bounded.random-life-cycles[thorough {k}/3]", bounded_random(10 * k, 150), units=_B_UNITS, kind="bounded", tier="thorough"))
    return hs + harnesses_outgoing()


# ----------------------------------------------------------------------------------------------------------
# outgoing service calls: service.call(), <domain>.<service>() closure from Function.get, hass_services_async_call
# ----------------------------------------------------------------------------------------------------------
SuppS = USort("SupportsResponseEnum")
CONTEXT_TOK = PyTypeTok("Context")
CONTROL = {"context": "Context", "blocking": "bool", "return_response": "bool"}


def outgoing_setup(eng):
    it = Interpreter(eng)
    w = World(eng)
    cur = z3.Const("cur_task", TaskS)
    t2ctx = Store(eng, "task2context", TMap(TaskS, TScalar(CtxS, pytype=CONTEXT_TOK)))
    supp = {n: z3.Const(f"SupportsResponse.{n}", SuppS) for n in ("NONE", "ONLY", "OPTIONAL")}
    eng.assume(z3.Distinct(*supp.values()))
    supports = z3.Const("supports_response_of_service", SuppS)

    def async_call(i, domain, service, data=None, **hass_args):
        def th():
            w.emit("async_call", domain, service, dict(data), dict(hass_args))
            return SV(z3.Const("service_response", ObjS))
        return Coro(th, "hass.services.async_call")

    services = Rec(fields={"async_call": async_call, "supports_response": lambda i, d, s: SV(supports),
                           "has_service": lambda i, d, s: True}, name="hass.services")
    hass = Rec(fields={"services": services}, name="hass")
    SR = Rec(fields={k: SV(v) for k, v in supp.items()}, name="SupportsResponse")
    mod = Module(it, F_PY, stubs={"asyncio": asyncio_stub(w, cur), "_LOGGER": logger_stub(), "Context": CONTEXT_TOK,
                                 "SupportsResponse": SR, "traceback": traceback_stub()},
                 class_state={"Function": {"task2context": t2ctx, "hass": hass, "functions": {}}})
    return it, w, mod, mod.env.vars["Function"], dict(t2ctx=t2ctx, cur=cur, supports=supports, supp=supp)


def h_outgoing(entry):
    """entry: 'service_call' (service.call) or 'get' (the closure returned by Function.get)."""
    def h(eng):
        it, w, mod, Fn, S = outgoing_setup(eng)
        U = f"C12/Function.{'service_call' if entry == 'service_call' else 'get.service_call'}"
        kwargs = {}
        kinds = {}
        for key in ("context", "blocking", "return_response"):
            k = ["absent", "right-type", "wrong-type"][eng.choose(3, key)]
            kinds[key] = k
            if k == "right-type":
                kwargs[key] = SV(z3.Const(f"kw_{key}", CtxS), pytype=CONTEXT_TOK) if key == "context" \
                    else SV(z3.Const(f"kw_{key}", z3.BoolSort()))
            elif k == "wrong-type":
                kwargs[key] = SV(z3.Const(f"kw_{key}_str", StrS))
        # two ordinary data fields with arbitrary values
        kwargs["entity_id"] = SV(z3.Const("kw_entity_id", StrS))
        kwargs["brightness"] = SV(z3.Const("kw_brightness", z3.IntSort()))
        given = dict(kwargs)
        d, s = PartV(z3.Const("dom", PartS)), PartV(z3.Const("srv", PartS))
        if entry == "service_call":
            thunk = lambda: it.await_(it.call(it.getattr_(Fn, "service_call"), [d, s], kwargs))
        else:
            name = it.concat_str([d, ".", s])
            fn = it.call(it.getattr_(Fn, "get"), [name], {})
            thunk = lambda: it.await_(it.call(fn, [], kwargs))
        kind, val = run_catching(it, thunk)
        eng.cover(f"exit:{kind}")
        eng.oblige(f"{U}/post.no-exception", kind == "ok")
        calls = w.events("async_call")
        eng.oblige(f"{U}/post.exactly-one-hass-call", len(calls) == 1)
        if kind != "ok" or len(calls) != 1:
            return
        _, cd, cs, data, hargs = calls[0]
        eng.oblige(f"{U}/post.target", z3.And(it.eq(cd, d), it.eq(cs, s)))
        # service data = given kwargs minus recognised control keywords of matching type
        want_keys = [k for k in given if not (k in CONTROL and kinds[k] == "right-type")]
        ok = sorted(data.keys()) == sorted(want_keys)
        conj = [it.eq(data[k], given[k]) for k in want_keys] if ok else []
        ob = eng.oblige(f"{U}/post.delivers-exactly-the-given-parameters",
                        ok and (z3.And(*[c for c in conj if c is not True]) if any(c is not True for c in conj) else True))
        if ob.status == "refuted":
            ob.witness = {"signature": ",".join(f"{k}={v}" for k, v in sorted(kinds.items())), "entry": entry, "kinds": kinds}
        # control keywords of matching type are passed to HA as options, with their values
        for k in CONTROL:
            if kinds[k] == "right-type":
                eng.oblige(f"{U}/post.control-keyword-becomes-option", k in hargs and it.eq(hargs[k], given[k]))
        # context default: the run's own HA context
        t2c = S["t2ctx"].cols
        if kinds["context"] != "right-type":
            has = z3.Select(t2c["dom"], S["cur"])
            if "context" in hargs:
                eng.oblige(f"{U}/post.default-context-is-the-runs-context",
                           z3.And(has, it.eq(hargs["context"], SV(z3.Select(t2c[".v"], S["cur"])))))
            else:
                eng.oblige(f"{U}/post.default-context-is-the-runs-context", z3.Not(has))
        # return_response implies blocking
        rr = hargs.get("return_response")
        if rr is not None:
            rr_t = rr.t if isinstance(rr, SV) else z3.BoolVal(bool(rr))
            eng.oblige(f"{U}/post.return_response-implies-blocking", z3.Implies(rr_t, "blocking" in hargs))
        # response-only services are called with return_response
        if kinds["return_response"] != "right-type":
            eng.oblige(f"{U}/post.response-only-service-returns-response",
                       (S["supports"] == S["supp"]["ONLY"]) == ("return_response" in hargs))
    return h


def replay_outgoing(w):
    from replay.native import run_native
    return run_native("c12_outgoing", w)


def harnesses_outgoing():
    return [
        Harness("outgoing.service_call", h_outgoing("service_call"), replay=replay_outgoing,
                units=[(F_PY, "Function.service_call"), (F_PY, "Function.hass_services_async_call")]),
        Harness("outgoing.get", h_outgoing("get"), replay=replay_outgoing,
                units=[(F_PY, "Function.get"), (F_PY, "Function.hass_services_async_call")]),
    ]

"""Shared model of the four subscription tables (State / Event / Mqtt / Webhook) and their contracts.

Abstract view
    State.notify            : entity-name -> queue -> (names object)          [Map(Name, Map(Queue, Obj))]
    Event.notify            : event type  -> set of queues                   [Map(EvType, Set(Queue))]
    Event.notify_remove     : event type  -> remover callable               [Map(EvType, Obj)]
    ghost bus listeners     : event type  -> number of live hass.bus listeners installed by pyscript
(Mqtt, Webhook: same shape as Event.)

I_listen(T):  forall t.  t in notify  <=>  t in notify_remove  <=>  listeners(t) = 1,
              t in notify => notify[t] non-empty,  listeners(t) in {0, 1}
"""
from __future__ import annotations

import z3

from .common import *  # noqa
from pyvc.interp import SymPySet
from pyvc.values import name_axioms_for, nparts, part, join_fn

EvTypeS = USort("EvType")

ST_PY = f"{PKG}/state.py"
EV_PY = f"{PKG}/event.py"
MQ_PY = f"{PKG}/mqtt.py"
WH_PY = f"{PKG}/webhook.py"


class NamesSet(SymPySet):
    """A concrete-shape set of dotted names that also has an object identity (it is stored in State.notify)."""

    def __init__(self, items, ident):
        super().__init__(items)
        self.t = ident


def mk_names(eng, n, tag="n"):
    names = []
    for i in range(n):
        t = z3.Const(f"{tag}{i}", NameS)
        for ax in name_axioms_for(t):
            eng.assume(ax)
        names.append(DName(t))
    return names


def valid_name(t):
    return z3.Or(nparts(t) == 2, nparts(t) == 3)


def entity_of(t):
    """entity f"{parts[0]}.{parts[1]}" of a name (arity and parts of the join term follow from name_axioms_for)"""
    return join_fn(2)(part(t, 0), part(t, 1))


class StateTable:
    def __init__(self, eng, it, w, hass=None):
        self.eng, self.it, self.w = eng, it, w
        self.notify = Store(eng, "State.notify", TMap(NameS, TMap(QueueS, TScalar(ObjS))))
        self.last = Store(eng, "State.notify_var_last", TMap(NameS, TOpt(ObjS)))
        self.mod = Module(it, ST_PY, stubs={"_LOGGER": logger_stub(), "asyncio": PyModule("asyncio", {}),
                                            "Function": Rec(name="Function"), "Context": PyTypeTok("Context")},
                          class_state={"State": {"notify": self.notify, "notify_var_last": self.last,
                                                 "hass": hass}})
        self.cls = self.mod.env.vars["State"]

    def has(self, snap, ent, q):
        return z3.And(z3.Select(snap["dom"], ent), z3.Select(z3.Select(snap[".dom"], ent), q))

    def has_now(self, ent, q):
        return self.has(self.notify.cols, ent, q)

    def I_fresh(self):
        """Representation invariant of the two tables: a remembered last value belongs to an entity that still has an entry in
        `notify` - State.update refreshes notify_var_last exactly for the keys of `notify`, and notify_var_get prefers the
        remembered value to the live state, so a remembered value outside `notify` would be served stale for ever."""
        N, L = self.notify.cols, self.last.cols
        return Forall([NameS], lambda n: z3.Implies(z3.Select(L["dom"], n), z3.Select(N["dom"], n)), "I_fresh")

    def frame_other_queues(self, N0, q):
        return Forall([NameS, QueueS], lambda e, q2: z3.Implies(
            q2 != q, self.has(self.notify.cols, e, q2) == self.has(N0, e, q2)), "eq")


class ListenTable:
    """Event / Mqtt / Webhook: notify + notify_remove + ghost listener count."""

    def __init__(self, eng, it, w, kind, hass=None):
        self.eng, self.it, self.w, self.kind = eng, it, w, kind
        self.notify = Store(eng, f"{kind}.notify", TMap(EvTypeS, TSet(QueueS)))
        self.remove = Store(eng, f"{kind}.notify_remove", TMap(EvTypeS, TScalar(ObjS)))
        self.listeners = Store(eng, f"ghost.{kind}.listeners", TMap(EvTypeS, TScalar(z3.IntSort())))
        self.removers = {}
        tbl = self

        def remover_for(t):
            def remover(interp):
                w.emit(f"{kind}.unlisten", t)
                cur = tbl.count(t.t)
                tbl.listeners.view().setitem(t, SV(cur - 1))
            return remover

        def async_listen(interp, event_type, cb):
            w.emit(f"{kind}.listen", event_type, cb)
            tbl.listeners.view().setitem(event_type, SV(tbl.count(event_type.t) + 1))
            return remover_for(event_type)

        self.async_listen = async_listen
        self.remover_for = remover_for
        stubs = {"_LOGGER": logger_stub()}
        if kind == "Event":
            self.hass = hass or Rec(fields={"bus": Rec(fields={"async_listen": async_listen})}, name="hass")
            path, cname = EV_PY, "Event"
        elif kind == "Mqtt":
            def async_subscribe(interp, hass_, topic, handler, encoding=None, qos=0):
                def th():
                    # assumed contract of homeassistant.components.mqtt.async_subscribe: suspends; may raise
                    # (ghost: did the table already list the topic when the subscriber was suspended?)
                    tbl.entry_listed_when_suspended = z3.Select(tbl.notify.cols["dom"], topic.t)
                    w.yield_point("mqtt.async_subscribe", cancellable=True)
                    return async_listen(interp, topic, handler)
                return Coro(th, "mqtt.async_subscribe")
            stubs["mqtt"] = PyModule("mqtt", {"async_subscribe": async_subscribe})
            stubs["json"] = PyModule("json", {})
            self.hass = hass or Rec(name="hass")
            path, cname = MQ_PY, "Mqtt"
        else:
            def async_register(interp, hass_, domain, name, webhook_id, handler, local_only=None, allowed_methods=None):
                # Home Assistant refuses an id that is already registered (by another integration): ValueError
                if eng.choose(2, "webhook-id-taken-elsewhere") == 1:
                    w.emit("Webhook.register-refused", webhook_id)
                    raise exc("ValueError", "Handler is already defined!")
                w.emit("Webhook.listen", webhook_id, handler)
                tbl.listeners.view().setitem(webhook_id, SV(tbl.count(webhook_id.t) + 1))

            def async_unregister(interp, hass_, webhook_id):
                w.emit("Webhook.unlisten", webhook_id)
                tbl.listeners.view().setitem(webhook_id, SV(tbl.count(webhook_id.t) - 1))
            stubs["webhook"] = PyModule("webhook", {"async_register": async_register,
                                                    "async_unregister": async_unregister})
            stubs["hdrs"] = PyModule("hdrs", {})
            self.hass = hass or Rec(name="hass")
            path, cname = WH_PY, "Webhook"
        self.path, self.cname = path, cname

        # assumed contract of a remover found in notify_remove[t] (written only by notify_add, see mutator
        # closure): calling it removes the one listener pyscript installed for t
        if not hasattr(it, "listen_tables"):
            it.listen_tables = {}

            def call_unknown_remover(interp, sv, *a, **k):
                kind_ = sv.origin[0].split(".")[0] if sv.origin else None
                tb = interp.listen_tables.get(kind_)
                if tb is None or sv.origin[0] != f"{kind_}.notify_remove":
                    raise OutOfReach("call of an unknown object")
                t = SV(sv.origin[1][-1])
                tb.w.emit(f"{kind_}.unlisten", t)
                tb.listeners.view().setitem(t, SV(tb.count(t.t) - 1))
            it.method_tables[("Obj", "__call__")] = call_unknown_remover
        it.listen_tables[kind] = self
        self.mod = Module(it, path, stubs=stubs,
                          class_state={cname: {"notify": self.notify, "notify_remove": self.remove,
                                               "hass": self.hass}})
        self.cls = self.mod.env.vars[cname]

    def count(self, t, snap=None):
        c = snap if snap is not None else self.listeners.cols
        return z3.If(z3.Select(c["dom"], t), z3.Select(c[".v"], t), z3.IntVal(0))

    def snapshot(self):
        return (self.notify.snapshot(), self.remove.snapshot(), self.listeners.snapshot())

    def I_listen(self, snap=None):
        N, R, L = snap if snap is not None else self.snapshot()
        empty = z3.K(QueueS, z3.BoolVal(False))
        return Forall([EvTypeS], lambda t: z3.And(
            z3.Select(N["dom"], t) == z3.Select(R["dom"], t),
            z3.Select(N["dom"], t) == (self.count(t, L) == 1),
            z3.Or(self.count(t, L) == 0, self.count(t, L) == 1),
            z3.Implies(z3.Select(N["dom"], t), z3.Select(N[".in"], t) != empty)), f"I_listen[{self.kind}]")

    def subscribed(self, t, q, snap=None):
        N = snap[0] if snap is not None else self.notify.cols
        return z3.And(z3.Select(N["dom"], t), z3.Select(z3.Select(N[".in"], t), q))

    def frame_others(self, snap0, t, q):
        """Nothing but (t, q) changed in the abstract subscription relation; listener counts of other types same."""
        N0, R0, L0 = snap0
        return [
            Forall([EvTypeS, QueueS], lambda t2, q2: z3.Implies(z3.Or(t2 != t, q2 != q),
                   self.subscribed(t2, q2) == self.subscribed(t2, q2, snap0)), "tq"),
            Forall([EvTypeS], lambda t2: z3.Implies(t2 != t, self.count(t2) == self.count(t2, L0)), "t"),
        ]

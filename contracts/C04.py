"""C04 - state triggers run the function for exactly the qualifying state changes.

Per state_changed event e and per started trigger T: T runs once iff qualifies(T, e), with the kwargs of e.
Units: ident_any_values_changed, ident_values_changed (trigger.py), state_changed (__init__.py), State.update /
notify_var_get (state.py), the legacy loop step TrigInfo.trigger_watch#while0 (state branch) and the new-subsystem
step StateTriggerDecorator._cycle#while0."""
from __future__ import annotations

import ast
import itertools

import z3

from pyvc.framework import Harness
from pyvc.interp import Raised, Coro, exc, SymPySet, PathEnd, FuncVal, Env, _Continue, _Break, _Return
from pyvc.loader import Module, find_def, parse_file, number_loops
from pyvc.stmts import Interpreter, PyModule, SymKey
from pyvc.values import Rec, ClassRec, SV, DName, PartV, USort, NameS, PartS, nparts, part, join_fn, name_axioms_for, part_const
from .common import A_LOG, A_COOP, PKG, logger_stub, run_catching, World, Forall, Store, TMap, TSet, TScalar, TOpt, QueueS, ObjS
from .tables import mk_names, entity_of
from . import C09 as c09

PROPERTY = "C04"
T_PY = f"{PKG}/trigger.py"
I_PY = f"{PKG}/__init__.py"
ST_PY = f"{PKG}/state.py"
DS_PY = f"{PKG}/decorators/state.py"
VIRTUAL = ("entity_id", "last_changed", "last_updated", "last_reported")

ASSUMPTIONS = [
    A_LOG, A_COOP,
    "asyncio.Queue is FIFO and lossless; Home Assistant delivers one state_changed event per change, in order; tasks "
    "start in creation order ('runs start in event order' is not decided beyond that)",
    "a state value is a string with attributes: two StateVals are == iff their string values are equal (str.__eq__); "
    "attributes are read with getattr(..., None); entity ids have exactly two dot-free parts",
    "attribute sets of the old / new value are modelled with up to two ordinary attributes (a, b) plus the four "
    "virtual ones (every presence pattern; all values)",
    "the names referenced by an expression (AstEval.get_names) are C03's static-classification territory",
]
NOT_DECIDED = ["runs *start* in event order under overlap (asyncio ready queue)",
               "classification of decorator arguments into any-change names and expressions (STATE_RE regular expression in "
               "TrigInfo.__init__ / StateTriggerDecorator.validate): regular expressions are outside the encoding; the step "
               "proofs start from the classified sets; the regular expression is exercised by a bounded stand-in (bounded.classification)"]
SHAPE_BOUNDS = {"watched identifiers per trigger": "<= 2 (all coincidence patterns)", "ordinary attributes per value": "<= 2"}
LEVEL_TEXT = ("Proof (shape-bounded on identifier-set and attribute-set sizes, all names / values): the two ident "
              "predicates equal the statement's qualifying predicates; the fan-out delivers exactly one message with the "
              "notified values filled in; one iteration of each subsystem's loop (for every loop state and message) runs "
              "the function exactly once iff the change qualifies, with the event's kwargs overridden by the decorator's.")


# ----------------------------------------------------------------------------------------------------------
# values
# ----------------------------------------------------------------------------------------------------------
def mk_value(eng, tag, shape):
    """shape: None (deleted / no previous state) or a tuple of present ordinary attributes, e.g. ('a',) ."""
    if shape is None:
        return None
    s = z3.Const(f"{tag}_str", ObjS)
    eng.assume(s != z3.Const("const:None", ObjS))  # a StateVal is a string, never None
    f = {a: SV(z3.Const(f"{tag}_attr_{a}", ObjS)) for a in shape}
    for v in VIRTUAL:
        f[v] = SV(z3.Const(f"{tag}_{v}", ObjS))
    r = Rec(fields=f, name=f"StateVal<{tag}>", ident=s)
    return r


VALUE_SHAPES = [None, (), ("a",), ("a", "b")]


def attr_term(v, a_part, default_none=True):
    """getattr(v, a, None) as (is_none, term) for a symbolic attribute name a_part."""
    none_c = z3.Const("const:None", ObjS)
    if v is None:
        return none_c
    t = none_c
    for f, x in v._fields.items():
        if f.startswith("_"):
            continue
        t = z3.If(a_part == part_const(f), x.t, t)
    return t


def str_term(v):
    return z3.Const("const:None", ObjS) if v is None else v._ident


def spec_any_change(ident_terms, var, value, old):
    """the statement's any-change forms: d.e / d.e.attr / d.e.* """
    alts = []
    for n in ident_terms:
        same_entity3 = z3.And(nparts(n) == 3, part(n, 0) == part(var, 0), part(n, 1) == part(var, 1))
        attr = part(n, 2)
        ord_attrs = set()
        for v in (value, old):
            if v is not None:
                ord_attrs |= {f for f in v._fields if not f.startswith("_") and f not in VIRTUAL}
        star_diff = z3.Or(*[attr_term(value, part_const(a)) != attr_term(old, part_const(a)) for a in sorted(ord_attrs)]) if ord_attrs else z3.BoolVal(False)
        alts.append(z3.And(n == var, str_term(value) != str_term(old)))
        alts.append(z3.And(same_entity3, attr == part_const("*"), star_diff))
        alts.append(z3.And(same_entity3, attr != part_const("*"), attr_term(value, attr) != attr_term(old, attr)))
    return z3.Or(*alts) if alts else z3.BoolVal(False)


def spec_watched_changed(ident_terms, var, value, old):
    alts = []
    for n in ident_terms:
        root_same = z3.And(part(n, 0) == part(var, 0), part(n, 1) == part(var, 1))
        alts.append(z3.And(nparts(n) == 2, root_same, str_term(value) != str_term(old)))
        alts.append(z3.And(nparts(n) == 3, root_same, part(n, 2) == part_const("old"), str_term(value) != str_term(old)))
        alts.append(z3.And(nparts(n) == 3, root_same, part(n, 2) != part_const("old"),
                           attr_term(value, part(n, 2)) != attr_term(old, part(n, 2))))
    return z3.Or(*alts) if alts else z3.BoolVal(False)


def trig_env(eng, it, w=None):
    w = w or World(eng)
    it.obj_may_be_none = True  # attribute values may be None
    mod, Fn = c09.trig_module(eng, it, w)
    mod.env.vars["STATE_VIRTUAL_ATTRS"] = SymPySet(list(VIRTUAL))
    return mod, Fn, w


def entity(eng, tag="var"):
    t = join_fn(2)(z3.Const(f"{tag}_dom", PartS), z3.Const(f"{tag}_ent", PartS))
    for ax in name_axioms_for(t):
        eng.assume(ax)
    return DName(t)


def h_ident(which, n_ident):
    def h(eng):
        it = Interpreter(eng)
        mod, Fn, w = trig_env(eng, it)
        U = f"C04/{which}"
        vs = VALUE_SHAPES[eng.choose(len(VALUE_SHAPES), "value")]
        os_ = VALUE_SHAPES[eng.choose(len(VALUE_SHAPES), "old")]
        value, old = mk_value(eng, "new", vs), mk_value(eng, "old", os_)
        var = entity(eng)
        names = mk_names(eng, n_ident, "ident")
        for n in names:
            eng.assume(nparts(n.t) <= 4)
        has_var = bool(eng.choose(2, "has-var_name")) if n_ident <= 1 else True
        func_args = {"trigger_type": "state", "value": value, "old_value": old}
        if has_var:
            func_args["var_name"] = var
        ident = SymPySet(names)
        k, v = run_catching(it, lambda: it.call(mod.env.vars[which], [func_args, ident], {}))
        eng.cover(f"exit:{k}")
        eng.oblige(f"{U}/post.no-exception", k == "ok")
        if k != "ok":
            return
        vt = v.t if isinstance(v, SV) else z3.BoolVal(bool(v))
        terms = [n.t for n in names]
        if not has_var:
            eng.oblige(f"{U}/post.no-variable-no-change", z3.Not(vt))
            return
        want = spec_any_change(terms, var.t, value, old) if which == "ident_any_values_changed" else spec_watched_changed(terms, var.t, value, old)

        def wit(ob):
            m = ob._z3model
            ev = lambda t: m.eval(t, model_completion=True)
            return {"signature": which, "which": which, "value_shape": vs, "old_shape": os_,
                    "idents": [{"nparts": ev(nparts(t)).as_long(), "same_entity": bool(ev(z3.And(part(t, 0) == part(var.t, 0), part(t, 1) == part(var.t, 1)))),
                                "attr": str(ev(part(t, 2)))} for t in terms],
                    "value_changed": bool(ev(str_term(value) != str_term(old))), "returned": bool(ev(vt)), "specified": bool(ev(want))}
        ob = eng.oblige(f"{U}/post.equals-the-qualifying-predicate", vt == want)
        if ob.status == "refuted":
            ob.witness = wit(ob)
    return h


def replay_ident(wj):
    from replay.native import run_native
    return run_native("c04_ident", wj)


# ----------------------------------------------------------------------------------------------------------
# state_changed listener
# ----------------------------------------------------------------------------------------------------------
def h_state_changed(eng):
    it = Interpreter(eng)
    U = "C04/async_setup_entry.state_changed"
    tree, _ = parse_file(I_PY)
    node = find_def(tree, "async_setup_entry.state_changed")
    sent = []
    made = []

    def StateVal(i, st):
        r = Rec(fields={"from": st}, name="StateVal")
        made.append(r)
        return r
    State = Rec(fields={"update": lambda i, nv, fa: Coro(lambda: sent.append((nv, fa)), "State.update")}, name="State")
    env = Env(None, {"StateVal": StateVal, "State": State})
    fv = FuncVal(node, env, "async_setup_entry.state_changed", is_async=True)
    fv.defaults, fv.kw_defaults = [], []
    var = entity(eng)
    has_new = bool(eng.choose(2, "new_state"))
    has_old = bool(eng.choose(2, "old_state"))
    new_state, old_state = Rec(name="new_core_state"), Rec(name="old_core_state")
    data = {"entity_id": var}
    if has_new:
        data["new_state"] = new_state
    if has_old:
        data["old_state"] = old_state
    ctx = Rec(name="event_context")
    event = Rec(fields={"data": data, "context": ctx}, name="event")
    k, v = run_catching(it, lambda: it.await_(it.call(fv, [event], {})))
    eng.cover("ran")
    ok = k == "ok" and len(sent) == 1
    eng.oblige(f"{U}/post.exactly-one-update", ok)
    if not ok:
        return
    nv, fa = sent[0]
    newv = next((m for m in made if m._fields["from"] is new_state), None) if has_new else None
    oldv = next((m for m in made if m._fields["from"] is old_state), None) if has_old else None
    keys = [kk.key if isinstance(kk, SymKey) else kk for kk in nv.keys()]
    eng.oblige(f"{U}/post.new_vars-are-name-and-name.old",
               len(keys) == 2 and keys[0] is var and isinstance(keys[1], DName) and list(nv.values()) == [newv, oldv])
    if len(keys) == 2 and isinstance(keys[1], DName):
        eng.oblige(f"{U}/post.old-name-is-entity.old", z3.And(nparts(keys[1].t) == 3, part(keys[1].t, 0) == part(var.t, 0),
                                                               part(keys[1].t, 1) == part(var.t, 1), part(keys[1].t, 2) == part_const("old")))
    eng.oblige(f"{U}/post.kwargs", fa == {"trigger_type": "state", "var_name": var, "value": newv, "old_value": oldv, "context": ctx})
    eng.oblige(f"{U}/post.deleted-or-created-is-None", (newv is None) == (not has_new) and (oldv is None) == (not has_old))


# ----------------------------------------------------------------------------------------------------------
# State.update / notify_var_get
# ----------------------------------------------------------------------------------------------------------
def h_update(eng):
    """Every queue subscribed to the changed variable gets exactly one message [ 'state', [vars, kwargs-copy] ];
    other queues get nothing; notify_var_last is refreshed for subscribed variables."""
    from .tables import StateTable, NamesSet
    from .common import LoopSpec
    it = Interpreter(eng)
    w = World(eng)
    st = StateTable(eng, it, w)
    U = "C04/State.update"
    got = Store(eng, "ghost.delivered", TMap(QueueS, TScalar(z3.IntSort())))
    eng.assume(got.cols["dom"] == z3.K(QueueS, z3.BoolVal(False)))
    var = entity(eng)
    newv, oldv = SV(z3.Const("new_val", ObjS)), SV(z3.Const("old_val", ObjS))
    oldname = DName(join_fn(3)(part(var.t, 0), part(var.t, 1), part_const("old")))
    for ax in name_axioms_for(oldname.t):
        eng.assume(ax)
    new_vars = {SymKey(var): newv, SymKey(oldname): oldv}
    func_args = {"trigger_type": "state", "var_name": var}
    filled = []
    st.cls.attrs["notify_var_get"] = lambda i, names, nv: (filled.append((names, nv)), {"filled": True})[1]
    msgs = []

    def put(i, q, item):
        def th():
            msgs.append((q, item))
            cur = z3.If(z3.Select(got.cols["dom"], q.t), z3.Select(got.cols[".v"], q.t), z3.IntVal(0))
            got.view().setitem(q, SV(cur + 1))
            ok = isinstance(item, list) and item[0] == "state" and isinstance(item[1], list) and len(item[1]) == 2 \
                and item[1][0] == {"filled": True} and item[1][1] == func_args and item[1][1] is not func_args
            eng.oblige(f"{U}/post.message-carries-filled-values-and-a-private-kwargs-copy", ok)
        return Coro(th, "queue.put")
    it.method_tables[("Queue", "put")] = put
    N0 = st.notify.snapshot()
    # the .old pseudo-name is never a subscription key (subscriptions are per entity)
    eng.assume(z3.Not(z3.Select(N0["dom"], oldname.t)))
    members = z3.Select(N0[".dom"], var.t)
    subscribed = z3.Select(N0["dom"], var.t)

    def inv(interp, env, visited, mem):
        cnt = lambda q: z3.If(z3.Select(got.cols["dom"], q), z3.Select(got.cols[".v"], q), z3.IntVal(0))
        return [Forall([QueueS], lambda q: cnt(q) == z3.If(z3.Select(visited, q), z3.IntVal(1), z3.IntVal(0)), "q")]
    fn = st.mod.func("State.update")
    number_loops(fn.node)
    # the local dict `notify` (queue -> names) becomes a symbolic map at the delivery loop
    from pyvc.values import TMap as _TMap
    it.loop_specs[("State.update", "for1")] = LoopSpec(inv, [got], "queues")
    k, v = run_catching(it, lambda: it.await_(it.call(it.getattr_(st.cls, "update"), [new_vars, func_args], {})))
    eng.cover(f"exit:{k}")
    eng.oblige(f"{U}/post.no-exception", k == "ok")
    cnt = lambda q: z3.If(z3.Select(got.cols["dom"], q), z3.Select(got.cols[".v"], q), z3.IntVal(0))
    eng.oblige(f"{U}/post.each-subscriber-exactly-one-message-nobody-else",
               Forall([QueueS], lambda q: cnt(q) == z3.If(z3.And(subscribed, z3.Select(members, q)), z3.IntVal(1), z3.IntVal(0)), "q"))
    eng.oblige(f"{U}/post.last-notified-value-refreshed-iff-subscribed",
               z3.Implies(subscribed, z3.And(z3.Select(st.last.cols["dom"], var.t), z3.Not(z3.Select(st.last.cols[".none"], var.t)),
                                             z3.Select(st.last.cols[".v"], var.t) == newv.t)))
    eng.oblige(f"{U}/frame.subscriptions-unchanged", z3.And(st.notify.cols["dom"] == N0["dom"], st.notify.cols[".dom"] == N0[".dom"]))


def h_validate_watch(eng):
    """Which names a @state_trigger watches is decided once, in StateTriggerDecorator.validate: the `watch=` list if one is given
    (and nothing else - that is its purpose), otherwise the names in the expression plus the any-change names.  The statements
    after `await super().validate()` (schema validation, assumed) are cut out mechanically and run on argument lists that mix
    expressions and any-change names; STATE_RE is the regular expression read from the module's source."""
    import ast as _ast, re as _re
    from pyvc.interp import Env
    from pyvc.loader import parse_file
    it = Interpreter(eng)
    w = World(eng)
    tree, _ = parse_file(DS_PY)
    cls = next(n for n in tree.body if isinstance(n, _ast.ClassDef) and n.name == "StateTriggerDecorator")
    fn = next(n for n in cls.body if isinstance(n, _ast.AsyncFunctionDef) and n.name == "validate")
    start = next(i for i, st in enumerate(fn.body) if "super().validate()" in _ast.unparse(st)) + 1
    pat = next(n.value.args[0].value for n in tree.body if isinstance(n, _ast.Assign) and getattr(n.targets[0], "id", None) == "STATE_RE")
    rx = _re.compile(pat)
    U = "C04/StateTriggerDecorator.validate"
    args = [["d.e == '1'"], ["d.e == '1'", "d.f"], ["d.f"], ["d.f", "d.g.attr", "d.h.*", "d.e > 2"]][eng.choose(4, "arguments")]
    watch = [None, ["d.w"], [], ["d.e", "d.w"]][eng.choose(4, "watch")]
    in_wait = bool(eng.choose(2, "inside-wait_until"))
    WU = ClassRec("WaitUntilDecoratorManager")
    logged = []
    dm = Rec(cls=WU if in_wait else None, fields={"logger": Rec(fields={"error": lambda i, *a: logged.append(a)}, name="logger"), "name": "file.x.f"}, name="dm")
    made = []
    self_ = Rec(fields={"args": list(args), "kwargs": ({} if watch is None else {"watch": list(watch)}), "state_check_now": None, "dm": dm, "name": "state_trigger",
                        "_ast_expression": None}, name="state_dec")

    def create_expression(i, text):
        made.append(text)
        self_._fields["_ast_expression"] = Rec(fields={"get_names": lambda i2: Coro(lambda: SymPySet(["n.in_expr"]), "get_names")}, name="expr")
    self_._fields["create_expression"] = create_expression
    self_._fields["has_expression"] = lambda i: self_._fields["_ast_expression"] is not None
    env = Env(vars={"self": self_, "STATE_RE": Rec(fields={"match": lambda i, t: (True if rx.match(t) else None)}, name="STATE_RE"),
                    "WaitUntilDecoratorManager": WU, "_LOGGER": logger_stub()})
    k, v = run_catching(it, lambda: it.exec_block(fn.body[start:], env))
    eng.cover(f"ran:{k}")
    eng.oblige(f"{U}/post.no-exception", k == "ok")
    if k != "ok":
        return
    anyc = [a for a in args if rx.match(a)]
    exprs = [a for a in args if not rx.match(a)]
    f = self_._fields
    eng.oblige(f"{U}/post.any-change-names-are-the-arguments-of-name-form", sorted(f["state_trig_ident_any"]) == sorted(anyc))
    eng.oblige(f"{U}/post.one-expression-from-the-other-arguments", (made == []) if not exprs else (len(made) == 1 and all(e in made[0] for e in exprs)))
    want = set(watch) if watch is not None else (set(["n.in_expr"] if exprs else []) | set(anyc))
    ob = eng.oblige(f"{U}/post.watched-names-are-the-watch-list-or-else-expression-names-plus-any-change-names", set(f["state_trig_ident"]) == want)
    if ob.status == "refuted":
        ob.witness = {"signature": "watch-list-not-exclusive", "args": args, "watch": watch}
    eng.oblige(f"{U}/post.check-now-defaults-to-true-only-inside-wait_until", f["state_check_now"] is (True if in_wait else None))
    eng.oblige(f"{U}/post.watching-nothing-is-reported", (len(logged) == 1) == (len(want) == 0))


def replay_watch(wj):
    from replay.native import run_native
    return run_native("c04_watch_list", wj)


def harnesses():
    hs = []
    for which in ("ident_any_values_changed", "ident_values_changed"):
        for n in (0, 1, 2):
            hs.append(Harness(f"{which}[{n}]", h_ident(which, n), units=[(T_PY, which)], replay=replay_ident, max_paths=20000))
    hs.append(Harness("state_changed", h_state_changed, units=[(I_PY, "async_setup_entry.state_changed")]))
    hs.append(Harness("State.update", h_update, units=[(ST_PY, "State.update")]))
    return hs


# ----------------------------------------------------------------------------------------------------------
# State.notify_var_get
# ----------------------------------------------------------------------------------------------------------
def replay_notify_var_get(wj):
    from replay.native import run_native
    return run_native("c04_notify_var_get", wj, timeout=120)


def h_notify_var_get(eng):
    from .tables import StateTable
    it = Interpreter(eng)
    it.obj_may_be_none = True
    w = World(eng)
    exists = z3.Function("hass_state_exists", NameS, z3.BoolSort())
    hass = Rec(name="hass")
    st = StateTable(eng, it, w, hass=hass)
    st.cls.attrs["exist"] = lambda i, n: SV(exists(n.t))
    attr_of = z3.Function("getattr_or_None", ObjS, PartS, ObjS)
    it.method_tables[("Obj", "getattr_sym")] = lambda i, o, name, *d: SV(attr_of(o.t, name.t))
    U = "C04/State.notify_var_get"
    var = entity(eng)
    newv = SV(z3.Const("new_val", ObjS))
    new_vars = {SymKey(var): newv}
    n = mk_names(eng, 1, "watched")[0]
    eng.assume(nparts(n.t) <= 4)
    L0 = st.last.snapshot()
    k, v = run_catching(it, lambda: it.call(it.getattr_(st.cls, "notify_var_get"), [SymPySet([n]), new_vars], {}))
    eng.cover(f"exit:{k}")
    eng.oblige(f"{U}/post.no-exception", k == "ok")
    if k != "ok":
        return
    eng.oblige(f"{U}/frame.caller-dict-not-modified", list(new_vars.values()) == [newv] and v is not new_vars)
    keys = [(kk.key if isinstance(kk, SymKey) else kk) for kk in v]
    # the changed variable keeps the value of the event
    eng.oblige(f"{U}/post.event-values-kept", len(keys) >= 1 and keys[0] is var and list(v.values())[0] is newv)
    ent = entity_of(n.t)
    in_last = lambda t: z3.Select(L0["dom"], t)
    last_v = lambda t: z3.Select(L0[".v"], t)
    last_none = lambda t: z3.Select(L0[".none"], t)
    if len(keys) == 1:
        # nothing filled in: only allowed when the watched name is the changed variable itself, or is a name the rules
        # do not cover (exists but was never notified)
        ob = eng.oblige(f"{U}/post.unfilled-only-when-no-rule-applies", z3.Or(
            n.t == var.t,
            z3.And(z3.Not(in_last(n.t)), z3.Not(z3.And(nparts(n.t) == 3, in_last(ent))),
                   z3.Or(nparts(n.t) < 2, nparts(n.t) > 4, exists(n.t)))))
        if ob.status == "refuted":
            ob.witness = {"signature": "notify_var_get:unfilled", "what": "unfilled"}
    else:
        val = list(v.values())[1]
        eng.oblige(f"{U}/post.filled-name-is-the-watched-name", len(keys) == 2 and keys[1] is n)
        vt = None if val is None else val
        if isinstance(vt, SV) and vt.none is not None:
            # value straight from notify_var_last (may be None for a deleted variable)
            eng.oblige(f"{U}/post.unchanged-name-gets-last-notified-value",
                       z3.And(in_last(n.t), vt.t == last_v(n.t), vt.none == last_none(n.t)))
        elif isinstance(vt, SV):
            eng.oblige(f"{U}/post.attribute-read-from-last-notified-value-missing-is-None",
                       z3.And(z3.Not(in_last(n.t)), nparts(n.t) == 3, in_last(ent), z3.Not(last_none(ent)),
                              vt.t == attr_of(last_v(ent), part(n.t, 2))))
        else:
            eng.oblige(f"{U}/post.None-for-undefined-names-or-attributes-of-deleted-variables",
                       z3.And(z3.Not(in_last(n.t)), z3.Or(z3.And(nparts(n.t) == 3, in_last(ent), last_none(ent)),
                                                         z3.And(z3.Not(z3.And(nparts(n.t) == 3, in_last(ent))), z3.Not(exists(n.t)),
                                                                nparts(n.t) >= 2, nparts(n.t) <= 4))))


# ----------------------------------------------------------------------------------------------------------
# loop steps
# ----------------------------------------------------------------------------------------------------------
def symbolic_loop_state(eng):
    """An arbitrary state of the locals of trigger_watch at the top of its loop."""
    R = z3.RealSort()
    opt = lambda nm: SV(z3.Const(nm, R), none=z3.Bool(nm + "_is_none"))
    return {
        "last_trig_time": opt("last_trig_time"), "last_state_trig_time": opt("last_state_trig_time"),
        "state_trig_waiting": SV(z3.Bool("state_trig_waiting")), "state_trig_notify_info": [None, None],
        "state_false_time": opt("state_false_time"), "startup_time": SV(z3.Const("startup_time", R)),
        "now": SV(z3.Const("now0", R)), "check_state_expr_on_start": False,
    }


class VClock:
    """Virtual clock (the property's quantifier: 'on a virtual clock'): time advances only while the loop waits on its
    queue; all readings taken between two waits are equal; a wait that times out ends no earlier than its deadline."""

    def __init__(self, eng, w=None):
        self.eng, self.w, self.phase, self.reads = eng, w, 0, []
        self.cur = self._new()

    def _new(self):
        t = z3.Const(f"vclock_{self.phase}", z3.RealSort())
        self.eng.assume(t > 0)
        return t

    def read(self):
        self.reads.append((self.phase, self.cur))
        if self.w is not None:
            self.w.emit("time", self.cur)
        return SV(self.cur)

    def waited(self, timeout=None, fired=False):
        """the loop waited: the clock advanced (at least to the deadline when the wait timed out)"""
        prev = self.cur
        self.phase += 1
        self.cur = self._new()
        self.eng.assume(self.cur >= prev)
        if timeout is not None:
            tt = timeout.t if isinstance(timeout, SV) else z3.RealVal(timeout)
            self.eng.assume(self.cur >= prev + tt if fired else self.cur <= prev + z3.If(tt >= 0, tt, 0))


def legacy_step(eng, cfg, message, loop_state=None, expr_result=None, clock=None, timeout_fires=False, mode="step"):
    """Run ONE iteration of TrigInfo.trigger_watch#while0 from an arbitrary loop state with `message` arriving on the
    queue.  Returns (interp, world, trig_info, final locals, how the iteration ended)."""
    it = Interpreter(eng)
    it.obj_may_be_none = True
    mod, Fn, w = trig_env(eng, it)
    q_calls = []

    def q_get(i, q):
        def th():
            q_calls.append("get")
            w.yield_point("notify_q.get", cancellable=False)
            return list(message)
        return Coro(th, "notify_q.get")
    it.method_tables[("Queue", "get")] = q_get
    mod.env.vars["asyncio"].attrs["wait_for"] = lambda i, aw, timeout=None: aw
    if clock is not None:
        clock.w = w
        armed = {}

        def q_get(i, q):  # noqa: F811
            def th():
                q_calls.append("get")
                w.yield_point("notify_q.get", cancellable=False)
                to = armed.pop("timeout", None)
                clock.waited(to, fired=timeout_fires and to is not None)
                if timeout_fires and to is not None:
                    raise exc("TimeoutError")
                return list(message)
            return Coro(th, "notify_q.get")
        it.method_tables[("Queue", "get")] = q_get

        def wait_for(i, aw, timeout=None):
            w.emit("wait_for", timeout)
            armed["timeout"] = timeout
            return aw
        mod.env.vars["asyncio"].attrs["wait_for"] = wait_for
        mod.env.vars["time"].attrs["monotonic"] = lambda i: clock.read()
        mod.env.vars["dt_now"] = lambda i: clock.read()
        as_t = lambda x: x.t if isinstance(x, SV) else z3.RealVal(x)
        mod.env.vars["dt"] = PyModule("dt", {"timedelta": lambda i, seconds=0: SV(as_t(seconds))})
        mod.env.vars["max"] = lambda i, a, b: SV(z3.If(as_t(a) >= as_t(b), as_t(a), as_t(b)))
    ident = SymPySet(cfg.get("ident", []))
    ident_any = SymPySet(cfg.get("ident_any", []))

    def mk_expr(tag):
        r = Rec(name=tag)

        def ev(i, vars_):
            def th():
                w.emit("expr", tag, vars_)
                res = expr_result if expr_result is not None else ["true", "false", "raises"][eng.choose(3, f"{tag}")]
                r._fields["last"] = res
                if res == "raises":
                    raise exc("UserException", "bad expression")
                # an expression's value is used for its truth, and is not necessarily a bool: 1 / 0 here, so that code
                # comparing with `is True` / `is False` does not pass for the wrong reason
                return 1 if res == "true" else 0
            return Coro(th, f"{tag}.eval")
        r._fields["eval"] = ev
        r._fields["log_exception"] = lambda i, e: w.emit("log_exception", tag)
        r._fields["get_names"] = lambda i: Coro(lambda: SymPySet(list(cfg.get("ident", []))), "get_names")
        return r
    expr = mk_expr("state_trig_eval") if cfg.get("has_expr", True) else None
    ti, q, names = c09.mk_triginfo(eng, it, mod, dict(state=1, event=0, mqtt=0, webhook=0), SV(z3.Const("trigger_task", USort("Task"))))
    f = ti._fields
    f.update({"state_trig_ident": ident, "state_trig_ident_any": ident_any, "state_trig_eval": expr, "have_trigger": True,
              "state_trigger_kwargs": cfg.get("state_trigger_kwargs", {}), "state_hold": cfg.get("state_hold"),
              "state_hold_false": cfg.get("state_hold_false"), "state_check_now": cfg.get("state_check_now", False),
              "time_active": cfg.get("time_active"), "time_active_hold_off": cfg.get("hold_off"), "event_trigger_kwargs": {},
              "mqtt_trigger_kwargs": {}, "webhook_trigger_kwargs": {}, "event_trig_expr": None, "mqtt_trig_expr": None,
              "webhook_trig_expr": None})
    f.update(cfg.get("fields", {}))
    f["active_expr"] = mk_expr("active_expr") if cfg.get("has_active") else None
    f["state_active_ident"] = SymPySet([])
    f["call_action"] = lambda i, nt, fa, run_task=True: (w.emit("call_action", nt, dict(fa)), cfg.get("call_action_returns", True))[1]
    mod.env.vars["State"]._fields["notify_var_get"] = lambda i, names_, nv: dict(nv)
    fn = mod.func("TrigInfo.trigger_watch")
    number_loops(fn.node)
    result = {}

    def at_loop(interp, node, env):
        st = dict(symbolic_loop_state(eng))
        st.update(loop_state or {})
        if mode == "start":
            st = {}  # first iteration, from the locals the real prologue computed
        for kk, vv in st.items():
            env.vars[kk] = vv
        # find the frame env to write into
        e = env
        while e is not None and not getattr(e, "is_frame", False):
            e = e.parent
        for kk, vv in st.items():
            e.vars[kk] = vv
        result["locals_at_entry"] = dict(e.vars)
        try:
            interp.exec_block(node.body, env)
            result["end"] = "fallthrough"
        except _Continue:
            result["end"] = "continue"
        except _Break:
            result["end"] = "break"
        except _Return:
            result["end"] = "return"
        result["locals"] = dict(e.vars)
        raise PathEnd()
    it.loop_specs[("TrigInfo.trigger_watch", "while0")] = at_loop
    try:
        it.await_(it.call(it.getattr_(ti, "trigger_watch"), [], {}))
    except PathEnd:
        pass
    except Raised as r:
        result["end"] = "raised:" + r.exc.cls.name
    return it, w, ti, result, q_calls, (expr, f["active_expr"])


def mk_state_message(eng, var, value, old, extra_vars=None):
    ctx = Rec(name="event_context")
    func_args = {"trigger_type": "state", "var_name": var, "value": value, "old_value": old, "context": ctx}
    oldname = DName(join_fn(3)(part(var.t, 0), part(var.t, 1), part_const("old")))
    new_vars = {SymKey(var): value, SymKey(oldname): old}
    return ["state", [new_vars, func_args]], func_args, new_vars


def h_legacy_step(n_ident, n_any):
    def h(eng):
        U = f"C04/TrigInfo.trigger_watch#while0[state;ident={n_ident},any={n_any}]"
        eng.max_steps = 3_000_000
        # attribute-set shapes are exhausted by the ident_* harnesses; the step uses {deleted, one attribute}
        shapes = [None, ("a",)]
        vs = shapes[eng.choose(len(shapes), "value")]
        os_ = shapes[eng.choose(len(shapes), "old")]
        value, old = mk_value(eng, "new", vs), mk_value(eng, "old", os_)
        var = entity(eng)
        ident = mk_names(eng, n_ident, "ident")
        anyn = mk_names(eng, n_any, "any")
        for n in ident + anyn:
            eng.assume(nparts(n.t) <= 4)
        for n in anyn:
            # any-change forms are d.e / d.e.attr / d.e.* (STATE_RE); 'd.e.old' is the previous-value reference, not an attribute
            eng.assume(z3.And(nparts(n.t) >= 2, nparts(n.t) <= 3, z3.Implies(nparts(n.t) == 3, part(n.t, 2) != part_const("old"))))
        msg, func_args, new_vars = mk_state_message(eng, var, value, old)
        deckw = {"kwargs": {"extra": 1, "value": "overridden-by-decorator"}} if eng.choose(2, "decorator-kwargs") else {}
        cfg = {"ident": ident, "ident_any": anyn, "has_expr": True, "state_trigger_kwargs": deckw}
        # no state_hold configured: the loop is never in the 'waiting for hold' state (C05 covers holds)
        it, w, ti, res, q_calls, (expr, _) = legacy_step(eng, cfg, msg, loop_state={"state_trig_waiting": False})
        eng.cover(f"end:{res.get('end')}")
        calls = w.events("call_action")
        any_q = spec_any_change([n.t for n in anyn], var.t, value, old)
        watched = spec_watched_changed([n.t for n in ident], var.t, value, old)
        truthy = expr._fields.get("last") == "true"
        evaluated = "last" in expr._fields
        eng.oblige(f"{U}/post.exactly-one-queue-read-per-iteration", q_calls == ["get"])
        eng.oblige(f"{U}/post.no-exception-escapes-the-step", not str(res.get("end")).startswith("raised"))
        # the function runs exactly once iff the change qualifies
        if len(calls) == 1:
            ob = eng.oblige(f"{U}/post.runs-only-for-qualifying-changes", z3.Or(any_q, z3.And(watched, truthy)))
        elif len(calls) == 0:
            # not run: the change does not qualify (expression false / raised, or nothing watched changed)
            qual = z3.Or(any_q, z3.And(watched, truthy)) if evaluated else z3.Or(any_q, watched)
            ob = eng.oblige(f"{U}/post.runs-for-every-qualifying-change", z3.Not(qual))
        else:
            ob = eng.oblige(f"{U}/post.never-runs-twice-for-one-change", False)
        # the expression is evaluated on the values of THIS event (incl. NAME.old), only when a watched name changed
        for e in w.events("expr"):
            eng.oblige(f"{U}/post.expression-sees-the-events-values", e[2] == new_vars)
        if evaluated:
            eng.oblige(f"{U}/post.expression-evaluated-only-for-watched-changes", z3.And(z3.Not(any_q), watched))
        if len(calls) == 1:
            want = dict(func_args)
            want.update(deckw.get("kwargs", {}))
            eng.oblige(f"{U}/post.kwargs-are-the-events-overridden-by-the-decorators", calls[0][1] == "state" and calls[0][2] == want)
    return h


def harnesses2():
    hs = [Harness("State.notify_var_get", h_notify_var_get, units=[(ST_PY, "State.notify_var_get")], replay=replay_notify_var_get)]
    for ni, na in ((1, 0), (0, 1), (1, 1)):
        hs.append(Harness(f"legacy.step[ident={ni},any={na}]", with_chain_witness(h_legacy_step(ni, na)), units=[(T_PY, "TrigInfo.trigger_watch")], replay=replay_chain, max_paths=30000))
    return hs


_h1 = harnesses


def harnesses():  # noqa: F811
    return _h1() + harnesses2()


# ----------------------------------------------------------------------------------------------------------
# new subsystem: StateTriggerDecorator._cycle#while0
# ----------------------------------------------------------------------------------------------------------
def new_step(eng, cfg, message=None, fields=None, timeout_fires=False, vclock=None, mode="step"):
    """ONE iteration of StateTriggerDecorator._cycle#while0 from an arbitrary decorator state."""
    it = Interpreter(eng)
    it.obj_may_be_none = True
    w = World(eng)
    amod, bmod, M, hass, live = c09.dec_env(eng, it, w)
    tmod, Fn, _ = trig_env(eng, it, w)
    clock = {"n": 0}

    armed = {}

    def loop_time(i):
        if vclock is not None:
            vclock.w = w
            return vclock.read()
        clock["n"] += 1
        t = z3.Const(f"loop_time_{clock['n']}", z3.RealSort())
        if clock["n"] > 1:
            eng.assume(t >= z3.Const(f"loop_time_{clock['n'] - 1}", z3.RealSort()))
        eng.assume(t > 0)
        w.emit("time", t)
        return SV(t)
    loop = Rec(fields={"time": loop_time}, name="loop")
    q_calls = []

    def q_get(i, q):
        def th():
            q_calls.append("get")
            w.yield_point("notify_q.get", cancellable=False)
            to = armed.pop("timeout", None)
            if vclock is not None:
                vclock.waited(to, fired=timeout_fires and to is not None)
            if timeout_fires:
                raise exc("TimeoutError")
            return list(message)
        return Coro(th, "notify_q.get")
    it.method_tables[("Queue", "get")] = q_get

    def wait_for_(i, aw, timeout=None):
        w.emit("wait_for", timeout)
        armed["timeout"] = timeout
        return aw
    asyncio_stub_ = PyModule("asyncio", {"get_running_loop": lambda i: loop, "wait_for": wait_for_,
                                         "Queue": lambda i, n=0: SV(z3.Const("notify_q", QueueS)), "TimeoutError": __import__("pyvc.interp", fromlist=["EXC"]).EXC["TimeoutError"]})
    StateStub = Rec(fields={"notify_var_get": lambda i, names, nv: dict(nv), "set": lambda i, *a, **k: None}, name="State")
    mod = Module(it, DS_PY, stubs={"_LOGGER": logger_stub(), "TriggerDecorator": amod.env.vars["TriggerDecorator"],
                                   "TriggerHandlerDecorator": amod.env.vars["TriggerHandlerDecorator"],
                                   "ExpressionDecorator": bmod.env.vars["ExpressionDecorator"],
                                   "AutoKwargsDecorator": bmod.env.vars["AutoKwargsDecorator"],
                                   "DispatchData": amod.env.vars["DispatchData"], "State": StateStub,
                                   "asyncio": asyncio_stub_, "vol": PyModule("vol", {}), "logging": PyModule("logging", {"DEBUG": 10}),
                                   "DecoratorManagerStatus": Rec(fields=M),
                                   "ident_any_values_changed": tmod.env.vars["ident_any_values_changed"],
                                   "ident_values_changed": tmod.env.vars["ident_values_changed"]})
    cls = mod.env.vars["StateTriggerDecorator"]
    dm = c09.mk_dm_rec(M, hass)
    dispatched = []
    dm._fields["dispatch"] = lambda i, data: Coro(lambda: dispatched.append(data), "dm.dispatch")
    handled = []
    dm._fields["handle_exception"] = lambda i, e: Coro(lambda: handled.append(e), "dm.handle_exception")
    expr_state = {}

    def ev(i, vars_):
        def th():
            w.emit("expr", vars_)
            res = cfg.get("expr_result") or ["true", "false", "raises"][eng.choose(3, "expr")]
            expr_state["last"] = res
            if res == "raises":
                raise exc("UserException", "bad")
            return 1 if res == "true" else 0     # truth value, not necessarily a bool
        return Coro(th, "expr.eval")
    expr = Rec(fields={"eval": ev}, name="expr") if cfg.get("has_expr", True) else None
    f = {"args": ["expr"], "kwargs": cfg.get("kwargs", {}), "dm": dm, "name": "state_trigger", "_ast_expression": expr,
         "state_trig_ident": SymPySet(cfg.get("ident", []) + cfg.get("ident_any", [])), "state_trig_ident_any": SymPySet(cfg.get("ident_any", [])),
         "state_hold": cfg.get("state_hold"), "state_hold_false": cfg.get("state_hold_false"), "state_check_now": cfg.get("state_check_now"),
         "in_wait_until_function": False, "notify_q": SV(z3.Const("notify_q", QueueS)), "__test_handshake__": None}
    f["_StateTriggerDecorator__test_handshake__"] = None
    dec = Rec(cls=cls, fields=f, name="state_dec")
    fn = mod.func("StateTriggerDecorator._cycle")
    number_loops(fn.node)
    result = {}

    def at_loop(interp, node, env):
        if mode == "start":
            result["end"] = "loop-entry"   # the prologue (initial check) is the step
            raise PathEnd()
        for kk, vv in (fields or {}).items():
            dec._fields[kk] = vv
        result["before"] = dict(dec._fields)
        # forget what the prologue (initial check) did: the step starts at the top of the loop
        expr_state.clear(); dispatched.clear(); handled.clear(); q_calls.clear()
        try:
            interp.exec_block(node.body, env)
            result["end"] = "fallthrough"
        except _Continue:
            result["end"] = "continue"
        except _Break:
            result["end"] = "break"
        raise PathEnd()
    it.loop_specs[("StateTriggerDecorator._cycle", "while0")] = at_loop
    try:
        it.await_(it.call(it.getattr_(dec, "_cycle"), [], {}))
    except PathEnd:
        pass
    except Raised as r:
        result["end"] = "raised:" + r.exc.cls.name
    return it, w, dec, result, q_calls, dispatched, expr_state, handled


def h_new_step(n_ident, n_any):
    def h(eng):
        U = f"C04/StateTriggerDecorator._cycle#while0[ident={n_ident},any={n_any}]"
        eng.max_steps = 3_000_000
        shapes = [None, ("a",)]
        vs = shapes[eng.choose(len(shapes), "value")]
        os_ = shapes[eng.choose(len(shapes), "old")]
        value, old = mk_value(eng, "new", vs), mk_value(eng, "old", os_)
        var = entity(eng)
        ident = mk_names(eng, n_ident, "ident")
        anyn = mk_names(eng, n_any, "any")
        for n in ident + anyn:
            eng.assume(nparts(n.t) <= 4)
        for n in anyn:
            eng.assume(z3.And(nparts(n.t) >= 2, nparts(n.t) <= 3, z3.Implies(nparts(n.t) == 3, part(n.t, 2) != part_const("old"))))
        msg, func_args, new_vars = mk_state_message(eng, var, value, old)
        deckw = {"kwargs": {"extra": 1, "value": "overridden-by-decorator"}} if eng.choose(2, "decorator-kwargs") else {}
        cfg = {"ident": ident, "ident_any": anyn, "has_expr": True, "kwargs": deckw}
        none = None
        it, w, dec, res, q_calls, dispatched, es, handled = new_step(eng, cfg, msg, fields={"true_entered_at": None, "false_entered_at": None,
                                                                                           "last_func_args": {"trigger_type": "state"}, "last_new_vars": {}})
        eng.cover(f"end:{res.get('end')}")
        any_q = spec_any_change([n.t for n in anyn], var.t, value, old)
        watched = spec_watched_changed([n.t for n in ident], var.t, value, old)
        truthy = es.get("last") == "true"
        evaluated = "last" in es
        eng.oblige(f"{U}/post.exactly-one-queue-read-per-iteration", q_calls == ["get"])
        eng.oblige(f"{U}/post.no-exception-escapes-the-step", not str(res.get("end")).startswith("raised"))
        if len(dispatched) == 1:
            eng.oblige(f"{U}/post.runs-only-for-qualifying-changes", z3.Or(any_q, z3.And(watched, truthy)))
            d = dispatched[0]
            want = dict(func_args)
            want.update(deckw.get("kwargs", {}))
            eng.oblige(f"{U}/post.dispatch-carries-the-events-kwargs-overridden-by-the-decorators",
                       d._fields["func_args"] == want and d._fields["trigger_context"] == {"new_vars": new_vars})
        elif len(dispatched) == 0:
            qual = z3.Or(any_q, z3.And(watched, truthy)) if evaluated else z3.Or(any_q, watched)
            eng.oblige(f"{U}/post.runs-for-every-qualifying-change", z3.Not(qual))
        else:
            eng.oblige(f"{U}/post.never-runs-twice-for-one-change", False)
        for e in w.events("expr"):
            eng.oblige(f"{U}/post.expression-sees-the-events-values", e[1] == new_vars)
        if evaluated:
            eng.oblige(f"{U}/post.expression-evaluated-only-for-watched-changes", z3.And(z3.Not(any_q), watched))
            eng.oblige(f"{U}/post.expression-error-reported-once", (len(handled) == 1) == (es["last"] == "raises"))
    return h


_h2 = harnesses


def with_chain_witness(h):
    """refuted step obligations get a witness so that the whole-chain native differential is searched for a failing input"""
    def run(eng):
        try:
            h(eng)
        finally:
            for ob in eng.obligations:
                if ob.status == "refuted" and not getattr(ob, "witness", None):
                    ob.witness = {"signature": "chain", "what": "chain"}
    return run


def replay_chain(wj):
    from replay.native import run_native
    import os
    f, out = [], {}
    saved = os.environ.get("PYTHONHASHSEED")
    try:
        for hs in ("0", "1", "2", "3", "4", "5"):     # set iteration order of the watched names depends on the string hash seed
            os.environ["PYTHONHASHSEED"] = hs
            out = run_native("c04_triggers_bounded", {"depth": 2}, timeout=600)
            f = (out.get("failures") or [])[:1]
            if f or out.get("error"):
                break
    finally:
        if saved is None:
            os.environ.pop("PYTHONHASHSEED", None)
        else:
            os.environ["PYTHONHASHSEED"] = saved
    return {"reproduced": bool(f), "observed": f[0] if f else {"searched": out.get("bound"), "cases": out.get("cases"), "error": out.get("error")},
            "expected": "the function runs exactly for the qualifying changes with that change's arguments", "found_by": "search of the whole-chain differential"}


def bounded_chain(depth):
    def run(seed):
        from replay.native import run_native
        return run_native("c04_triggers_bounded", {"depth": depth}, timeout=1500)
    return run


def bounded_classification(seed):
    from replay.native import run_native
    return run_native("c04_classification_bounded", {}, timeout=600)


def harnesses():  # noqa: F811
    hs = _h2()
    hs.append(Harness("bounded.chain[depth<=2]", bounded_chain(2), units=[(T_PY, "TrigInfo.trigger_watch"), (DS_PY, "StateTriggerDecorator._cycle"), (ST_PY, "State.update")], kind="bounded"))
    hs.append(Harness("bounded.chain[depth<=3]", bounded_chain(3), units=[(T_PY, "TrigInfo.trigger_watch"), (DS_PY, "StateTriggerDecorator._cycle"), (ST_PY, "State.update")], kind="bounded", tier="thorough"))
    hs.append(Harness("StateTriggerDecorator.validate", h_validate_watch, units=[(DS_PY, "StateTriggerDecorator.validate")], replay=replay_watch))
    hs.append(Harness("bounded.classification", bounded_classification, units=[(T_PY, "TrigInfo.__init__"), (DS_PY, "StateTriggerDecorator.validate")], kind="bounded"))
    for ni, na in ((1, 0), (0, 1), (1, 1)):
        hs.append(Harness(f"new.step[ident={ni},any={na}]", with_chain_witness(h_new_step(ni, na)), units=[(DS_PY, "StateTriggerDecorator._cycle"),
                  (DS_PY, "StateTriggerDecorator._check_new_state"), (DS_PY, "StateTriggerDecorator._is_trig_ok")], replay=replay_chain, max_paths=30000))
    return hs

"""C10 - reload loads exactly what the files and configuration now dictate.

  GlobalContext.module_import   (proof, shared with C11) an already loaded context is returned and never re-created; the import
                                edge is recorded on both paths - the edges are what the reload's importer closure follows.
  start_global_contexts         (proof) started iff the context is a file/apps/modules/scripts context and equals or is below the
                                requested name (or no name / '*').
  load_scripts                  (proof, loop contracts over symbolic maps of arbitrary size) the changed-set block: a context is
                                discarded iff it is loaded and its file is gone or its source / mtime / app configuration differ; a
                                file is forced iff it changed, or is new and auto-loaded; '*' and a named reload as documented; only
                                force flags are written.  The delete loop removes exactly the discarded loaded contexts (stopped once);
                                the load loop loads exactly the auto-loaded forced files with the file's source / mtime / config.
                                The slices are cut mechanically out of load_scripts' body (from `ctx_delete = ...` to
                                `will_reload = ...`, and the two loops by their iterables) on every run.
                                NOT proved: the importer closure (import_recurse) and the package widening in between - their
                                invariants need an existential over the visited set; they are covered by the BOUNDED native
                                differential on real directory trees (random edit / reload histories against the statement's rules
                                computed independently), which also exercises glob_read_files' naming, '#'-skipping and app gating.
"""
from __future__ import annotations

import z3

from pyvc.framework import Harness
from pyvc.interp import Raised, Coro, exc, SymPySet, PathEnd
from pyvc.loader import Module
from pyvc.stmts import Interpreter, PyModule
from pyvc.values import Rec, SV
from .common import A_LOG, PKG, logger_stub, run_catching, World
from . import C11 as c11

PROPERTY = "C10"
LEVEL_CATEGORY = "exploration"   # the middle of the reload decision is covered by a bounded differential only
EXPLORATION_RULE = ("each evaluation is one reload (None / a context name / '*') after 0-2 random edits (modify, touch, create, delete, '#'-rename, "
                    "un-rename, app-config change) of an 11-file tree, run by the real load_scripts on a real directory; a case is non-trivial when "
                    "the statement's rules require at least one context to be discarded or loaded, and distinct by (reload argument, set of contexts "
                    "to discard, list of files to load); the count is measured per run")
I_PY = f"{PKG}/__init__.py"
GC_PY = f"{PKG}/global_ctx.py"

ASSUMPTIONS = [
    A_LOG,
    "glob, file reads and os.path.getmtime report the directory tree (operating system; assumed)",
    "running a script (GlobalContextMgr.load_file) is C01-C03 / C18 territory; here a load succeeds unless an import is missing",
    "contexts are visited once per dictionary iteration",
]
NOT_DECIDED = ["importer closure (import_recurse) and package widening for ALL trees: only the bounded differential explores them",
               "a module that is no longer imported by anyone but whose file is unchanged stays loaded: the statement's first sentence "
               "('exactly ... plus the modules they import') and its second ('leaves all other contexts untouched') disagree on it; "
               "the reference follows the second",
               "a reload while scripts are still starting (ordering with start_global_contexts of a previous reload)"]
SHAPE_BOUNDS = {"tree": "11 files: 2 top-level, 2 scripts (one nested), app module + app package with helper, module, module package with "
                        "sub-module, second module; import chain of depth 3"}
LEVEL_TEXT = ("Mixed, claimed at the exploration level because the middle of the reload decision is not proved: module_import, "
              "start_global_contexts, the changed-set block (loop invariants, maps of any size), the delete loop and the load loop are "
              "proofs; the importer closure, package widening, file discovery and the composition over whole histories are a BOUNDED "
              "differential on real trees (modify, touch, create, delete, '#'-rename, app-config change; reload None / name / '*').")


def h_start_global_contexts(eng):
    U = "C10/start_global_contexts"
    it = Interpreter(eng)
    w = World(eng)
    kinds = ["file", "apps", "modules", "scripts", "jupyter_0", "nodot"]
    kind = kinds[eng.choose(len(kinds), "context-kind")]
    rel = ["same", "below", "sibling-prefix", "other"][eng.choose(4, "relation-to-requested")]
    only_kind = [None, "*", "name"][eng.choose(3, "requested")]
    base = {"file": "file.a", "apps": "apps.app1", "modules": "modules.m", "scripts": "scripts.s", "jupyter_0": "jupyter_0.x", "nodot": "nodot"}[kind]
    name = {"same": base, "below": base + ".sub", "sibling-prefix": base + "x", "other": "file.zzz"}[rel]
    only = None if only_kind is None else ("*" if only_kind == "*" else base)
    started, auto = [], []
    ctx = Rec(fields={"set_auto_start": lambda i, b: auto.append(b), "start": lambda i: started.append(1)}, name="ctx")
    other = Rec(fields={"set_auto_start": lambda i, b: None, "start": lambda i: None}, name="other")
    mgr = Rec(fields={"items": lambda i: [(name, ctx), ("file.unrelated_q", other)]}, name="GlobalContextMgr")
    mod = load_init_module(it, {"GlobalContextMgr": mgr})
    k, v = run_catching(it, lambda: it.call(mod.env.vars["start_global_contexts"], [], {"global_ctx_only": only}))
    eng.cover(f"exit:{k}")
    eng.oblige(f"{U}/post.no-exception", k == "ok")
    is_script_ctx = "." in name and name.split(".")[0] in ("file", "apps", "modules", "scripts")
    selected = only in (None, "*") or name == only or name.startswith(only + ".")
    want = is_script_ctx and selected
    ob = eng.oblige(f"{U}/post.started-iff-a-script-context-at-or-below-the-requested-name", (started == [1] and auto == [True]) if want else (started == [] and auto == []))
    if ob.status == "refuted":
        ob.witness = {"signature": "start-predicate", "name": name, "requested": only}


def load_init_module(it, extra):
    stubs = {"_LOGGER": logger_stub(), "vol": PyModule("vol", {"Schema": lambda i, *a, **k: None, "Optional": lambda i, *a, **k: a[0], "All": lambda i, *a, **k: None,
                                                              "ALLOW_EXTRA": 1, "Any": lambda i, *a, **k: None, "Coerce": lambda i, *a, **k: None}),
             "cv": PyModule("cv", {"boolean": None, "string": None, "ensure_list": None}), "DOMAIN": "pyscript"}
    stubs.update(extra)
    return Module(it, I_PY, stubs=stubs)


# ----------------------------------------------------------------------------------------------------------
# load_scripts: the changed-set block (first part of the decision), the delete loop and the load loop, on symbolic maps
# ----------------------------------------------------------------------------------------------------------
import ast as _ast
from pyvc.interp import Env
from pyvc.loader import find_def, parse_file, number_loops
from pyvc.stmts import LoopSpec
from pyvc.values import Store, TMap, TSet, TScalar, TStruct, USort, NameS, DName, name_axioms_for
from .common import Forall, ObjS

CtxS = USort("GlobalCtx")
RealS = z3.RealSort()
FILE_T = TMap(NameS, TStruct({"source": TScalar(ObjS), "app_config": TScalar(ObjS), "mtime": TScalar(RealS), "autoload": TScalar(z3.BoolSort()),
                              "force": TScalar(z3.BoolSort()), "check_config": TScalar(z3.BoolSort())}))


def block_of(fn_node, first_target, end_target):
    """the statements of load_scripts from `first_target = ...` up to (excluding) `end_target = ...` (mechanical slice)"""
    body = fn_node.body

    def idx(name):
        for i, st in enumerate(body):
            if isinstance(st, _ast.Assign) and len(st.targets) == 1 and isinstance(st.targets[0], _ast.Name) and st.targets[0].id == name:
                return i
        raise AssertionError(f"load_scripts no longer assigns {name} at top level")
    return body[idx(first_target):idx(end_target)]


def h_changed_set(eng):
    U = "C10/load_scripts#changed-set"
    eng.max_steps = 2_000_000
    it = Interpreter(eng)
    it.obj_may_be_none = True
    w = World(eng)
    mode = ["default", "star", "named"][eng.choose(3, "reload-argument")]
    tree, _ = parse_file(I_PY)
    fn = find_def(tree, "load_scripts")
    number_loops(fn)
    stmts = block_of(fn, "ctx_delete", "will_reload")
    ctx_all = Store(eng, "ctx_all", TMap(NameS, TScalar(CtxS)))
    files = Store(eng, "ctx2files", FILE_T)
    A0, F0 = ctx_all.snapshot(), files.snapshot()
    # every file entry has all its fields; nothing is forced yet (SourceFile.__init__ sets force = False)
    eng.assume(Forall([NameS], lambda n: z3.Implies(z3.Select(F0["dom"], n), z3.And(
        *[z3.Select(F0[f".{f}?"], n) for f in ("source", "app_config", "mtime", "autoload", "force", "check_config")], z3.Not(z3.Select(F0[".force:v"], n)))), "files-wf"))
    src_of, cfg_of, mt_of = z3.Function("ctx_source", CtxS, ObjS), z3.Function("ctx_app_config", CtxS, ObjS), z3.Function("ctx_mtime", CtxS, RealS)
    it.method_tables[("GlobalCtx", "get_source")] = lambda i, c: SV(src_of(c.t))
    it.method_tables[("GlobalCtx", "get_app_config")] = lambda i, c: SV(cfg_of(c.t))
    it.method_tables[("GlobalCtx", "get_mtime")] = lambda i, c: SV(mt_of(c.t))
    delete = Store(eng, "ctx_delete", TSet(NameS))
    errors = []

    def set_(i, arg=None):
        delete.cols["in"] = z3.K(NameS, z3.BoolVal(False)) if arg is None else ctx_all.cols["dom"]
        return delete.view()
    only_t = z3.Const("global_ctx_only", NameS)
    for ax in name_axioms_for(only_t):
        eng.assume(ax)
    from pyvc.values import nparts
    eng.assume(nparts(only_t) >= 2)   # a context name has a kind prefix (file. / apps. / modules. / scripts.); '*' is the other branch
    only = None if mode == "default" else ("*" if mode == "star" else DName(only_t))
    env = Env(vars={"ctx_all": ctx_all.view(), "ctx2files": files.view(), "global_ctx_only": only, "set": set_,
                    "_LOGGER": Rec(fields={"error": lambda i, *a: errors.append(a), "debug": lambda i, *a: None, "info": lambda i, *a: None}, name="_LOGGER")})

    def changed(n):
        c = z3.Select(A0[".v"], n)
        return z3.Or(z3.Select(F0[".source:v"], n) != src_of(c), z3.Select(F0[".app_config:v"], n) != cfg_of(c), z3.Select(F0[".mtime:v"], n) != mt_of(c))

    def in_all(n):
        return z3.Select(A0["dom"], n)

    def in_files(n):
        return z3.Select(F0["dom"], n)

    def D(n):
        return z3.Select(delete.cols["in"], n)

    def force(n):
        return z3.Select(files.cols[".force:v"], n)

    def frame_files():
        # nothing but the force flag of existing entries is written
        return Forall([NameS], lambda n: z3.And(z3.Select(files.cols["dom"], n) == in_files(n),
                                                *[z3.Select(files.cols[f".{f}:v"], n) == z3.Select(F0[f".{f}:v"], n) for f in ("source", "app_config", "mtime", "autoload", "check_config")]), "frame")
    # loop contracts (default reload): first the contexts without a file, then the changed / new files
    def inv_gone(interp, env_, visited, members):
        return [Forall([NameS], lambda n: D(n) == z3.And(z3.Select(visited, n), in_all(n), z3.Not(in_files(n))), "gone"),
                Forall([NameS], lambda n: z3.Implies(in_files(n), z3.Not(force(n))), "noforce"), frame_files()]

    def inv_changed(interp, env_, visited, members):
        return [Forall([NameS], lambda n: D(n) == z3.Or(z3.And(in_all(n), z3.Not(in_files(n))), z3.And(z3.Select(visited, n), in_all(n), in_files(n), changed(n))), "del"),
                Forall([NameS], lambda n: z3.Implies(in_files(n), force(n) == z3.And(z3.Select(visited, n), z3.If(in_all(n), changed(n), z3.Select(F0[".autoload:v"], n)))), "force"),
                frame_files()]
    fors = [n for n in _ast.walk(_ast.Module(body=stmts, type_ignores=[])) if isinstance(n, _ast.For)]
    fors.sort(key=lambda n: n.lineno)
    by_iter = {_ast.unparse(n.iter): n for n in fors}
    it.func_stack.append("load_scripts")
    if "ctx_all.items()" in by_iter:
        it.loop_specs[("load_scripts", by_iter["ctx_all.items()"]._ordinal)] = LoopSpec(inv_gone, [delete, files], name="gone")
    # the second loop over ctx2files.items() in the slice is the changed-files loop (the first one is the '*' branch)
    f_loops = [n for n in fors if _ast.unparse(n.iter) == "ctx2files.items()"]
    star_loop, changed_loop = (f_loops + [None, None])[:2]
    if changed_loop is not None:
        it.loop_specs[("load_scripts", changed_loop._ordinal)] = LoopSpec(inv_changed, [delete, files], name="changed")
    if star_loop is not None:
        it.loop_specs[("load_scripts", star_loop._ordinal)] = LoopSpec(
            lambda interp, env_, visited, members: [Forall([NameS], lambda n: z3.Implies(in_files(n), force(n) == z3.Select(visited, n)), "all-forced"), frame_files(),
                                                    Forall([NameS], lambda n: D(n) == in_all(n), "all-deleted")], [files], name="star")
    from pyvc.interp import _Return
    try:
        it.exec_block(stmts, env)
        end = "fallthrough"
    except _Return:
        end = "return"
    except Raised as r:
        end = "raised:" + r.exc.cls.name
    eng.cover(f"end:{end}:{mode}")
    eng.oblige(f"{U}/post.no-exception", not end.startswith("raised"))

    def W(ob, what):
        if ob.status == "refuted":
            ob.witness = {"signature": f"changed-set:{mode}:{what}", "what": what, "mode": mode}
        return ob
    W(eng.oblige(f"{U}/frame.only-force-flags-are-written", frame_files()), "frame")
    if mode == "default":
        W(eng.oblige(f"{U}/post.discarded-iff-gone-or-changed", Forall([NameS], lambda n: D(n) == z3.And(in_all(n), z3.Or(z3.Not(in_files(n)), changed(n))), "post")), "discard")
        W(eng.oblige(f"{U}/post.forced-iff-changed-or-new-and-autoloaded", Forall([NameS], lambda n: z3.Implies(
            in_files(n), force(n) == z3.If(in_all(n), changed(n), z3.Select(F0[".autoload:v"], n))), "post")), "force")
    elif mode == "star":
        W(eng.oblige(f"{U}/post.star-discards-every-context", Forall([NameS], lambda n: D(n) == in_all(n), "p1")), "star")
        W(eng.oblige(f"{U}/post.star-forces-every-file", Forall([NameS], lambda n: z3.Implies(in_files(n), force(n)), "p2")), "star")
    else:
        known = z3.Or(in_all(only_t), in_files(only_t))
        if end == "return":
            W(eng.oblige(f"{U}/post.unknown-name-is-reported-and-changes-nothing", z3.And(z3.Not(known), len(errors) == 1)), "unknown-name")
        else:
            W(eng.oblige(f"{U}/post.named-reload-requires-a-known-name", known), "named")
            W(eng.oblige(f"{U}/post.named-reload-discards-exactly-a-context-without-file", Forall([NameS], lambda n: D(n) == z3.And(n == only_t, z3.Not(in_files(only_t))), "p1")), "named")
            W(eng.oblige(f"{U}/post.named-reload-forces-exactly-that-file", Forall([NameS], lambda n: z3.Implies(in_files(n), force(n) == (n == only_t)), "p2")), "named")


def h_delete_and_load(eng):
    """the delete loop and the load loop: exactly ctx_delete-and-loaded contexts are stopped and removed (once); exactly the
    auto-loaded forced files are loaded, flagged 'reload' iff they were discarded"""
    U = "C10/load_scripts#delete-and-load"
    eng.max_steps = 2_000_000
    it = Interpreter(eng)
    it.obj_may_be_none = True
    w = World(eng)
    tree, _ = parse_file(I_PY)
    fn = find_def(tree, "load_scripts")
    number_loops(fn)
    body = fn.body
    loops = [st for st in body if isinstance(st, (_ast.For, _ast.AsyncFor))]
    del_loop = next(st for st in loops if _ast.unparse(st.iter) == "ctx_delete")
    load_loop = next(st for st in loops if _ast.unparse(st.iter) == "sorted(ctx2files.items())")
    which = ["delete", "load"][eng.choose(2, "loop")]
    name_t = z3.Const("name", NameS)
    for ax in name_axioms_for(name_t):
        eng.assume(ax)
    name = DName(name_t)
    in_all = bool(eng.choose(2, "context-is-loaded"))
    in_files = bool(eng.choose(2, "file-exists"))
    autoload, force, in_delete = (bool(eng.choose(2, k)) for k in ("autoload", "force", "discarded"))
    ctx = Rec(name="old_ctx")
    stops, deleted, loads, made = [], [], [], []
    ctx._fields.update({"stop": lambda i: stops.append(1), "get_file_path": lambda i: "path"})
    src = Rec(fields={"autoload": autoload, "force": force, "global_ctx_name": name, "fq_mod_name": "m", "rel_import_path": None, "app_config": None,
                      "source": "src", "mtime": 1.0, "file_path": "/p"}, name="src_info")
    ctx_all = {name: ctx} if in_all else {}
    ctx2files = {name: src} if in_files else {}
    mgr = Rec(fields={"delete": lambda i, n: deleted.append(n), "load_file": lambda i, g, p, source=None, reload=False: Coro(lambda: loads.append((g, p, source, reload)), "load_file")}, name="GlobalContextMgr")

    def GlobalContext(i, n, **kw):
        g = Rec(fields=dict(kw, name=n), name="new_ctx")
        made.append(g)
        return g
    env = Env(vars={"ctx_all": ctx_all, "ctx2files": ctx2files, "ctx_delete": SymPySet([name]) if in_delete else SymPySet([]), "GlobalContextMgr": mgr,
                    "GlobalContext": GlobalContext, "sorted": lambda i, x: [list(t) for t in i.iterate(x)],
                    "_LOGGER": Rec(fields={"error": lambda i, *a: None, "debug": lambda i, *a: None, "info": lambda i, *a: None}, name="_LOGGER")})
    it.func_stack.append("load_scripts")
    k, v = run_catching(it, lambda: it.exec_block([del_loop if which == "delete" else load_loop], env))
    eng.cover(f"exit:{k}:{which}")
    eng.oblige(f"{U}/post.no-exception", k == "ok")
    if which == "delete":
        want = in_delete and in_all
        ob = eng.oblige(f"{U}/delete.stopped-and-removed-once-iff-discarded-and-loaded", (stops == [1] and len(deleted) == 1) if want else (stops == [] and deleted == []))
        if ob.status == "refuted":
            ob.witness = {"signature": "delete-loop"}
    else:
        want = in_files and autoload and force
        ob = eng.oblige(f"{U}/load.loaded-once-iff-autoloaded-and-forced", (len(loads) == 1 and len(made) == 1) if want else (loads == [] and made == []))
        if ob.status == "refuted":
            ob.witness = {"signature": "load-loop"}
        if want and len(loads) == 1:
            g, p, source, reload = loads[0]
            eng.oblige(f"{U}/load.new-context-carries-the-files-source-mtime-and-config", g is made[0] and g._fields.get("source") == "src" and g._fields.get("mtime") == 1.0
                       and g._fields.get("app_config") is None and source == "src" and p == "/p")
            eng.oblige(f"{U}/load.reload-flag-iff-the-context-was-discarded", reload is in_delete or reload == in_delete)


def bounded_reload(k, n):
    def run(seed):
        from replay.native import run_native
        return run_native("c10_reload_bounded", {"seed": 100 * k + seed, "histories": n}, timeout=1500)
    return run


def harnesses():
    hs = []
    for c in c11.IMPORT_CASES:
        hs.append(Harness(f"module_import[{c[0]},level={c[1]},rel={c[2]}]", c11.h_module_import(c), units=[(GC_PY, "GlobalContext.module_import")]))
    hs.append(Harness("start_global_contexts", h_start_global_contexts, units=[(I_PY, "start_global_contexts")]))
    hs.append(Harness("load_scripts.changed-set", h_changed_set, units=[(I_PY, "load_scripts")], max_paths=20000))
    hs.append(Harness("load_scripts.delete-and-load", h_delete_and_load, units=[(I_PY, "load_scripts")]))
    units_b = [(I_PY, "load_scripts"), (GC_PY, "GlobalContext.module_import"), (GC_PY, "GlobalContextMgr.load_file")]
    hs.append(Harness("bounded.reload", bounded_reload(0, 200), units=units_b, kind="bounded"))
    for k in range(1, 9):
        hs.append(Harness(f"bounded.reload[thorough {k}/8]", bounded_reload(k, 600), units=units_b, kind="bounded", tier="thorough"))
    return hs

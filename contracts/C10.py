"""C10 - reload loads exactly what the files and configuration now dictate.

  GlobalContext.module_import   (proof, shared with C11) an already loaded context is returned and never re-created; the import
                                edge is recorded on both paths - the edges are what the reload's importer closure follows.
  start_global_contexts         (proof) started iff the context is a file/apps/modules/scripts context and equals or is below the
                                requested name (or no name / '*').
  load_scripts                  (proof, loop contracts over symbolic maps of arbitrary size, slices cut mechanically out of the body of
                                load_scripts on every run, each from an ARBITRARY state so that the blocks compose)
                                  changed-set     discarded iff loaded and (file gone or source / mtime / app config differ); forced iff
                                                  changed, or new and auto-loaded; '*' and a named reload as documented
                                  will_reload     r in will_reload iff some discarded-or-forced file under modules. has root r
                                                  (existential by a ghost witness function maintained by the loop contract)
                                  importers       a loaded context is additionally discarded (and its file forced) iff a module in
                                                  closure(context) has its root in will_reload, where closure is the ASSUMED result of
                                                  import_recurse (the transitive closure of the recorded import edges); nested loop
                                                  contracts with a witness per context
                                  package widening  a package (apps.X / modules.X) with a forced file is discarded whole and only its top
                                                  file stays forced; everything else keeps its decision (nested loop contracts)
                                  delete / load   exactly the discarded loaded contexts are stopped and removed once; exactly the
                                                  auto-loaded forced files are loaded, with the file's source / mtime / config
                                NOT proved: import_recurse itself (memoised DFS; the closure is not first-order), file discovery
                                (glob_read_files: naming, '#'-skipping, app gating) and whole edit/reload histories - covered by the
                                BOUNDED native differential on real directory trees.
"""
from __future__ import annotations

import z3

from pyvc.framework import Harness
from pyvc.interp import Raised, Coro, exc, SymPySet, PathEnd, EXC
from pyvc.loader import Module
from pyvc.stmts import Interpreter, PyModule
from pyvc.values import Rec, SV
from .common import A_LOG, PKG, logger_stub, run_catching, World
from . import C11 as c11

PROPERTY = "C10"
LEVEL_CATEGORY = "proof"   # the decision block is proved piecewise; discovery, import_recurse and whole histories are bounded stand-ins
EXPLORATION_RULE = ("each evaluation is one reload (None / a context name / '*') after 0-2 random edits (modify, touch, create, delete, '#'-rename, "
                    "un-rename, app-config change) of an 11-file tree, run by the real load_scripts on a real directory; a case is non-trivial when "
                    "the statement's rules require at least one context to be discarded or loaded, and distinct by (reload argument, set of contexts "
                    "to discard, list of files to load); the count is measured per run")
I_PY = f"{PKG}/__init__.py"
GC_PY = f"{PKG}/global_ctx.py"

ASSUMPTIONS = [
    A_LOG,
    "glob, file reads and os.path.getmtime report the directory tree (operating system; assumed)",
    "running a script (GlobalContextMgr.load_file) is C01-C03 / C18 territory; here a load succeeds unless an import is missing",
    "contexts are visited once per dictionary iteration",
]
NOT_DECIDED = ["import_recurse (the transitive closure itself) and glob_read_files (discovery, naming, '#', app gating): bounded differential only",
               "a module that is no longer imported by anyone but whose file is unchanged stays loaded: the statement's first sentence "
               "('exactly ... plus the modules they import') and its second ('leaves all other contexts untouched') disagree on it; "
               "the reference follows the second",
               "a reload while scripts are still starting (ordering with start_global_contexts of a previous reload)"]
SHAPE_BOUNDS = {"tree": "11 files: 2 top-level, 2 scripts (one nested), app module + app package with helper, module, module package with "
                        "sub-module, second module; import chain of depth 3"}
LEVEL_TEXT = ("Proof of the reload decision block by block (changed set, module roots to reload, importer closure relative to the assumed "
              "result of import_recurse, package widening, delete loop, load loop: loop contracts over maps of any size), of module_import "
              "and of start_global_contexts.  File discovery, import_recurse and the composition over whole edit/reload histories are a "
              "BOUNDED differential on real trees (stated bound), never counted as proved.")


def h_start_global_contexts(eng):
    U = "C10/start_global_contexts"
    it = Interpreter(eng)
    w = World(eng)
    kinds = ["file", "apps", "modules", "scripts", "jupyter_0", "nodot"]
    kind = kinds[eng.choose(len(kinds), "context-kind")]
    rel = ["same", "below", "sibling-prefix", "other"][eng.choose(4, "relation-to-requested")]
    only_kind = [None, "*", "name"][eng.choose(3, "requested")]
    base = {"file": "file.a", "apps": "apps.app1", "modules": "modules.m", "scripts": "scripts.s", "jupyter_0": "jupyter_0.x", "nodot": "nodot"}[kind]
    name = {"same": base, "below": base + ".sub", "sibling-prefix": base + "x", "other": "file.zzz"}[rel]
    only = None if only_kind is None else ("*" if only_kind == "*" else base)
    started, auto = [], []
    ctx = Rec(fields={"set_auto_start": lambda i, b: auto.append(b), "start": lambda i: started.append(1)}, name="ctx")
    other = Rec(fields={"set_auto_start": lambda i, b: None, "start": lambda i: None}, name="other")
    mgr = Rec(fields={"items": lambda i: [(name, ctx), ("file.unrelated_q", other)]}, name="GlobalContextMgr")
    mod = load_init_module(it, {"GlobalContextMgr": mgr})
    k, v = run_catching(it, lambda: it.call(mod.env.vars["start_global_contexts"], [], {"global_ctx_only": only}))
    eng.cover(f"exit:{k}")
    eng.oblige(f"{U}/post.no-exception", k == "ok")
    is_script_ctx = "." in name and name.split(".")[0] in ("file", "apps", "modules", "scripts")
    selected = only in (None, "*") or name == only or name.startswith(only + ".")
    want = is_script_ctx and selected
    ob = eng.oblige(f"{U}/post.started-iff-a-script-context-at-or-below-the-requested-name", (started == [1] and auto == [True]) if want else (started == [] and auto == []))
    if ob.status == "refuted":
        ob.witness = {"signature": "start-predicate", "name": name, "requested": only}


def h_update_yaml_config(eng):
    """update_yaml_config: decides whether a reload must be widened to every context because a global option changed.
    Contract: (1) returns True exactly when a snapshot of the three global options exists and differs from the entry's current
    values; (2) on EVERY return the snapshot equals the entry's current values - otherwise every later reload with nothing
    changed is widened to '*' again and all contexts are re-created (variables reset, triggers restarted)."""
    U = "C10/update_yaml_config"
    it = Interpreter(eng)
    w = World(eng)
    params = ["hass_is_global", "allow_all_imports", "legacy_decorators"]
    cur = {p: z3.Bool(f"entry_{p}") for p in params}
    old = {p: z3.Bool(f"saved_{p}") for p in params}
    has_old = bool(eng.choose(2, "snapshot-exists"))
    yaml_differs = True   # whether the YAML differs from the entry only decides the import flow (a Home Assistant call)
    domain_present = True if has_old else bool(eng.choose(2, "domain-in-hass.data"))
    entry_data = Rec(fields={"get": lambda i, k, d=None: SV(cur[k]) if k in cur else d,
                             "__ne__": lambda i, o: yaml_differs, "__eq__": lambda i, o: not yaml_differs}, name="config_entry.data")
    entry = Rec(fields={"data": entry_data}, name="config_entry")
    flows = []
    store = {}
    if domain_present:
        store["pyscript"] = {"config_entry_old": {p: SV(old[p]) for p in params}} if has_old else {}
    hass = Rec(fields={"data": store, "config_entries": Rec(fields={"flow": Rec(fields={
        "async_init": lambda i, dom, context=None, data=None: Coro(lambda: flows.append((dom, context, data)), "flow.async_init")})})}, name="hass")
    conf = {"pyscript": {"marker": "yaml"}}
    config = Rec(fields={"__ne__": lambda i, o: yaml_differs, "__eq__": lambda i, o: not yaml_differs}, name="validated-yaml-config")
    mod = load_init_module(it, {"async_hass_config_yaml": lambda i, h: Coro(lambda: conf, "async_hass_config_yaml"),
                                "PYSCRIPT_SCHEMA": lambda i, c: config, "CONFIG_ENTRY_OLD": "config_entry_old", "SOURCE_IMPORT": "import",
                                "CONF_HASS_IS_GLOBAL": "hass_is_global", "CONF_ALLOW_ALL_IMPORTS": "allow_all_imports",
                                "CONF_LEGACY_DECORATORS": "legacy_decorators", "HomeAssistantError": EXC["Exception"]})
    k, v = run_catching(it, lambda: it.await_(it.call(mod.env.vars["update_yaml_config"], [hass, entry], {})))
    eng.cover(f"exit:{k}:{has_old}")
    eng.oblige(f"{U}/post.no-exception", k == "ok")
    if k != "ok":
        return
    changed = z3.Or(*[old[p] != cur[p] for p in params])
    vt = v.t if isinstance(v, SV) else z3.BoolVal(bool(v))
    ob = eng.oblige(f"{U}/post.widens-the-reload-iff-a-saved-global-option-differs", vt == (changed if has_old else z3.BoolVal(False)))
    if ob.status == "refuted":
        ob.witness = {"signature": "update_yaml_config:verdict", "what": "yaml-options"}
    saved = store.get("pyscript", {}).get("config_entry_old")
    ok_shape = isinstance(saved, dict) and sorted(saved) == sorted(params)
    cond = z3.And(*[(saved[p].t if isinstance(saved[p], SV) else z3.BoolVal(bool(saved[p]))) == cur[p] for p in params]) if ok_shape else False
    ob = eng.oblige(f"{U}/post.the-saved-options-are-the-current-ones-on-every-return", cond)
    if ob.status == "refuted":
        ob.witness = {"signature": "update_yaml_config:stale-snapshot", "what": "yaml-options"}
    eng.oblige(f"{U}/post.yaml-is-imported-at-most-once", len(flows) <= 1)


def replay_yaml_options(wj):
    from replay.native import run_native
    return run_native("c10_yaml_options", wj, timeout=120)


def load_init_module(it, extra):
    stubs = {"_LOGGER": logger_stub(), "vol": PyModule("vol", {"Schema": lambda i, *a, **k: None, "Optional": lambda i, *a, **k: a[0], "All": lambda i, *a, **k: None,
                                                              "ALLOW_EXTRA": 1, "Any": lambda i, *a, **k: None, "Coerce": lambda i, *a, **k: None}),
             "cv": PyModule("cv", {"boolean": None, "string": None, "ensure_list": None}), "DOMAIN": "pyscript"}
    stubs.update(extra)
    return Module(it, I_PY, stubs=stubs)


# ----------------------------------------------------------------------------------------------------------
# load_scripts: the changed-set block (first part of the decision), the delete loop and the load loop, on symbolic maps
# ----------------------------------------------------------------------------------------------------------
import ast as _ast
from pyvc.interp import Env
from pyvc.loader import find_def, parse_file, number_loops
from pyvc.stmts import LoopSpec
from pyvc.values import Store, TMap, TSet, TScalar, TStruct, USort, NameS, DName, name_axioms_for
from .common import Forall, ObjS

CtxS = USort("GlobalCtx")
RealS = z3.RealSort()
FILE_T = TMap(NameS, TStruct({"source": TScalar(ObjS), "app_config": TScalar(ObjS), "mtime": TScalar(RealS), "autoload": TScalar(z3.BoolSort()),
                              "force": TScalar(z3.BoolSort()), "check_config": TScalar(z3.BoolSort())}))


def block_of(fn_node, first_target, end_target):
    """the statements of load_scripts from `first_target = ...` up to (excluding) `end_target = ...` (mechanical slice)"""
    body = fn_node.body

    def idx(name):
        for i, st in enumerate(body):
            if isinstance(st, _ast.Assign) and len(st.targets) == 1 and isinstance(st.targets[0], _ast.Name) and st.targets[0].id == name:
                return i
        raise AssertionError(f"load_scripts no longer assigns {name} at top level")
    return body[idx(first_target):idx(end_target)]


def h_changed_set(eng):
    U = "C10/load_scripts#changed-set"
    eng.max_steps = 2_000_000
    it = Interpreter(eng)
    it.obj_may_be_none = True
    w = World(eng)
    mode = ["default", "star", "named"][eng.choose(3, "reload-argument")]
    tree, _ = parse_file(I_PY)
    fn = find_def(tree, "load_scripts")
    number_loops(fn)
    stmts = block_of(fn, "ctx_delete", "will_reload")
    ctx_all = Store(eng, "ctx_all", TMap(NameS, TScalar(CtxS)))
    files = Store(eng, "ctx2files", FILE_T)
    A0, F0 = ctx_all.snapshot(), files.snapshot()
    # every file entry has all its fields; nothing is forced yet (SourceFile.__init__ sets force = False)
    eng.assume(Forall([NameS], lambda n: z3.Implies(z3.Select(F0["dom"], n), z3.And(
        *[z3.Select(F0[f".{f}?"], n) for f in ("source", "app_config", "mtime", "autoload", "force", "check_config")], z3.Not(z3.Select(F0[".force:v"], n)))), "files-wf"))
    src_of, cfg_of, mt_of = z3.Function("ctx_source", CtxS, ObjS), z3.Function("ctx_app_config", CtxS, ObjS), z3.Function("ctx_mtime", CtxS, RealS)
    it.method_tables[("GlobalCtx", "get_source")] = lambda i, c: SV(src_of(c.t))
    it.method_tables[("GlobalCtx", "get_app_config")] = lambda i, c: SV(cfg_of(c.t))
    it.method_tables[("GlobalCtx", "get_mtime")] = lambda i, c: SV(mt_of(c.t))
    delete = Store(eng, "ctx_delete", TSet(NameS))
    errors = []

    def set_(i, arg=None):
        delete.cols["in"] = z3.K(NameS, z3.BoolVal(False)) if arg is None else ctx_all.cols["dom"]
        return delete.view()
    only_t = z3.Const("global_ctx_only", NameS)
    for ax in name_axioms_for(only_t):
        eng.assume(ax)
    from pyvc.values import nparts
    eng.assume(nparts(only_t) >= 2)   # a context name has a kind prefix (file. / apps. / modules. / scripts.); '*' is the other branch
    only = None if mode == "default" else ("*" if mode == "star" else DName(only_t))
    env = Env(vars={"ctx_all": ctx_all.view(), "ctx2files": files.view(), "global_ctx_only": only, "set": set_,
                    "_LOGGER": Rec(fields={"error": lambda i, *a: errors.append(a), "debug": lambda i, *a: None, "info": lambda i, *a: None}, name="_LOGGER")})

    def changed(n):
        c = z3.Select(A0[".v"], n)
        return z3.Or(z3.Select(F0[".source:v"], n) != src_of(c), z3.Select(F0[".app_config:v"], n) != cfg_of(c), z3.Select(F0[".mtime:v"], n) != mt_of(c))

    def in_all(n):
        return z3.Select(A0["dom"], n)

    def in_files(n):
        return z3.Select(F0["dom"], n)

    def D(n):
        return z3.Select(delete.cols["in"], n)

    def force(n):
        return z3.Select(files.cols[".force:v"], n)

    def frame_files():
        # nothing but the force flag of existing entries is written
        return Forall([NameS], lambda n: z3.And(z3.Select(files.cols["dom"], n) == in_files(n),
                                                *[z3.Select(files.cols[f".{f}:v"], n) == z3.Select(F0[f".{f}:v"], n) for f in ("source", "app_config", "mtime", "autoload", "check_config")]), "frame")
    # loop contracts (default reload): first the contexts without a file, then the changed / new files
    def inv_gone(interp, env_, visited, members):
        return [Forall([NameS], lambda n: D(n) == z3.And(z3.Select(visited, n), in_all(n), z3.Not(in_files(n))), "gone"),
                Forall([NameS], lambda n: z3.Implies(in_files(n), z3.Not(force(n))), "noforce"), frame_files()]

    def inv_changed(interp, env_, visited, members):
        return [Forall([NameS], lambda n: D(n) == z3.Or(z3.And(in_all(n), z3.Not(in_files(n))), z3.And(z3.Select(visited, n), in_all(n), in_files(n), changed(n))), "del"),
                Forall([NameS], lambda n: z3.Implies(in_files(n), force(n) == z3.And(z3.Select(visited, n), z3.If(in_all(n), changed(n), z3.Select(F0[".autoload:v"], n)))), "force"),
                frame_files()]
    fors = [n for n in _ast.walk(_ast.Module(body=stmts, type_ignores=[])) if isinstance(n, _ast.For)]
    fors.sort(key=lambda n: n.lineno)
    by_iter = {_ast.unparse(n.iter): n for n in fors}
    it.func_stack.append("load_scripts")
    if "ctx_all.items()" in by_iter:
        it.loop_specs[("load_scripts", by_iter["ctx_all.items()"]._ordinal)] = LoopSpec(inv_gone, [delete, files], name="gone")
    # the second loop over ctx2files.items() in the slice is the changed-files loop (the first one is the '*' branch)
    f_loops = [n for n in fors if _ast.unparse(n.iter) == "ctx2files.items()"]
    star_loop, changed_loop = (f_loops + [None, None])[:2]
    if changed_loop is not None:
        it.loop_specs[("load_scripts", changed_loop._ordinal)] = LoopSpec(inv_changed, [delete, files], name="changed")
    if star_loop is not None:
        it.loop_specs[("load_scripts", star_loop._ordinal)] = LoopSpec(
            lambda interp, env_, visited, members: [Forall([NameS], lambda n: z3.Implies(in_files(n), force(n) == z3.Select(visited, n)), "all-forced"), frame_files(),
                                                    Forall([NameS], lambda n: D(n) == in_all(n), "all-deleted")], [files], name="star")
    from pyvc.interp import _Return
    try:
        it.exec_block(stmts, env)
        end = "fallthrough"
    except _Return:
        end = "return"
    except Raised as r:
        end = "raised:" + r.exc.cls.name
    eng.cover(f"end:{end}:{mode}")
    eng.oblige(f"{U}/post.no-exception", not end.startswith("raised"))

    def W(ob, what):
        if ob.status == "refuted":
            ob.witness = {"signature": f"changed-set:{mode}:{what}", "what": what, "mode": mode}
        return ob
    W(eng.oblige(f"{U}/frame.only-force-flags-are-written", frame_files()), "frame")
    if mode == "default":
        W(eng.oblige(f"{U}/post.discarded-iff-gone-or-changed", Forall([NameS], lambda n: D(n) == z3.And(in_all(n), z3.Or(z3.Not(in_files(n)), changed(n))), "post")), "discard")
        W(eng.oblige(f"{U}/post.forced-iff-changed-or-new-and-autoloaded", Forall([NameS], lambda n: z3.Implies(
            in_files(n), force(n) == z3.If(in_all(n), changed(n), z3.Select(F0[".autoload:v"], n))), "post")), "force")
    elif mode == "star":
        W(eng.oblige(f"{U}/post.star-discards-every-context", Forall([NameS], lambda n: D(n) == in_all(n), "p1")), "star")
        W(eng.oblige(f"{U}/post.star-forces-every-file", Forall([NameS], lambda n: z3.Implies(in_files(n), force(n)), "p2")), "star")
    else:
        known = z3.Or(in_all(only_t), in_files(only_t))
        if end == "return":
            W(eng.oblige(f"{U}/post.unknown-name-is-reported-and-changes-nothing", z3.And(z3.Not(known), len(errors) == 1)), "unknown-name")
        else:
            W(eng.oblige(f"{U}/post.named-reload-requires-a-known-name", known), "named")
            W(eng.oblige(f"{U}/post.named-reload-discards-exactly-a-context-without-file", Forall([NameS], lambda n: D(n) == z3.And(n == only_t, z3.Not(in_files(only_t))), "p1")), "named")
            W(eng.oblige(f"{U}/post.named-reload-forces-exactly-that-file", Forall([NameS], lambda n: z3.Implies(in_files(n), force(n) == (n == only_t)), "p2")), "named")


def slice_between(fn_node, first_target, end_pred):
    body = fn_node.body
    i0 = next(i for i, st in enumerate(body) if isinstance(st, _ast.Assign) and isinstance(st.targets[0], _ast.Name) and st.targets[0].id == first_target)
    i1 = next(i for i, st in enumerate(body) if i > i0 and end_pred(st))
    return body[i0:i1]


def root_of(n):
    from pyvc.values import part, join_fn
    return join_fn(2)(part(n, 0), part(n, 1))


def assume_root_axioms(eng):
    """projection facts of the two-part join, for every name the hypotheses are instantiated on"""
    from pyvc.values import part, nparts
    eng.assume(Forall([NameS], lambda n: z3.And(nparts(root_of(n)) == 2, part(root_of(n), 0) == part(n, 0), part(root_of(n), 1) == part(n, 1)), "root-projection"))


def is_kind(n, *kinds):
    from pyvc.values import part, nparts, part_const
    return z3.And(nparts(n) >= 2, z3.Or(*[part(n, 0) == part_const(k) for k in kinds]))


def decision_state(eng):
    """an arbitrary state between two blocks of the decision: loaded contexts, files with force flags, the discard set"""
    ctx_all = Store(eng, "ctx_all", TMap(NameS, TScalar(CtxS)))
    files = Store(eng, "ctx2files", FILE_T)
    delete = Store(eng, "ctx_delete", TSet(NameS))
    F0 = files.snapshot()
    eng.assume(Forall([NameS], lambda n: z3.Implies(z3.Select(F0["dom"], n), z3.And(
        *[z3.Select(F0[f".{f}?"], n) for f in ("source", "app_config", "mtime", "autoload", "force", "check_config")])), "files-wf"))
    from pyvc.values import nparts
    eng.assume(Forall([NameS], lambda n: z3.Implies(z3.Or(z3.Select(F0["dom"], n), z3.Select(ctx_all.cols["dom"], n)), z3.And(nparts(n) >= 2, nparts(n) <= 4)), "names-wf"))
    return ctx_all, files, delete


def h_will_reload(eng):
    """the set of module roots being reloaded: r in will_reload  <=>  some file n under modules. with root(n) = r is discarded or forced"""
    U = "C10/load_scripts#will_reload"
    eng.max_steps = 2_000_000
    it = Interpreter(eng)
    it.obj_may_be_none = True
    tree, _ = parse_file(I_PY)
    fn = find_def(tree, "load_scripts")
    number_loops(fn)
    stmts = slice_between(fn, "will_reload", lambda st: isinstance(st, _ast.If) and "will_reload" in _ast.unparse(st.test))
    ctx_all, files, delete = decision_state(eng)
    F0, D0 = files.snapshot(), delete.snapshot()
    will = Store(eng, "will_reload", TSet(NameS))
    wit = Store(eng, "ghost.witness_of_root", TMap(NameS, TScalar(NameS)))

    def set_(i, arg=None):
        will.cols["in"] = z3.K(NameS, z3.BoolVal(False))
        return will.view()

    def cond(n):
        return z3.And(z3.Select(F0["dom"], n), is_kind(n, "modules"), z3.Or(z3.Select(D0["in"], n), z3.Select(F0[".force:v"], n)))

    def Wr(r):
        return z3.Select(will.cols["in"], r)

    def witness(r):
        return z3.Select(wit.cols[".v"], r)

    def inv(interp, env_, visited, members):
        return [Forall([NameS], lambda n: z3.Implies(z3.And(z3.Select(visited, n), cond(n)), Wr(root_of(n))), "every-reloaded-module-root-is-in"),
                Forall([NameS], lambda r: z3.Implies(Wr(r), z3.And(z3.Select(visited, witness(r)), cond(witness(r)), root_of(witness(r)) == r)), "nothing-else-is-in"),
                # frame: the loop writes nothing but will_reload
                files.cols["dom"] == F0["dom"], files.cols[".force:v"] == F0[".force:v"], delete.cols["in"] == D0["in"]]

    def ghost_step(interp, env_, x):
        # x is the witness of its own root if it put it there and nobody had before
        r = root_of(x)
        before = will_before["in"]
        newly = z3.And(cond(x), z3.Not(z3.Select(before, r)))
        wit.cols[".v"] = z3.If(newly, z3.Store(wit.cols[".v"], r, x), wit.cols[".v"])
    will_before = {}
    fors = sorted([n for n in _ast.walk(_ast.Module(body=stmts, type_ignores=[])) if isinstance(n, _ast.For)], key=lambda n: n.lineno)
    spec = LoopSpec(inv, [will, wit], name="will_reload", ghost_step=ghost_step)
    orig_inv = spec.inv

    def inv_recording(interp, env_, visited, members):
        will_before["in"] = will.cols["in"]     # the value of will_reload when the invariant is assumed (before the body)
        return orig_inv(interp, env_, visited, members)
    spec.inv = inv_recording
    it.loop_specs[("load_scripts", fors[0]._ordinal)] = spec
    it.func_stack.append("load_scripts")
    env = Env(vars={"ctx_all": ctx_all.view(), "ctx2files": files.view(), "ctx_delete": delete.view(), "set": set_})
    k, v = run_catching(it, lambda: it.exec_block(stmts, env))
    eng.cover(f"exit:{k}")
    eng.oblige(f"{U}/post.no-exception", k == "ok")
    if k != "ok":
        return
    ob = eng.oblige(f"{U}/post.contains-the-root-of-every-discarded-or-forced-module-file", Forall([NameS], lambda n: z3.Implies(cond(n), Wr(root_of(n))), "p1"))
    if ob.status == "refuted":
        ob.witness = {"signature": "will_reload-misses-a-root"}
    ob = eng.oblige(f"{U}/post.contains-only-such-roots", Forall([NameS], lambda r: z3.Implies(Wr(r), z3.And(cond(witness(r)), root_of(witness(r)) == r)), "p2"))
    if ob.status == "refuted":
        ob.witness = {"signature": "will_reload-has-a-foreign-root"}


def h_importers(eng):
    """importer closure: after the loop a loaded context n is (additionally) discarded, and its file forced, iff some module in
    closure(n) - what import_recurse returns for n, assumed to be the transitive closure of the recorded import edges - has its
    root in will_reload."""
    U = "C10/load_scripts#importers"
    eng.max_steps = 3_000_000
    it = Interpreter(eng)
    it.obj_may_be_none = True
    tree, _ = parse_file(I_PY)
    fn = find_def(tree, "load_scripts")
    number_loops(fn)
    the_if = next(st for st in fn.body if isinstance(st, _ast.If) and "will_reload" in _ast.unparse(st.test))
    outer = next(st for st in the_if.body if isinstance(st, _ast.For) and _ast.unparse(st.iter) == "ctx_all.items()")
    inner = next(n for n in _ast.walk(outer) if isinstance(n, _ast.For) and n is not outer)
    ctx_all, files, delete = decision_state(eng)
    A0, F0, D0 = ctx_all.snapshot(), files.snapshot(), delete.snapshot()
    will = Store(eng, "will_reload", TSet(NameS))
    closure = Store(eng, "ghost.closure", TMap(NameS, TSet(NameS)))      # import_recurse's result per context (assumed contract)
    eng.assume(Forall([NameS], lambda n: z3.Select(closure.cols["dom"], n), "closure-total"))
    w2 = Store(eng, "ghost.witness_module", TMap(NameS, TScalar(NameS)))
    C0 = closure.snapshot()
    from pyvc.values import nparts
    # import edges are context names (module_import records 'modules.<m>...' / 'apps.<a>...' names: C11 / module_import contract)
    eng.assume(Forall([NameS, NameS], lambda n, m: z3.Implies(z3.Select(z3.Select(C0[".in"], n), m), z3.And(nparts(m) >= 2, nparts(m) <= 4)), "edges-are-context-names"))

    def in_closure(n, m):
        return z3.Select(z3.Select(C0[".in"], n), m)

    def hit(m):
        return z3.Select(will.cols["in"], root_of(m))

    def D(n):
        return z3.Select(delete.cols["in"], n)

    def force(n):
        return z3.Select(files.cols[".force:v"], n)

    def infiles(n):
        return z3.Select(F0["dom"], n)

    def inall(n):
        return z3.Select(A0["dom"], n)

    def wm(n):
        return z3.Select(w2.cols[".v"], n)

    def frame():
        return [files.cols["dom"] == F0["dom"], files.cols[".autoload:v"] == F0[".autoload:v"], files.cols[".source:v"] == F0[".source:v"],
                files.cols[".mtime:v"] == F0[".mtime:v"], files.cols[".app_config:v"] == F0[".app_config:v"]]

    def outer_inv(interp, env_, visited, members):
        return [Forall([NameS, NameS], lambda n, m: z3.Implies(z3.And(z3.Select(visited, n), in_closure(n, m), hit(m)),
                                                              z3.And(D(n), z3.Implies(infiles(n), force(n)))), "importers-are-in"),
                Forall([NameS], lambda n: z3.Implies(D(n), z3.Or(z3.Select(D0["in"], n), z3.And(z3.Select(visited, n), in_closure(n, wm(n)), hit(wm(n))))), "only-importers-added"),
                Forall([NameS], lambda n: z3.Implies(z3.And(infiles(n), force(n)), z3.Or(z3.Select(F0[".force:v"], n),
                                                                                       z3.And(z3.Select(visited, n), in_closure(n, wm(n)), hit(wm(n))))), "only-importers-forced"),
                Forall([NameS], lambda n: z3.Implies(z3.Select(D0["in"], n), D(n)), "nothing-removed"),
                Forall([NameS], lambda n: z3.Implies(z3.And(infiles(n), z3.Select(F0[".force:v"], n)), force(n)), "nothing-unforced")] + frame()
    pre = {}

    def inner_inv(interp, env_, visited, members):
        x = env_.lookup("global_ctx_name").t
        if "D" not in pre:
            pre["D"], pre["F"] = delete.cols["in"], files.cols[".force:v"]   # the state at the inner loop's entry
        Dp, Fp = pre["D"], pre["F"]
        return [Forall([NameS], lambda n: z3.Implies(n != x, z3.And(D(n) == z3.Select(Dp, n), force(n) == z3.Select(Fp, n))), "others-untouched"),
                Forall([NameS], lambda m: z3.Implies(z3.And(z3.Select(visited, m), hit(m)), z3.And(D(x), z3.Implies(infiles(x), force(x)))), "hit-discards"),
                z3.Implies(D(x), z3.Or(z3.Select(Dp, x), z3.And(z3.Select(visited, wm(x)), hit(wm(x))))),
                z3.Implies(z3.And(infiles(x), force(x)), z3.Or(z3.Select(Fp, x), z3.And(z3.Select(visited, wm(x)), hit(wm(x))))),
                z3.Implies(z3.Select(Dp, x), D(x)), z3.Implies(z3.And(infiles(x), z3.Select(Fp, x)), force(x)),
                Forall([NameS], lambda n: z3.Implies(n != x, wm(n) == z3.Select(pre["W"], n)), "other-witnesses-kept")] + frame()

    def inner_inv_rec(interp, env_, visited, members):
        if "W" not in pre:
            pre["W"] = w2.cols[".v"]
        return inner_inv(interp, env_, visited, members)

    def inner_ghost(interp, env_, m):
        x = env_.lookup("global_ctx_name").t
        w2.cols[".v"] = z3.If(hit(m), z3.Store(w2.cols[".v"], x, m), w2.cols[".v"])
    it.loop_specs[("load_scripts", outer._ordinal)] = LoopSpec(outer_inv, [delete, files, w2], name="importers")
    it.loop_specs[("load_scripts", inner._ordinal)] = LoopSpec(inner_inv_rec, [delete, files, w2], name="imports-of-one", ghost_step=inner_ghost)
    recurse_calls = []
    imports_memo = Rec(name="ctx2imports")
    imports_memo._fields["__contains__"] = lambda i, k: SV(eng.fresh("memoised", z3.BoolSort()))
    imports_memo._fields["get"] = lambda i, k, default=None: closure.view().getitem(k)
    env = Env(vars={"ctx_all": ctx_all.view(), "ctx2files": files.view(), "ctx_delete": delete.view(), "will_reload": will.view(),
                    "ctx2imports": imports_memo, "set": lambda i, arg=None: SymPySet([]),
                    "import_recurse": lambda i, name, visited, memo: recurse_calls.append(name)})
    it.func_stack.append("load_scripts")
    k, v = run_catching(it, lambda: it.exec_block([outer], env))
    eng.cover(f"exit:{k}")
    eng.oblige(f"{U}/post.no-exception", k == "ok")
    if k != "ok":
        return

    def W(ob, what):
        if ob.status == "refuted":
            ob.witness = {"signature": f"importers:{what}"}
        return ob
    W(eng.oblige(f"{U}/post.every-loaded-importer-of-a-reloaded-module-is-discarded-and-forced", Forall([NameS, NameS], lambda n, m: z3.Implies(
        z3.And(inall(n), in_closure(n, m), hit(m)), z3.And(D(n), z3.Implies(infiles(n), force(n)))), "p1")), "missed-importer")
    W(eng.oblige(f"{U}/post.nothing-else-is-discarded", Forall([NameS], lambda n: z3.Implies(D(n), z3.Or(z3.Select(D0["in"], n), z3.And(inall(n), in_closure(n, wm(n)), hit(wm(n))))), "p2")), "extra-discard")
    W(eng.oblige(f"{U}/post.nothing-else-is-forced", Forall([NameS], lambda n: z3.Implies(z3.And(infiles(n), force(n)), z3.Or(
        z3.Select(F0[".force:v"], n), z3.And(inall(n), in_closure(n, wm(n)), hit(wm(n))))), "p3")), "extra-force")
    W(eng.oblige(f"{U}/post.earlier-decisions-are-kept", Forall([NameS], lambda n: z3.And(z3.Implies(z3.Select(D0["in"], n), D(n)),
                                                                                         z3.Implies(z3.And(infiles(n), z3.Select(F0[".force:v"], n)), force(n))), "p4")), "lost-decision")


FILE_T2 = TMap(NameS, TStruct({"force": TScalar(z3.BoolSort()), "autoload": TScalar(z3.BoolSort()), "rel_path": TScalar(z3.StringSort())}))


def h_package_widening(eng):
    """if any file of an app or module package is forced, every file of that package is discarded and only the package's top
    file (<kind>/<name>/__init__.py or <kind>/<name>.py) stays forced; everything else keeps its decision."""
    U = "C10/load_scripts#package-widening"
    eng.max_steps = 4_000_000
    it = Interpreter(eng)
    it.obj_may_be_none = True
    from pyvc.values import part, nparts, PartV
    tree, _ = parse_file(I_PY)
    fn = find_def(tree, "load_scripts")
    number_loops(fn)
    i0 = next(i for i, st in enumerate(fn.body) if isinstance(st, _ast.Assign) and isinstance(st.targets[0], _ast.Name) and st.targets[0].id == "done")
    outer = fn.body[i0 + 1]
    assert isinstance(outer, _ast.For) and _ast.unparse(outer.iter) == "ctx2files.items()", "package widening loop moved"
    inner = next(n for n in _ast.walk(outer) if isinstance(n, _ast.For) and n is not outer)
    assume_root_axioms(eng)
    files = Store(eng, "ctx2files", FILE_T2)
    delete = Store(eng, "ctx_delete", TSet(NameS))
    done = Store(eng, "done", TSet(NameS))
    wd = Store(eng, "ghost.witness_of_done_root", TMap(NameS, TScalar(NameS)))
    F0, D0 = files.snapshot(), delete.snapshot()
    eng.assume(Forall([NameS], lambda n: z3.Implies(z3.Select(F0["dom"], n), z3.And(z3.Select(F0[".force?"], n), z3.Select(F0[".autoload?"], n), z3.Select(F0[".rel_path?"], n),
                                                                                      nparts(n) >= 2, nparts(n) <= 4)), "files-wf"))

    def infiles(n):
        return z3.Select(F0["dom"], n)

    def D(n):
        return z3.Select(delete.cols["in"], n)

    def force(n):
        return z3.Select(files.cols[".force:v"], n)

    def force0(n):
        return z3.Select(F0[".force:v"], n)

    def Dn(r):
        return z3.Select(done.cols["in"], r)

    def wdr(r):
        return z3.Select(wd.cols[".v"], r)

    def kindAM(n):
        return is_kind(n, "apps", "modules")

    def under(m, r):
        return z3.And(nparts(m) >= 2, part(m, 0) == part(r, 0), part(m, 1) == part(r, 1))

    def isroot(m, r):
        # the package's top file, built exactly as the code builds pkg_path / mod_path from the two leading parts
        p0, p1 = PartV(part(r, 0)), PartV(part(r, 1))
        pkg = it.concat_str([p0, "/", p1, "/__init__.py"])
        modp = it.concat_str([p0, "/", p1, ".py"])
        rel = z3.Select(F0[".rel_path:v"], m)
        return z3.Or(rel == pkg.t, rel == modp.t)

    def frame():
        return [files.cols["dom"] == F0["dom"], files.cols[".autoload:v"] == F0[".autoload:v"], files.cols[".rel_path:v"] == F0[".rel_path:v"]]

    def decided(n):
        r = root_of(n)
        return z3.If(z3.And(kindAM(n), Dn(r)), z3.And(D(n), force(n) == isroot(n, r)), z3.And(D(n) == z3.Select(D0["in"], n), force(n) == force0(n)))

    def outer_inv(interp, env_, visited, members):
        return [Forall([NameS], lambda r: z3.Implies(Dn(r), z3.And(z3.Select(visited, wdr(r)), infiles(wdr(r)), force0(wdr(r)), kindAM(wdr(r)), root_of(wdr(r)) == r)), "done-only-for-forced-roots"),
                Forall([NameS], lambda n: z3.Implies(z3.And(z3.Select(visited, n), infiles(n), force0(n), kindAM(n)), Dn(root_of(n))), "forced-roots-are-done"),
                Forall([NameS], lambda n: z3.Implies(infiles(n), decided(n)), "decisions"),
                Forall([NameS], lambda n: z3.Implies(z3.Not(infiles(n)), D(n) == z3.Select(D0["in"], n)), "non-files-untouched")] + frame()
    pre = {}

    def inner_inv(interp, env_, visited, members):
        r = env_.lookup("root").t
        if "D" not in pre:
            pre["D"], pre["F"] = delete.cols["in"], files.cols[".force:v"]
        return [Forall([NameS], lambda m: z3.Implies(infiles(m), z3.If(z3.And(z3.Select(visited, m), under(m, r)), z3.And(D(m), force(m) == isroot(m, r)),
                                                                     z3.And(D(m) == z3.Select(pre["D"], m), force(m) == z3.Select(pre["F"], m)))), "package-members"),
                Forall([NameS], lambda m: z3.Implies(z3.Not(infiles(m)), D(m) == z3.Select(pre["D"], m)), "non-files"),
                done.cols["in"] == pre_done["in"], wd.cols[".v"] == pre_done["w"]] + frame()
    pre_done = {}

    def outer_inv_rec(interp, env_, visited, members):
        pre_done["in"], pre_done["w"] = done.cols["in"], wd.cols[".v"]
        return outer_inv(interp, env_, visited, members)

    def outer_ghost(interp, env_, x):
        r = root_of(x)
        newly = z3.And(z3.Select(done.cols["in"], r), z3.Not(z3.Select(pre_done["in"], r)))
        wd.cols[".v"] = z3.If(newly, z3.Store(wd.cols[".v"], r, x), wd.cols[".v"])
    it.loop_specs[("load_scripts", outer._ordinal)] = LoopSpec(outer_inv_rec, [delete, files, done, wd], name="packages", ghost_step=outer_ghost)
    it.loop_specs[("load_scripts", inner._ordinal)] = LoopSpec(inner_inv, [delete, files], name="package-members")
    done.cols["in"] = z3.K(NameS, z3.BoolVal(False))
    env = Env(vars={"ctx2files": files.view(), "ctx_delete": delete.view(), "done": done.view()})
    it.func_stack.append("load_scripts")
    k, v = run_catching(it, lambda: it.exec_block([outer], env))
    eng.cover(f"exit:{k}")
    eng.oblige(f"{U}/post.no-exception", k == "ok")
    if k != "ok":
        return

    def W(ob, what):
        if ob.status == "refuted":
            ob.witness = {"signature": f"package-widening:{what}"}
        return ob
    trig_w = wdr     # witness of 'some forced file of the package'
    W(eng.oblige(f"{U}/post.a-package-with-a-forced-file-is-discarded-whole-and-only-its-top-file-stays-forced", Forall([NameS, NameS], lambda n, f: z3.Implies(
        z3.And(infiles(n), infiles(f), force0(f), kindAM(f), root_of(f) == root_of(n), kindAM(n)), z3.And(D(n), force(n) == isroot(n, root_of(n)))), "p1")), "package")
    W(eng.oblige(f"{U}/post.everything-else-keeps-its-decision", Forall([NameS], lambda n: z3.Implies(
        z3.And(infiles(n), z3.Not(z3.And(kindAM(n), infiles(trig_w(root_of(n))), force0(trig_w(root_of(n))), kindAM(trig_w(root_of(n))), root_of(trig_w(root_of(n))) == root_of(n)))),
        z3.And(D(n) == z3.Select(D0["in"], n), force(n) == force0(n))), "p2")), "others")
    W(eng.oblige(f"{U}/post.contexts-without-a-file-are-untouched", Forall([NameS], lambda n: z3.Implies(z3.Not(infiles(n)), D(n) == z3.Select(D0["in"], n)), "p3")), "non-files")


def h_delete_and_load(eng):
    """the delete loop and the load loop: exactly ctx_delete-and-loaded contexts are stopped and removed (once); exactly the
    auto-loaded forced files are loaded, flagged 'reload' iff they were discarded"""
    U = "C10/load_scripts#delete-and-load"
    eng.max_steps = 2_000_000
    it = Interpreter(eng)
    it.obj_may_be_none = True
    w = World(eng)
    tree, _ = parse_file(I_PY)
    fn = find_def(tree, "load_scripts")
    number_loops(fn)
    body = fn.body
    loops = [st for st in body if isinstance(st, (_ast.For, _ast.AsyncFor))]
    del_loop = next(st for st in loops if _ast.unparse(st.iter) == "ctx_delete")
    load_loop = next(st for st in loops if _ast.unparse(st.iter) == "sorted(ctx2files.items())")
    which = ["delete", "load"][eng.choose(2, "loop")]
    name_t = z3.Const("name", NameS)
    for ax in name_axioms_for(name_t):
        eng.assume(ax)
    name = DName(name_t)
    in_all = bool(eng.choose(2, "context-is-loaded"))
    in_files = bool(eng.choose(2, "file-exists"))
    autoload, force, in_delete = (bool(eng.choose(2, k)) for k in ("autoload", "force", "discarded"))
    ctx = Rec(name="old_ctx")
    stops, deleted, loads, made = [], [], [], []
    ctx._fields.update({"stop": lambda i: stops.append(1), "get_file_path": lambda i: "path"})
    src = Rec(fields={"autoload": autoload, "force": force, "global_ctx_name": name, "fq_mod_name": "m", "rel_import_path": None, "app_config": None,
                      "source": "src", "mtime": 1.0, "file_path": "/p"}, name="src_info")
    ctx_all = {name: ctx} if in_all else {}
    ctx2files = {name: src} if in_files else {}
    mgr = Rec(fields={"delete": lambda i, n: deleted.append(n), "load_file": lambda i, g, p, source=None, reload=False: Coro(lambda: loads.append((g, p, source, reload)), "load_file")}, name="GlobalContextMgr")

    def GlobalContext(i, n, **kw):
        g = Rec(fields=dict(kw, name=n), name="new_ctx")
        made.append(g)
        return g
    env = Env(vars={"ctx_all": ctx_all, "ctx2files": ctx2files, "ctx_delete": SymPySet([name]) if in_delete else SymPySet([]), "GlobalContextMgr": mgr,
                    "GlobalContext": GlobalContext, "sorted": lambda i, x: [list(t) for t in i.iterate(x)],
                    "_LOGGER": Rec(fields={"error": lambda i, *a: None, "debug": lambda i, *a: None, "info": lambda i, *a: None}, name="_LOGGER")})
    it.func_stack.append("load_scripts")
    k, v = run_catching(it, lambda: it.exec_block([del_loop if which == "delete" else load_loop], env))
    eng.cover(f"exit:{k}:{which}")
    eng.oblige(f"{U}/post.no-exception", k == "ok")
    if which == "delete":
        want = in_delete and in_all
        ob = eng.oblige(f"{U}/delete.stopped-and-removed-once-iff-discarded-and-loaded", (stops == [1] and len(deleted) == 1) if want else (stops == [] and deleted == []))
        if ob.status == "refuted":
            ob.witness = {"signature": "delete-loop"}
    else:
        want = in_files and autoload and force
        ob = eng.oblige(f"{U}/load.loaded-once-iff-autoloaded-and-forced", (len(loads) == 1 and len(made) == 1) if want else (loads == [] and made == []))
        if ob.status == "refuted":
            ob.witness = {"signature": "load-loop"}
        if want and len(loads) == 1:
            g, p, source, reload = loads[0]
            eng.oblige(f"{U}/load.new-context-carries-the-files-source-mtime-and-config", g is made[0] and g._fields.get("source") == "src" and g._fields.get("mtime") == 1.0
                       and g._fields.get("app_config") is None and source == "src" and p == "/p")
            eng.oblige(f"{U}/load.reload-flag-iff-the-context-was-discarded", reload is in_delete or reload == in_delete)


def bounded_reload(k, n):
    def run(seed):
        from replay.native import run_native
        return run_native("c10_reload_bounded", {"seed": 100 * k + seed, "histories": n}, timeout=1500)
    return run


def h_load_file(eng):
    """GlobalContextMgr.load_file: a file that could be READ - whatever its text, the empty text included - replaces the context of
    that name (the old one is stopped and forgotten, the new one runs the text and is registered with source, path and mtime, so
    that the next reload can compare them); only a file that could not be read changes nothing; a text that fails to run leaves the
    new context stopped and unregistered, and the error goes to the caller."""
    it = Interpreter(eng)
    w = World(eng)
    U = "C10/GlobalContextMgr.load_file"
    given = ["none", "empty", "text"][eng.choose(3, "source-argument")]
    on_disk = ["unreadable", "empty", "text"][eng.choose(3, "file-on-disk")] if given == "none" else None
    text = {"empty": "", "text": "x = 1\n"}
    evals, parsed, logged = [], [], []
    run_fails = bool(eng.choose(2, "text-fails-to-run"))

    def AstEval(i, name, gctx):
        a = Rec(fields={"name": name}, name="ast_ctx")
        a._fields["parse"] = lambda i2, src, filename=None: parsed.append((src, filename))

        def ev(i2):
            def th():
                evals.append(1)
                if run_fails:
                    raise exc("UserException", "script error")
            return Coro(th, "eval")
        a._fields["eval"] = ev
        a._fields["log_exception"] = lambda i2, e: logged.append(e)
        return a

    def executor(i, fn, *a):
        def th():
            if on_disk == "unreadable":
                return (None, 0)
            return (text[on_disk], 1234.5)
        return Coro(th, "executor_job")
    hass = Rec(fields={"async_add_executor_job": executor}, name="hass")
    mod = Module(it, GC_PY, stubs={"_LOGGER": logger_stub(), "Function": Rec(fields={"hass": hass, "install_ast_funcs": lambda i, a: None}, name="Function"),
                                   "AstEval": AstEval, "os": PyModule("os", {"path": PyModule("os.path", {"getmtime": lambda i, p: 1234.5})}),
                                   "logging": PyModule("logging", {"getLogger": lambda i, n: logger_stub()}), "LOGGER_PATH": "x", "FOLDER": "pyscript"})
    M = mod.env.vars["GlobalContextMgr"]
    table = {}
    had_old = bool(eng.choose(2, "context-of-that-name-exists"))
    old = Rec(fields={"stopped": 0}, name="old_ctx")
    old._fields["stop"] = lambda i: old._fields.__setitem__("stopped", old._fields["stopped"] + 1)
    if had_old:
        table["file.x"] = old
    for nm, f in (("get", lambda i, n: table.get(n)), ("set", lambda i, n, g: table.__setitem__(n, g)), ("delete", lambda i, n: table.pop(n, None))):
        M.attrs[nm] = f
    new = Rec(fields={"stopped": 0, "source": None, "file_path": None, "mtime": None, "get_name": lambda i: "file.x"}, name="new_ctx")
    new._fields["stop"] = lambda i: new._fields.__setitem__("stopped", new._fields["stopped"] + 1)
    args = [new, "/cfg/pyscript/x.py"] + ([] if given == "none" else [text[given]])
    k, v = run_catching(it, lambda: it.await_(it.call(it.getattr_(M, "load_file"), args, {})))
    eng.cover(f"ran:{k}")
    readable = given != "none" or on_disk != "unreadable"
    src = text[given] if given != "none" else (text[on_disk] if readable else None)
    if not readable:
        eng.oblige(f"{U}/post.unreadable-file-changes-nothing", k == "ok" and evals == [] and (table.get("file.x") is old if had_old else "file.x" not in table) and old._fields["stopped"] == 0)
        return
    ob = eng.oblige(f"{U}/post.a-file-that-was-read-is-run-once-whatever-its-text", evals == [1] and parsed == [(src, "/cfg/pyscript/x.py")])
    if ob.status == "refuted":
        ob.witness = {"signature": "readable-file-not-loaded", "text": repr(src)}
    eng.oblige(f"{U}/post.old-context-of-the-name-stopped-and-forgotten", (old._fields["stopped"] == 1 and table.get("file.x") is not old) if had_old else True)
    eng.oblige(f"{U}/post.source-and-path-recorded-for-the-next-comparison", new._fields["source"] == src and new._fields["file_path"] == "/cfg/pyscript/x.py"
               and (new._fields["mtime"] == 1234.5 if given == "none" else True))
    if run_fails:
        eng.oblige(f"{U}/post.failing-text-leaves-the-context-stopped-unregistered-and-reported", k == "exc" and new._fields["stopped"] == 1 and table.get("file.x") is not new and len(logged) == 1)
    else:
        eng.oblige(f"{U}/post.registered-under-its-name", k == "ok" and table.get("file.x") is new and new._fields["stopped"] == 0)


def harnesses():
    hs = []
    for c in c11.IMPORT_CASES:
        hs.append(Harness(f"module_import[{c[0]},level={c[1]},rel={c[2]}]", c11.h_module_import(c), units=[(GC_PY, "GlobalContext.module_import")]))
    hs.append(Harness("GlobalContextMgr.load_file", h_load_file, units=[(GC_PY, "GlobalContextMgr.load_file")],
                      replay=lambda wj: __import__("replay.native", fromlist=["run_native"]).run_native("c10_empty_file", wj)))
    hs.append(Harness("start_global_contexts", h_start_global_contexts, units=[(I_PY, "start_global_contexts")]))
    hs.append(Harness("update_yaml_config", h_update_yaml_config, units=[(I_PY, "update_yaml_config")], replay=replay_yaml_options))
    hs.append(Harness("load_scripts.changed-set", h_changed_set, units=[(I_PY, "load_scripts")], max_paths=20000))
    hs.append(Harness("load_scripts.will_reload", h_will_reload, units=[(I_PY, "load_scripts")], max_paths=20000))
    hs.append(Harness("load_scripts.importers", h_importers, units=[(I_PY, "load_scripts")], max_paths=20000))
    hs.append(Harness("load_scripts.package-widening", h_package_widening, units=[(I_PY, "load_scripts")], max_paths=20000))
    hs.append(Harness("load_scripts.delete-and-load", h_delete_and_load, units=[(I_PY, "load_scripts")]))
    units_b = [(I_PY, "load_scripts"), (GC_PY, "GlobalContext.module_import"), (GC_PY, "GlobalContextMgr.load_file")]
    hs.append(Harness("bounded.reload", bounded_reload(0, 200), units=units_b, kind="bounded"))
    for k in range(1, 9):
        hs.append(Harness(f"bounded.reload[thorough {k}/8]", bounded_reload(k, 600), units=units_b, kind="bounded", tier="thorough"))
    return hs

"""C10 - reload loads exactly what the files and configuration now dictate.

  GlobalContext.module_import   (proof, shared with C11) an already loaded context is returned and never re-created; the import
                                edge is recorded on both paths - the edges are what the reload's importer closure follows.
  start_global_contexts         (proof) started iff the context is a file/apps/modules/scripts context and equals or is below the
                                requested name (or no name / '*').
  load_scripts                  decision block (changed set, importer closure, package widening, delete-then-load): BOUNDED native
                                differential on real directory trees - random edit / reload histories against the statement's
                                rules computed independently.  The block is one 250-line closure over the file system and the
                                context manager; it was not brought under contract in the time available (see DESIGN.md), so C10
                                is claimed at the bounded level only for that part and never counted as proved.
"""
from __future__ import annotations

import z3

from pyvc.framework import Harness
from pyvc.interp import Raised, Coro, exc, SymPySet, PathEnd
from pyvc.loader import Module
from pyvc.stmts import Interpreter, PyModule
from pyvc.values import Rec, SV
from .common import A_LOG, PKG, logger_stub, run_catching, World
from . import C11 as c11

PROPERTY = "C10"
LEVEL_CATEGORY = "exploration"   # the reload decision block is covered by a bounded differential only
I_PY = f"{PKG}/__init__.py"
GC_PY = f"{PKG}/global_ctx.py"

ASSUMPTIONS = [
    A_LOG,
    "glob, file reads and os.path.getmtime report the directory tree (operating system; assumed)",
    "running a script (GlobalContextMgr.load_file) is C01-C03 / C18 territory; here a load succeeds unless an import is missing",
    "contexts are visited once per dictionary iteration",
]
NOT_DECIDED = ["load_scripts' decision block for ALL trees and histories: only the bounded differential explores it",
               "a module that is no longer imported by anyone but whose file is unchanged stays loaded: the statement's first sentence "
               "('exactly ... plus the modules they import') and its second ('leaves all other contexts untouched') disagree on it; "
               "the reference follows the second",
               "a reload while scripts are still starting (ordering with start_global_contexts of a previous reload)"]
SHAPE_BOUNDS = {"tree": "11 files: 2 top-level, 2 scripts (one nested), app module + app package with helper, module, module package with "
                        "sub-module, second module; import chain of depth 3"}
LEVEL_TEXT = ("module_import and start_global_contexts: proof.  The reload decision itself: BOUNDED - random histories (modify, touch, "
              "create, delete, '#'-rename, app-config change; reload None / name / '*') on real trees, stated bound; not a proof.")


def h_start_global_contexts(eng):
    U = "C10/start_global_contexts"
    it = Interpreter(eng)
    w = World(eng)
    kinds = ["file", "apps", "modules", "scripts", "jupyter_0", "nodot"]
    kind = kinds[eng.choose(len(kinds), "context-kind")]
    rel = ["same", "below", "sibling-prefix", "other"][eng.choose(4, "relation-to-requested")]
    only_kind = [None, "*", "name"][eng.choose(3, "requested")]
    base = {"file": "file.a", "apps": "apps.app1", "modules": "modules.m", "scripts": "scripts.s", "jupyter_0": "jupyter_0.x", "nodot": "nodot"}[kind]
    name = {"same": base, "below": base + ".sub", "sibling-prefix": base + "x", "other": "file.zzz"}[rel]
    only = None if only_kind is None else ("*" if only_kind == "*" else base)
    started, auto = [], []
    ctx = Rec(fields={"set_auto_start": lambda i, b: auto.append(b), "start": lambda i: started.append(1)}, name="ctx")
    other = Rec(fields={"set_auto_start": lambda i, b: None, "start": lambda i: None}, name="other")
    mgr = Rec(fields={"items": lambda i: [(name, ctx), ("file.unrelated_q", other)]}, name="GlobalContextMgr")
    mod = load_init_module(it, {"GlobalContextMgr": mgr})
    k, v = run_catching(it, lambda: it.call(mod.env.vars["start_global_contexts"], [], {"global_ctx_only": only}))
    eng.cover(f"exit:{k}")
    eng.oblige(f"{U}/post.no-exception", k == "ok")
    is_script_ctx = "." in name and name.split(".")[0] in ("file", "apps", "modules", "scripts")
    selected = only in (None, "*") or name == only or name.startswith(only + ".")
    want = is_script_ctx and selected
    ob = eng.oblige(f"{U}/post.started-iff-a-script-context-at-or-below-the-requested-name", (started == [1] and auto == [True]) if want else (started == [] and auto == []))
    if ob.status == "refuted":
        ob.witness = {"signature": "start-predicate", "name": name, "requested": only}


def load_init_module(it, extra):
    stubs = {"_LOGGER": logger_stub(), "vol": PyModule("vol", {"Schema": lambda i, *a, **k: None, "Optional": lambda i, *a, **k: a[0], "All": lambda i, *a, **k: None,
                                                              "ALLOW_EXTRA": 1, "Any": lambda i, *a, **k: None, "Coerce": lambda i, *a, **k: None}),
             "cv": PyModule("cv", {"boolean": None, "string": None, "ensure_list": None}), "DOMAIN": "pyscript"}
    stubs.update(extra)
    return Module(it, I_PY, stubs=stubs)


def bounded_reload(k, n):
    def run(seed):
        from replay.native import run_native
        return run_native("c10_reload_bounded", {"seed": 100 * k + seed, "histories": n}, timeout=1500)
    return run


def harnesses():
    hs = []
    for c in c11.IMPORT_CASES:
        hs.append(Harness(f"module_import[{c[0]},level={c[1]},rel={c[2]}]", c11.h_module_import(c), units=[(GC_PY, "GlobalContext.module_import")]))
    hs.append(Harness("start_global_contexts", h_start_global_contexts, units=[(I_PY, "start_global_contexts")]))
    units_b = [(I_PY, "load_scripts"), (GC_PY, "GlobalContext.module_import"), (GC_PY, "GlobalContextMgr.load_file")]
    hs.append(Harness("bounded.reload", bounded_reload(0, 200), units=units_b, kind="bounded"))
    for k in range(1, 9):
        hs.append(Harness(f"bounded.reload[thorough {k}/8]", bounded_reload(k, 600), units=units_b, kind="bounded", tier="thorough"))
    return hs

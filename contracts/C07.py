"""C07 - @state_active / @time_active / hold_off gate every trigger correctly.

  TrigTime.timer_active_check   for every list of <= 4 entries (each: negated?, range / cron / neither) and every time:
                                result <=> (no positive entry or some positive entry matches) and no negated entry matches;
                                range(a, b) includes both end points and wraps when b < a.  The text of an entry is abstract:
                                the string operations / regular expressions that classify it are assumed contracts (bounded
                                native differential on real strings below).
  call sites                    legacy trigger_watch#while0 and TimeActiveDecorator.handle_dispatch pass the WHOLE list and
                                the occurrence time; hold_off compares with the last accepted occurrence.
  state_active                  StateActiveDecorator.handle_dispatch and the legacy active_expr block evaluate the expression
                                on notify_var_get(names, the event's values); exceptions => not active.
  guard frame                   guards contain no create_task / dispatch (cannot start a run); direct calls (EvalFunc.call)
                                do not pass through them (syntactic scan).
"""
from __future__ import annotations

import ast

import z3

from pyvc.framework import Harness
from pyvc.interp import Raised, Coro, exc, SymPySet, PathEnd, EXC
from pyvc.loader import Module, parse_file, number_loops
from pyvc.stmts import Interpreter, PyModule
from pyvc.values import Rec, SV
from .common import A_LOG, A_COOP, A_REAL, PKG, logger_stub, run_catching, World
from . import C04 as c04
from . import C09 as c09

PROPERTY = "C07"
T_PY = f"{PKG}/trigger.py"
DT_PY = f"{PKG}/decorators/timing.py"
DS_PY = f"{PKG}/decorators/state.py"
D_PY = f"{PKG}/decorator.py"
R = z3.RealSort()

ASSUMPTIONS = [
    A_LOG, A_COOP, A_REAL,
    "entry classification: str.strip / startswith('not') / replace('not ', '') / re.match on 'cron(...)' and 'range(a, b)' "
    "classify an entry as (negated?, cron | range | neither); assumed as a contract in the proof and exercised on real strings "
    "by the bounded native differential",
    "croniter.is_valid / croniter.match implement crontab field matching (third-party; assumed contract)",
    "TrigTime.parse_date_time(text, 0, base, startup) returns the instant the text denotes relative to base's date (C06 scope)",
    "datetimes are reals (seconds); comparisons are exact",
]
NOT_DECIDED = ["crontab field semantics (croniter)", "sunrise/sunset values (Home Assistant sun helper)",
               "the regular expressions themselves beyond the bounded differential"]
SHAPE_BOUNDS = {"entries per @time_active list": "<= 4 (the property's bound)", "guards per function": "<= 2 (C08 new-chain)"}
LEVEL_TEXT = ("Proof (lists of <= 4 entries, all times): timer_active_check equals the statement's +/- combination with inclusive, "
              "wrapping ranges; both call sites pass the whole list and the occurrence time; hold_off and state_active gates per "
              "iteration / dispatch; guards cannot start runs (syntactic frame).  Entry text classification and date parsing: "
              "bounded native differential.")


# ----------------------------------------------------------------------------------------------------------
# timer_active_check
# ----------------------------------------------------------------------------------------------------------
def mk_entry(eng, i, kinds=("range", "cron", "neither", "cron-invalid")):
    """An abstract @time_active entry: its text is classified by the string/regex contracts."""
    negate = bool(eng.choose(2, f"entry{i}.negated"))
    kind = kinds[eng.choose(len(kinds), f"entry{i}.kind")]
    e = Rec(name=f"entry{i}")
    e._fields.update({"_negate": negate, "_kind": kind, "_i": i, "_stripped_not": False})

    def clone(**kw):
        c = Rec(name=e._name if hasattr(e, "_name") else f"entry{i}")
        c._fields.update(e._fields)
        c._fields.update(kw)
        install(c)
        return c

    def install(r):
        r._fields["strip"] = lambda it_: r
        r._fields["startswith"] = lambda it_, p: (r._fields["_negate"] and not r._fields["_stripped_not"]) if p == "not" else False
        r._fields["replace"] = lambda it_, a, b: clone(_stripped_not=True) if (a, b) == ("not ", "") else r
    install(e)
    return e


def tac_env(eng, it, w):
    mod, Fn = c09.trig_module(eng, it, w)
    starts, ends, cron_m = {}, {}, {}

    def re_match(it_, pattern, s):
        kind = s._fields["_kind"]
        i = s._fields["_i"]
        if s._fields["_negate"] and not s._fields["_stripped_not"]:
            # contract: the patterns are anchored at the start: an entry still carrying its 'not' prefix matches neither
            return None
        if pattern.startswith("cron") and kind in ("cron", "cron-invalid"):
            return Rec(fields={"group": lambda it2, name: ("cron_expr", i, kind)}, name="cron_match")
        if pattern.startswith("range") and kind == "range":
            return Rec(fields={"groups": lambda it2: [Rec(fields={"strip": lambda it3: ("start", i)}), Rec(fields={"strip": lambda it3: ("end", i)})]}, name="range_match")
        return None
    mod.env.vars["re"] = PyModule("re", {"match": re_match})

    def is_valid(it_, ex):
        return ex[2] == "cron"

    def match(it_, ex, now):
        i = ex[1]
        w.emit("croniter.match", i, now)
        cron_m.setdefault(i, z3.Bool(f"cron_matches_{i}"))
        return SV(cron_m[i])
    mod.env.vars["croniter"] = Rec(fields={"is_valid": is_valid, "match": match}, name="croniter")

    def parse_date_time(it_, text, day_offset, base, startup):
        def th():
            which, i = text
            w.emit("parse_date_time", which, i, base, day_offset)
            d = starts if which == "start" else ends
            d.setdefault(i, z3.Const(f"{which}_{i}", R))
            return [SV(d[i]), 0]
        return Coro(th, "parse_date_time")
    cls = mod.env.vars["TrigTime"]
    cls.attrs["parse_date_time"] = parse_date_time
    return mod, cls, starts, ends, cron_m


def spec_active(entries, now, starts, ends, cron_m):
    """the statement: in at least one positive spec (or none given) and in no negated spec"""
    def matches(e):
        i, k = e._fields["_i"], e._fields["_kind"]
        if k == "range":
            s, t = starts[i], ends[i]
            return z3.If(s <= t, z3.And(s <= now, now <= t), z3.Or(now >= s, now <= t))
        return cron_m[i]
    pos = [matches(e) for e in entries if not e._fields["_negate"]]
    neg = [matches(e) for e in entries if e._fields["_negate"]]
    return z3.And(z3.Or(*pos) if pos else z3.BoolVal(True), z3.Not(z3.Or(*neg)) if neg else z3.BoolVal(True))


def h_tac(n, kinds=("range", "cron", "neither", "cron-invalid")):
    def h(eng):
        eng.max_steps = 6_000_000
        U = f"C07/TrigTime.timer_active_check[entries={n}]"
        it = Interpreter(eng)
        w = World(eng)
        mod, cls, starts, ends, cron_m = tac_env(eng, it, w)
        entries = [mk_entry(eng, i, kinds) for i in range(n)]
        single = n == 1 and bool(eng.choose(2, "spec-is-a-bare-string"))
        now = SV(z3.Const("now", R))
        startup = SV(z3.Const("startup", R))
        k, v = run_catching(it, lambda: it.await_(it.call(it.getattr_(cls, "timer_active_check"), [entries[0] if single else list(entries), now, startup], {})))
        eng.cover(f"exit:{k}")
        eng.oblige(f"{U}/post.no-exception", k == "ok")
        if k != "ok":
            return
        vt = v.t if isinstance(v, SV) else z3.BoolVal(bool(v))
        ekinds = [e._fields["_kind"] for e in entries]
        bad = [i for i, kd in enumerate(ekinds) if kd in ("neither", "cron-invalid")]
        if bad:
            eng.oblige(f"{U}/post.invalid-entry-is-never-active", z3.Not(vt))
            return
        for i, e in enumerate(entries):
            if ekinds[i] == "range":
                starts.setdefault(i, z3.Const(f"start_{i}", R))
                ends.setdefault(i, z3.Const(f"end_{i}", R))
            else:
                cron_m.setdefault(i, z3.Bool(f"cron_matches_{i}"))
        want = spec_active(entries, now.t, starts, ends, cron_m)
        ob = eng.oblige(f"{U}/post.equals-the-statements-combination", vt == want)
        if ob.status == "refuted":
            ob.witness = {"signature": "timer_active_check", "entries": [(e._fields["_negate"], e._fields["_kind"]) for e in entries]}
        # every range is parsed with start relative to `now` and end relative to the start's date; cron sees `now`
        for ev in w.events("parse_date_time"):
            which, i, base, off = ev[1], ev[2], ev[3], ev[4]
            if which == "start":
                eng.oblige(f"{U}/post.range-start-is-parsed-relative-to-the-occurrence-time", base is now and off == 0)
            else:
                eng.oblige(f"{U}/post.range-end-is-parsed-relative-to-the-start", isinstance(base, SV) and z3.is_const(base.t) and str(base.t) == f"start_{i}" and off == 0)
        for ev in w.events("croniter.match"):
            eng.oblige(f"{U}/post.cron-is-matched-at-the-occurrence-time", ev[2] is now)
    return h


# ----------------------------------------------------------------------------------------------------------
# new subsystem: TimeActiveDecorator.handle_dispatch
# ----------------------------------------------------------------------------------------------------------
def h_time_active_dec(n_args):
    def h(eng):
        U = f"C07/TimeActiveDecorator.handle_dispatch[args={n_args}]"
        it = Interpreter(eng)
        it.obj_may_be_none = True
        w = World(eng)
        amod, bmod, M, hass, live = c09.dec_env(eng, it, w)
        mono = SV(z3.Const("monotonic", R))
        eng.assume(mono.t > 0)
        wall = SV(z3.Const("dt_now", R))
        calls = []

        def tac(it_, spec, now, startup):
            def th():
                calls.append((spec, now, startup))
                return SV(z3.Bool(f"active_{len(calls)}"))
            return Coro(th, "timer_active_check")
        trigger_stub = PyModule("trigger", {"TrigTime": Rec(fields={"timer_active_check": tac}, name="TrigTime"), "dt_now": lambda it_: wall})
        DT = Rec(name="datetime-class")
        mod = Module(it, DT_PY, stubs={"_LOGGER": logger_stub(), "TriggerDecorator": amod.env.vars["TriggerDecorator"],
                                       "TriggerHandlerDecorator": amod.env.vars["TriggerHandlerDecorator"],
                                       "AutoKwargsDecorator": bmod.env.vars["AutoKwargsDecorator"],
                                       "DispatchData": amod.env.vars["DispatchData"], "vol": PyModule("vol", {}),
                                       "asyncio": PyModule("asyncio", {"CancelledError": EXC["CancelledError"]}),
                                       "DecoratorManagerStatus": Rec(fields=M), "trigger": trigger_stub,
                                       "time": PyModule("time", {"monotonic": lambda it_: mono}),
                                       "dt": PyModule("dt", {"datetime": DT})})
        cls = mod.env.vars["TimeActiveDecorator"]
        args = [f"spec{i}" for i in range(n_args)]
        hold = [None, 0.0, "N"][eng.choose(3, "hold_off")]
        N = SV(z3.Const("N", R))
        eng.assume(N.t > 0)
        last = SV(z3.Const("last_trig_time", R))
        eng.assume(z3.And(last.t >= 0, last.t <= mono.t))
        dm = c09.mk_dm_rec(M, hass)
        dm._fields["startup_time"] = SV(z3.Const("startup", R))
        dec = Rec(cls=cls, fields={"args": args, "kwargs": {}, "dm": dm, "hold_off": N if hold == "N" else hold, "last_trig_time": last}, name="time_active")
        ttype = ["datetime", "startup-string", "absent"][eng.choose(3, "trigger_time")]
        trig_time = SV(z3.Const("trigger_time", R))
        fa = {"trigger_type": "time" if ttype != "absent" else "state"}
        if ttype == "datetime":
            fa["trigger_time"] = trig_time
        elif ttype == "startup-string":
            fa["trigger_time"] = "startup"
        orig_isinstance = it.isinstance_

        def isinstance_(v, c):
            if c is DT:
                return v is trig_time
            return orig_isinstance(v, c)
        it.isinstance_ = isinstance_
        data = Rec(fields={"func_args": fa, "trigger_context": {}}, name="DispatchData")
        k, v = run_catching(it, lambda: it.await_(it.call(it.getattr_(dec, "handle_dispatch"), [data], {})))
        eng.cover(f"exit:{k}")
        eng.oblige(f"{U}/post.no-exception", k == "ok")
        if k != "ok":
            return
        vt = v.t if isinstance(v, SV) else z3.BoolVal(bool(v))
        last1 = dec._fields["last_trig_time"]
        # hold_off: occurrences less than N seconds after the last accepted one are ignored
        in_hold = z3.And(last.t > 0, mono.t - last.t < N.t) if hold == "N" else z3.BoolVal(False)
        if n_args == 0:
            want = z3.Not(in_hold)
        else:
            ok_calls = len(calls) <= 1
            eng.oblige(f"{U}/post.the-list-is-checked-as-a-whole-at-most-once", ok_calls)
            if len(calls) == 0:
                want = z3.BoolVal(False)
                eng.oblige(f"{U}/post.no-window-check-only-inside-hold-off", in_hold)
            else:
                spec, now, startup = calls[0]
                ob = eng.oblige(f"{U}/post.window-check-sees-the-whole-list", (isinstance(spec, list) and list(spec) == args) or (len(args) == 1 and spec == args[0]))
                if ob.status == "refuted":
                    ob.witness = {"signature": "per-argument-check", "what": "per-argument-check"}
                eng.oblige(f"{U}/post.window-check-at-the-occurrence-time", now is (trig_time if ttype == "datetime" else wall))
                eng.oblige(f"{U}/post.window-check-uses-the-startup-time", startup is dm._fields["startup_time"])
                want = z3.And(z3.Not(in_hold), z3.Bool("active_1"))
        ob = eng.oblige(f"{U}/post.accepts-iff-outside-hold-off-and-inside-the-windows", vt == want)
        if ob.status == "refuted":
            ob.witness = {"signature": "gate", "what": "gate"}
        l1 = last1.t if isinstance(last1, SV) else z3.RealVal(last1)
        eng.oblige(f"{U}/post.last-accepted-time-stamped-iff-accepted", z3.If(vt, l1 == mono.t, l1 == last.t))
    return h


# ----------------------------------------------------------------------------------------------------------
# new subsystem: hold_off counts from the last ACCEPTED occurrence (FunctionDecoratorManager.dispatch + TimeActiveDecorator)
# ----------------------------------------------------------------------------------------------------------
def h_hold_off_chain(eng):
    from . import C08 as c08
    U = "C07/FunctionDecoratorManager.dispatch[time_active+other-guard]"
    it = Interpreter(eng)
    it.obj_may_be_none = True
    w = World(eng)
    amod, bmod, M, hass, live = c09.dec_env(eng, it, w)
    fmod, Fn, tasks, created = c08.fdm_module(eng, it, w, amod)
    mono = SV(z3.Const("monotonic", R))
    eng.assume(mono.t > 0)
    tmod = Module(it, DT_PY, stubs={"_LOGGER": logger_stub(), "TriggerDecorator": amod.env.vars["TriggerDecorator"],
                                    "TriggerHandlerDecorator": amod.env.vars["TriggerHandlerDecorator"],
                                    "AutoKwargsDecorator": bmod.env.vars["AutoKwargsDecorator"],
                                    "DispatchData": amod.env.vars["DispatchData"], "vol": PyModule("vol", {}),
                                    "asyncio": PyModule("asyncio", {"CancelledError": EXC["CancelledError"]}),
                                    "DecoratorManagerStatus": Rec(fields=M), "trigger": PyModule("trigger", {}),
                                    "time": PyModule("time", {"monotonic": lambda it_: mono}), "dt": PyModule("dt", {})})
    FDM = fmod.env.vars["FunctionDecoratorManager"]
    THD = amod.env.vars["TriggerHandlerDecorator"]
    N = SV(z3.Const("N", R))
    eng.assume(N.t > 0)
    last = SV(z3.Const("last_trig_time", R))
    eng.assume(z3.And(last.t >= 0, last.t <= mono.t))
    gctx = Rec(name="gctx")
    eval_func = Rec(fields={"global_ctx_name": "file.x", "name": "f", "global_ctx": gctx, "logger": logger_stub()}, name="eval_func")
    dm = Rec(cls=FDM, fields={"hass": hass, "status": M["RUNNING"], "name": "file.x.f", "logger": logger_stub(), "startup_time": None,
                              "eval_func": eval_func, "_decorators": [], "ast_ctx": Rec(name="def_ast_ctx")}, name="dm")
    ta = Rec(cls=tmod.env.vars["TimeActiveDecorator"], fields={"args": [], "kwargs": {}, "dm": dm, "hold_off": N, "last_trig_time": last}, name="time_active")
    other = {"r": None}
    g = Rec(cls=THD, fields={}, name="other_guard")

    def hd(i, data):
        def th():
            other["r"] = [True, False][eng.choose(2, "other-guard-accepts")]
            return other["r"]
        return Coro(th, "other_guard.handle_dispatch")
    g._fields["handle_dispatch"] = hd
    order = ["time_active-declared-first", "other-guard-declared-first"][eng.choose(2, "order")]
    dm._fields["_decorators"] = [ta, g] if order.startswith("time_active") else [g, ta]
    data = Rec(cls=amod.env.vars["DispatchData"], fields={"func_args": {"trigger_type": "event"}, "trigger_context": {}, "trigger": None,
                                                          "call_ast_ctx": None, "hass_context": None}, name="DispatchData")
    k, v = run_catching(it, lambda: it.await_(it.call(it.getattr_(dm, "dispatch"), [data], {})))
    eng.cover(f"exit:{k}")
    eng.oblige(f"{U}/post.no-exception", k == "ok")
    if k != "ok":
        return
    in_hold = z3.And(last.t > 0, mono.t - last.t < N.t)
    ran = len(tasks) == 1
    l1 = ta._fields["last_trig_time"]
    l1t = l1.t if isinstance(l1, SV) else z3.RealVal(l1)
    eng.oblige(f"{U}/post.at-most-one-run", len(tasks) <= 1)
    if ran:
        eng.oblige(f"{U}/post.runs-only-outside-hold-off-with-all-guards-accepting", z3.And(z3.Not(in_hold), other["r"] is True))
        eng.oblige(f"{U}/post.accepted-occurrence-starts-the-hold-off-window", l1t == mono.t)
    else:
        eng.oblige(f"{U}/post.no-run-only-when-a-guard-rejects", z3.Or(in_hold, other["r"] is False))
        ob = eng.oblige(f"{U}/post.rejected-occurrence-does-not-start-the-hold-off-window", l1t == last.t)
        if ob.status == "refuted":
            ob.witness = {"signature": "hold-off-window-started-by-a-rejected-occurrence", "what": "hold-off-order", "order": order}


# ----------------------------------------------------------------------------------------------------------
# new subsystem: StateActiveDecorator.handle_dispatch
# ----------------------------------------------------------------------------------------------------------
def h_state_active_dec(eng):
    U = "C07/StateActiveDecorator.handle_dispatch"
    it = Interpreter(eng)
    it.obj_may_be_none = True
    w = World(eng)
    amod, bmod, M, hass, live = c09.dec_env(eng, it, w)
    names = SymPySet(["d.e", "x.y"])
    nvg = []

    def notify_var_get(it_, var_names, new_vars):
        out = dict(new_vars)
        out["__filled_from_state_table__"] = True
        nvg.append((var_names, new_vars, out))
        return out
    StateStub = Rec(fields={"notify_var_get": notify_var_get}, name="State")
    mod = Module(it, DS_PY, stubs={"_LOGGER": logger_stub(), "TriggerDecorator": amod.env.vars["TriggerDecorator"],
                                   "TriggerHandlerDecorator": amod.env.vars["TriggerHandlerDecorator"],
                                   "ExpressionDecorator": bmod.env.vars["ExpressionDecorator"],
                                   "AutoKwargsDecorator": bmod.env.vars["AutoKwargsDecorator"],
                                   "DispatchData": amod.env.vars["DispatchData"], "State": StateStub,
                                   "asyncio": PyModule("asyncio", {}), "vol": PyModule("vol", {}), "logging": PyModule("logging", {"DEBUG": 10}),
                                   "DecoratorManagerStatus": Rec(fields=M),
                                   "ident_any_values_changed": None, "ident_values_changed": None})
    cls = mod.env.vars["StateActiveDecorator"]
    dm = c09.mk_dm_rec(M, hass)
    handled = []
    dm._fields["handle_exception"] = lambda i, e: Coro(lambda: handled.append(e), "dm.handle_exception")
    seen = []
    outcome = ["true", "false", "raises"][eng.choose(3, "expression")]
    truth = SV(z3.Bool("expression_value"))

    def ev(i, vars_):
        def th():
            seen.append(vars_)
            if outcome == "raises":
                raise exc("UserException", "bad")
            return 1 if outcome == "true" else 0     # truth value, not necessarily a bool
        return Coro(th, "expr.eval")
    dec = Rec(cls=cls, fields={"args": ["expr"], "kwargs": {}, "dm": dm, "_ast_expression": Rec(fields={"eval": ev}, name="expr"), "var_names": names}, name="state_active")
    has_ctx = bool(eng.choose(2, "state-trigger-occurrence"))
    new_vars = {"d.e": "new", "d.e.old": "old"}
    data = Rec(fields={"func_args": {"trigger_type": "state" if has_ctx else "event"}, "trigger_context": {"new_vars": new_vars} if has_ctx else {}}, name="DispatchData")
    k, v = run_catching(it, lambda: it.await_(it.call(it.getattr_(dec, "handle_dispatch"), [data], {})))
    eng.cover(f"exit:{k}")
    eng.oblige(f"{U}/post.no-exception-escapes", k == "ok")
    if k != "ok":
        return
    eng.oblige(f"{U}/post.expression-evaluated-exactly-once", len(seen) == 1)
    eng.oblige(f"{U}/post.values-are-the-events-completed-from-the-state-table",
               len(nvg) == 1 and nvg[0][0] is names and nvg[0][1] == (new_vars if has_ctx else {}) and len(seen) == 1 and seen[0] is nvg[0][2])
    if has_ctx:
        eng.oblige(f"{U}/post.old-value-available-to-the-expression", len(seen) == 1 and seen[0].get("d.e.old") == "old")
    # (the decorator manager rejects an occurrence only for the object False: FunctionDecoratorManager.dispatch, C08's contract)
    ob = eng.oblige(f"{U}/post.active-iff-expression-truthy", (v is True) == (outcome == "true") and (v is False) == (outcome != "true"))
    if ob.status == "refuted":
        ob.witness = {"signature": "expression-value-not-a-bool"}
    eng.oblige(f"{U}/post.expression-error-reported-once-and-not-active", (len(handled) == 1) == (outcome == "raises"))


# ----------------------------------------------------------------------------------------------------------
# legacy: guard block of trigger_watch#while0
# ----------------------------------------------------------------------------------------------------------
def h_legacy_guards(eng):
    U = "C07/TrigInfo.trigger_watch#while0[guards]"
    eng.max_steps = 3_000_000
    ident, msg, fa, nv = c04_message(eng)
    has_active = bool(eng.choose(2, "has-state_active"))
    ta = [None, ["spec0", "spec1"]][eng.choose(2, "has-time_active")]
    hold = [None, "N"][eng.choose(2, "hold_off")]
    N = SV(z3.Const("N", R))
    eng.assume(N.t >= 0)
    last = c04_opt_real("last_trig_time")
    cfg = {"ident": ident, "ident_any": [], "has_expr": True, "has_active": has_active, "time_active": ta, "hold_off": N if hold == "N" else None,
           "call_action_returns": bool(eng.choose(2, "call_action-starts-a-run")) if False else True}
    started = bool(eng.choose(2, "call_action-returns"))
    cfg["call_action_returns"] = started
    clock = c04.VClock(eng)
    eng.assume(clock.cur >= last.t)
    tac_calls = []

    def patch(mod, w):
        def tac(it_, spec, now, startup):
            def th():
                tac_calls.append((spec, now, startup))
                return SV(z3.Bool(f"active_{len(tac_calls)}"))
            return Coro(th, "timer_active_check")
        mod.env.vars["TrigTime"].attrs["timer_active_check"] = tac
    orig = c04.trig_env

    def trig_env(eng_, it_, w=None):
        mod, Fn, w = orig(eng_, it_, w)
        patch(mod, w)
        return mod, Fn, w
    c04.trig_env = trig_env
    try:
        it, w, ti, res, q_calls, (expr, aexpr) = c04.legacy_step(eng, cfg, msg, loop_state={"state_trig_waiting": False, "last_trig_time": last}, clock=clock)
    finally:
        c04.trig_env = orig
    eng.cover(f"end:{res.get('end')}")
    eng.oblige(f"{U}/post.no-exception-escapes-the-step", not str(res.get("end")).startswith("raised"))
    calls = w.events("call_action")
    trig = expr._fields.get("last") == "true"
    L = res.get("locals", {})
    t = clock.cur
    act = aexpr._fields.get("last") if aexpr is not None else None
    # the guards are consulted only for an occurrence (the trigger expression is true)
    if not trig:
        eng.oblige(f"{U}/post.guards-never-start-a-run", len(calls) == 0)
        eng.oblige(f"{U}/post.no-guard-evaluated-without-an-occurrence", act is None and tac_calls == [])
        return
    state_ok = (not has_active) or act == "true"
    if has_active:
        evs = [e for e in w.events("expr") if e[1] == "active_expr"]
        eng.oblige(f"{U}/post.state_active-evaluated-once-on-the-events-values", len(evs) == 1 and evs[0][2] == nv)
    if not state_ok:
        eng.oblige(f"{U}/post.inactive-state-blocks-the-run", len(calls) == 0)
        return
    if ta is not None:
        ok = len(tac_calls) == 1
        eng.oblige(f"{U}/post.window-check-once-with-the-whole-list", ok and tac_calls[0][0] is ta)
        if ok:
            now = tac_calls[0][1]
            ob = eng.oblige(f"{U}/post.window-check-at-the-occurrence-time", z3.And(now.t == t) if isinstance(now, SV) else False)
            if ob.status == "refuted":
                ob.witness = {"signature": "stale-occurrence-time", "what": "time_active", "subsystem": "legacy"}
        time_ok = z3.Bool("active_1") if ok else z3.BoolVal(False)
    else:
        eng.oblige(f"{U}/post.no-window-check-without-time_active", tac_calls == [])
        time_ok = z3.BoolVal(True)
    in_hold = z3.And(z3.Not(last.none), t < last.t + N.t) if hold == "N" else z3.BoolVal(False)
    want = z3.And(time_ok, z3.Not(in_hold))
    eng.oblige(f"{U}/post.runs-iff-all-guards-accept", want if len(calls) == 1 else (z3.Not(want) if len(calls) == 0 else False))
    l1 = L.get("last_trig_time")
    n1, t1 = as_opt(l1)
    if len(calls) == 1 and started:
        eng.oblige(f"{U}/post.last-accepted-time-updated-when-a-run-starts", z3.And(z3.Not(n1), t1 == t))
    else:
        eng.oblige(f"{U}/post.last-accepted-time-unchanged-otherwise", z3.And(n1 == last.none, z3.Implies(z3.Not(n1), t1 == last.t)))


def as_opt(v):
    if v is None:
        return (z3.BoolVal(True), z3.RealVal(0))
    if not isinstance(v, SV):
        return (z3.BoolVal(False), z3.RealVal(v))
    return (v.none if v.none is not None else z3.BoolVal(False), v.t)


def c04_opt_real(nm):
    v = SV(z3.Const(nm, R), none=z3.Bool(nm + "_is_none"))
    return v


def c04_message(eng):
    from .tables import mk_names
    var = c04.entity(eng)
    ident = mk_names(eng, 1, "ident")
    eng.assume(ident[0].t == var.t)
    value, old = c04.mk_value(eng, "new", ("a",)), c04.mk_value(eng, "old", ("a",))
    eng.assume(value._ident != old._ident)
    msg, fa, nv = c04.mk_state_message(eng, var, value, old)
    return ident, msg, fa, nv


# ----------------------------------------------------------------------------------------------------------
# guard frame: guards cannot start a run; direct calls do not pass through guards
# ----------------------------------------------------------------------------------------------------------
def h_guard_frame(eng):
    U = "C07/guard-frame"
    starts_run = {"create_task", "dispatch", "call_action", "_call", "call_func", "async_create_task", "async_create_background_task"}

    def calls_in(path, qual):
        from pyvc.loader import find_def
        tree, _ = parse_file(path)
        node = find_def(tree, qual)
        out = set()
        for n in ast.walk(node):
            if isinstance(n, ast.Call):
                f = n.func
                out.add(f.attr if isinstance(f, ast.Attribute) else getattr(f, "id", "?"))
        return out
    for path, qual in ((DT_PY, "TimeActiveDecorator.handle_dispatch"), (DS_PY, "StateActiveDecorator.handle_dispatch"), (T_PY, "TrigTime.timer_active_check")):
        c = calls_in(path, qual)
        eng.oblige(f"{U}/{qual}.contains-no-call-that-starts-a-run", not (c & starts_run))
    # direct calls: EvalFunc.call / call_func never consult the guards
    E_PY = f"{PKG}/eval.py"
    tree, _ = parse_file(E_PY)
    names = set()
    for n in ast.walk(tree):
        if isinstance(n, ast.Attribute):
            names.add(n.attr)
        elif isinstance(n, ast.Name):
            names.add(n.id)
    eng.oblige(f"{U}/eval.py-never-refers-to-the-guards", not (names & {"handle_dispatch", "timer_active_check", "time_active", "state_active", "active_expr", "TriggerHandlerDecorator"}))
    eng.cover("scanned")


def replay_c07(wj):
    from replay.native import run_native
    return run_native("c07_time_active", wj, timeout=300)


def replay_hold(wj):
    from replay.native import run_native
    return run_native("c07_hold_off_order", wj, timeout=300)


def bounded_windows(seed):
    from replay.native import run_native
    return run_native("c07_windows_bounded", {"seed": seed}, timeout=1200)


def bounded_dual(seed_base, programs):
    def run(seed):
        from replay.native import run_native
        return run_native("cx_dual_bounded", {"seed": seed_base + seed, "programs": programs}, timeout=1500)
    return run


def harnesses():
    hs = []
    for n in (1, 2, 3, 4):
        hs.append(Harness(f"timer_active_check[{n}]", h_tac(n) if n <= 3 else h_tac(n, ("range", "cron")), units=[(T_PY, "TrigTime.timer_active_check")], replay=replay_c07, max_paths=60000,
                          tier="quick" if n <= 3 else "thorough"))
    for n in (0, 1, 2, 3):
        hs.append(Harness(f"TimeActiveDecorator.handle_dispatch[{n}]", h_time_active_dec(n), units=[(DT_PY, "TimeActiveDecorator.handle_dispatch")], replay=replay_c07))
    hs.append(Harness("StateActiveDecorator.handle_dispatch", h_state_active_dec, units=[(DS_PY, "StateActiveDecorator.handle_dispatch")],
                      replay=lambda wj: __import__("replay.native", fromlist=["run_native"]).run_native("c07_state_active_truth", wj)))
    hs.append(Harness("hold_off.chain", h_hold_off_chain, units=[(D_PY, "FunctionDecoratorManager.dispatch"), (DT_PY, "TimeActiveDecorator.handle_dispatch")], replay=replay_hold))
    hs.append(Harness("State.notify_var_get", c04.h_notify_var_get, units=[(f"{PKG}/state.py", "State.notify_var_get")]))
    hs.append(Harness("legacy.guards", h_legacy_guards, units=[(T_PY, "TrigInfo.trigger_watch")], replay=replay_c07, max_paths=30000))
    hs.append(Harness("guard-frame", h_guard_frame, units=[(DT_PY, "TimeActiveDecorator.handle_dispatch"), (DS_PY, "StateActiveDecorator.handle_dispatch")]))
    hs.append(Harness("bounded.windows", bounded_windows, units=[(T_PY, "TrigTime.timer_active_check"), (T_PY, "TrigTime.parse_date_time")], kind="bounded"))
    hs.append(Harness("bounded.dual-subsystems", bounded_dual(0, 100), units=[(T_PY, "TrigInfo.trigger_watch"), (D_PY, "FunctionDecoratorManager.dispatch")], kind="bounded"))
    for k in range(1, 5):
        hs.append(Harness(f"bounded.dual-subsystems[thorough {k}/4]", bounded_dual(0 + 10 * k, 300), units=[(T_PY, "TrigInfo.trigger_watch"), (D_PY, "FunctionDecoratorManager.dispatch")], kind="bounded", tier="thorough"))
    return hs
